// Shared machinery of the C16 harnesses (c16_unary.cpp, c16_binary.cpp, c16_approx.cpp,
// c16_complex.cpp): bit-level helpers, the explicitly enumerated float/double input sets,
// the argument-class predicate ("region") used for violation classes, and a counting
// violation sink that is cheap enough for sweeps in which billions of points disagree.
//
// Input sets (all deterministic, duplicate-free by construction, nothing sampled):
//   F32-full   every one of the 2^32 float bit patterns
//   L24        the float patterns whose low mantissa byte is one of {00,01,7F,80,FF}
//              (sign, exponent and the high 15 mantissa bits vary freely): 5 * 2^24 points
//   A(q)       the float patterns whose high q mantissa bits vary freely and whose low
//              23-q bits are one of {0..0, 0..01, 01..1, 10..0, 1..1}: 5 * 2^(9+q) points;
//              A(7) is a subset of A(12) (approximating functions: quick / thorough)
//   B32 / B64  boundary values (about 420 each), see make_boundary()
//   G64(M)     doubles: every sign x every one of the 2048 exponents x a mantissa set M
#pragma once

#include "mc.hpp"

#include <bit>
#include <cfloat>
#include <cmath>
#include <cstdint>
#include <limits>
#include <set>
#include <string>
#include <type_traits>
#include <vector>

namespace c16 {

using u32 = std::uint32_t;
using u64 = std::uint64_t;

inline float fb(u32 b) { return std::bit_cast<float>(b); }
inline u32 bf(float f) { return std::bit_cast<u32>(f); }
inline double db(u64 b) { return std::bit_cast<double>(b); }
inline u64 bd(double d) { return std::bit_cast<u64>(d); }

template <typename T>
struct FT;
template <>
struct FT<float> {
    using bits_t                   = u32;
    static constexpr int mant      = 23;
    static constexpr int expbits   = 8;
    static constexpr char const* n = "float";
};
template <>
struct FT<double> {
    using bits_t                   = u64;
    static constexpr int mant      = 52;
    static constexpr int expbits   = 11;
    static constexpr char const* n = "double";
};

template <typename T>
typename FT<T>::bits_t to_bits(T v)
{
    return std::bit_cast<typename FT<T>::bits_t>(v);
}
template <typename T>
T from_bits(typename FT<T>::bits_t b)
{
    return std::bit_cast<T>(b);
}

// --- canonical result carrier: every result (float, double, bool, long, long long) travels
// as u64; all NaNs are one value ("NaN == NaN" of the statement), everything else is the
// exact bit pattern (so -0.0 != +0.0).
inline u64 canon(float v) { return (v != v) ? u64(0x7fc00000u) : u64(bf(v)); }
inline u64 canon(double v) { return (v != v) ? u64(0x7ff8000000000000ull) : bd(v); }
inline u64 canon(bool v) { return v ? 1u : 0u; }
inline u64 canon(long v) { return static_cast<u64>(v); }
inline u64 canon(long long v) { return static_cast<u64>(v); }
inline u64 canon(int v) { return static_cast<u64>(static_cast<long long>(v)); }

inline std::string show(float v)
{
    char b[64];
    std::snprintf(b, sizeof b, "%.9g (0x%08x)", double(v), bf(v));
    return b;
}
inline std::string show(double v)
{
    char b[80];
    std::snprintf(b, sizeof b, "%.17g (0x%016llx)", v, static_cast<unsigned long long>(bd(v)));
    return b;
}
inline std::string show(long double v)
{
    char b[80];
    std::snprintf(b, sizeof b, "%.21Lg", v);
    return b;
}
enum class Kind { f32, f64, boolean, integer };
inline std::string show_result(u64 c, Kind k)
{
    switch (k) {
    case Kind::f32: return show(fb(u32(c)));
    case Kind::f64: return show(db(c));
    case Kind::boolean: return c ? "true" : "false";
    case Kind::integer: return std::to_string(static_cast<long long>(c));
    }
    return "?";
}

// ---------------------------------------------------------------------------------------
// argument class ("region"): a predicate over the INPUT only
// ---------------------------------------------------------------------------------------
//
// 0 nan, 1 pos_inf, 2 neg_inf, 3 pos_zero, 4 neg_zero, then 5 + 2*m + (negative) for the
// magnitude buckets m:
//   0 subnormal   |x| < min normal
//   1 tiny        |x| < epsilon            (gcem treats these as "indistinguishable from 0")
//   2 small       |x| < 2^-6
//   3 lt_1        |x| < 1
//   4 lt_8        |x| < 8
//   5 lt_1024     |x| < 1024
//   6 frac        |x| < 2^(digits-1)       (values that can still have a fractional part)
//   7 int_lt_2^63 |x| < 2^63               (integral, fits long long)
//   8 ge_2^63     the rest of the finite range
// Exact functions add a suffix for 0.5 <= |x| < 2^(digits-1): ":tie" (fraction exactly .5),
// ":int" (integral value).
inline constexpr int kRegions = 5 + 2 * 9;

template <typename T>
int region_id(T x)
{
    using B              = typename FT<T>::bits_t;
    constexpr int mant   = FT<T>::mant;
    constexpr int ebits  = FT<T>::expbits;
    constexpr int bias   = (1 << (ebits - 1)) - 1;
    B const b            = to_bits(x);
    bool const neg       = (b >> (mant + ebits)) != 0;
    int const e          = int((b >> mant) & ((B(1) << ebits) - 1));
    B const m            = b & ((B(1) << mant) - 1);
    if (e == (1 << ebits) - 1) { return m != 0 ? 0 : (neg ? 2 : 1); }
    if (e == 0 && m == 0) { return neg ? 4 : 3; }
    int const ue = e - bias; // |x| in [2^ue, 2^(ue+1))  (subnormals: e == 0)
    int mag;
    if (e == 0) {
        mag = 0;
    } else if (ue < -mant) {
        mag = 1;
    } else if (ue < -6) {
        mag = 2;
    } else if (ue < 0) {
        mag = 3;
    } else if (ue < 3) {
        mag = 4;
    } else if (ue < 10) {
        mag = 5;
    } else if (ue < mant) {
        mag = 6;
    } else if (ue < 63) {
        mag = 7;
    } else {
        mag = 8;
    }
    return 5 + 2 * mag + (neg ? 1 : 0);
}

/// 0 = none, 1 = tie (fraction exactly one half), 2 = integral; only for 0.5 <= |x| < 2^mant
template <typename T>
int frac_id(T x)
{
    using B             = typename FT<T>::bits_t;
    constexpr int mant  = FT<T>::mant;
    constexpr int ebits = FT<T>::expbits;
    constexpr int bias  = (1 << (ebits - 1)) - 1;
    B const b           = to_bits(x);
    int const e         = int((b >> mant) & ((B(1) << ebits) - 1));
    B const m           = b & ((B(1) << mant) - 1);
    int const ue        = e - bias;
    if (e == (1 << ebits) - 1 || ue < -1 || ue >= mant) { return 0; }
    // fraction bits are the low (mant - ue) bits of the mantissa; for ue == -1 the value is
    // 0.5 * 1.m: a tie only when m == 0
    if (ue == -1) { return m == 0 ? 1 : 0; }
    int const fbits = mant - ue;
    B const frac    = m & ((B(1) << fbits) - 1);
    if (frac == 0) { return 2; }
    if (frac == (B(1) << (fbits - 1))) { return 1; }
    return 0;
}

inline char const* region_name(int id)
{
    static char const* const names[kRegions] = {"nan", "pos_inf", "neg_inf", "pos_zero", "neg_zero", "pos_subnormal",
        "neg_subnormal", "pos_tiny", "neg_tiny", "pos_small", "neg_small", "pos_lt_1", "neg_lt_1", "pos_lt_8", "neg_lt_8",
        "pos_lt_1024", "neg_lt_1024", "pos_frac", "neg_frac", "pos_int_lt_2^63", "neg_int_lt_2^63", "pos_ge_2^63",
        "neg_ge_2^63"};
    return (id >= 0 && id < kRegions) ? names[id] : "?";
}
inline char const* frac_name(int id) { return id == 1 ? ":tie" : id == 2 ? ":int" : ""; }

template <typename T>
std::string region(T x)
{
    return region_name(region_id(x));
}
template <typename T>
std::string region_exact(T x)
{
    return std::string(region_name(region_id(x))) + frac_name(frac_id(x));
}

// --- classes for the exact set: specials, then sign x magnitude bucket
//   subnormal, tiny (< epsilon), lt_half (< 0.5), lt_1 (< 1), frac (< 2^(digits-1)),
//   int_lt_2^63, ge_2^63;  suffix ":tie" (fraction exactly .5) / ":int" (integral) where a
//   fraction can exist.  Functions that only look at sign/class of the argument use the
//   coarse form: nan, +inf, -inf, +0, -0, +fin, -fin.
inline constexpr int kExactMags    = 7;
inline constexpr int kExactClasses = (5 + 2 * kExactMags) * 3;

template <typename T>
int exact_class_id(T x)
{
    int const rid = region_id(x);
    if (rid < 5) { return rid * 3; }
    int const neg = (rid - 5) & 1;
    int const mag = (rid - 5) >> 1; // 0 sub, 1 tiny, 2 small, 3 lt_1, 4 lt_8, 5 lt_1024, 6 frac, 7 int, 8 huge
    T const a     = x < 0 ? -x : x;
    int em;
    switch (mag) {
    case 0: em = 0; break;
    case 1: em = 1; break;
    case 2: em = 2; break;
    case 3: em = (a < T(0.5)) ? 2 : 3; break;
    case 4:
    case 5:
    case 6: em = 4; break;
    case 7: em = 5; break;
    default: em = 6; break;
    }
    return (5 + 2 * em + neg) * 3 + frac_id(x);
}
inline std::string exact_class_name(int id)
{
    static char const* const names[5 + 2 * kExactMags] = {"nan", "pos_inf", "neg_inf", "pos_zero", "neg_zero", "pos_subnormal",
        "neg_subnormal", "pos_tiny", "neg_tiny", "pos_lt_half", "neg_lt_half", "pos_lt_1", "neg_lt_1", "pos_frac", "neg_frac",
        "pos_int_lt_2^63", "neg_int_lt_2^63", "pos_ge_2^63", "neg_ge_2^63"};
    return std::string(names[id / 3]) + frac_name(id % 3);
}
template <typename T>
int coarse_id(T x)
{
    int const rid = region_id(x);
    return rid < 5 ? rid : 5 + ((rid - 5) & 1);
}
inline char const* coarse_name(int id)
{
    static char const* const names[7] = {"nan", "+inf", "-inf", "+0", "-0", "+fin", "-fin"};
    return names[id];
}

/// class of an argument of an approximating function: the region with the sign merged and
/// the two "treated as zero" buckets merged (nan, +inf, -inf, zero, tiny, small, lt_1, lt_8,
/// lt_1024, large, huge)
inline char const* approx_class_name(int rid)
{
    static char const* const special[5] = {"nan", "+inf", "-inf", "zero", "zero"};
    static char const* const mags[9]    = {"tiny", "tiny", "small", "lt_1", "lt_8", "lt_1024", "large", "large", "huge"};
    return rid < 5 ? special[rid] : mags[(rid - 5) >> 1];
}

/// "etl::floor(float)" -> "etl::floor": the subject is the API-level call site without the
/// configuration (argument type); the typed spelling goes into the case string
inline std::string strip_args(std::string const& call)
{
    auto const p = call.find('(');
    return p == std::string::npos ? call : call.substr(0, p);
}

/// tells the hang watchdog of mc.hpp that the job is making progress (it only sees entries
/// into mc::guarded otherwise)
inline void tick() { mc::traps().guard_entries = mc::traps().guard_entries + 1; }

/// coarse class of one argument of a binary function
template <typename T>
char const* coarse(T x)
{
    int const id = region_id(x);
    switch (id) {
    case 0: return "nan";
    case 1: return "+inf";
    case 2: return "-inf";
    case 3: return "+0";
    case 4: return "-0";
    default: return ((id - 5) & 1) ? "-fin" : "+fin";
    }
}

/// magnitude tag of a pair of arguments of an approximating binary function (both finite and
/// positive only): tiny if any |v| < epsilon, else huge if any |v| >= 2^63, else large if any
/// |v| >= 1024, else moderate
template <typename T>
char const* pair_magnitude(T x, T y)
{
    int const rx = region_id(x), ry = region_id(y);
    // only in the principal quadrant (both arguments finite and positive); the other sign
    // combinations are special-case territory and keep their coarse class
    if (rx < 5 || ry < 5 || ((rx - 5) & 1) || ((ry - 5) & 1)) { return ""; }
    bool tiny = false, huge = false, large = false;
    for (int r : {rx, ry}) {
        if (r < 5) { continue; }
        int const m = (r - 5) >> 1;
        tiny        = tiny || m <= 1;
        huge        = huge || m == 8;
        large       = large || m >= 6;
    }
    return tiny ? ":tiny" : huge ? ":huge" : large ? ":large" : (rx >= 5 || ry >= 5) ? ":moderate" : "";
}

// ---------------------------------------------------------------------------------------
// class of an argument pair of an exact binary function (shared by c16_binary.cpp and
// c16_cxtables.cpp so that one root cause gives the same class on both paths)
// ---------------------------------------------------------------------------------------
enum class Rel { order, quotient };

/// class id: coarse(x) x coarse(y) x relation (only for finite non-zero pairs)
template <typename T>
int bin_class_id(T x, T y, Rel rel)
{
    int k = 0;
    if (region_id(x) >= 5 && region_id(y) >= 5) {
        if (rel == Rel::order) {
            k = (x < y) ? 1 : (x > y) ? 2 : 3;
        } else {
            long double const q = std::fabs(static_cast<long double>(x) / static_cast<long double>(y));
            k = (q < 1.0L) ? 1 : (q < std::ldexp(1.0L, FT<T>::mant + 1)) ? 2 : (q < 0x1p63L) ? 3 : 4;
        }
    }
    return (coarse_id(x) * 7 + coarse_id(y)) * 5 + k;
}
inline std::string bin_class_name(int id, Rel rel)
{
    static char const* const ord[5] = {"", ":x<y", ":x>y", ":x==y", ""};
    static char const* const quo[5] = {"", ":q<1", ":q<2^digits", ":q<2^63", ":q>=2^63"};
    int const k = id % 5, c = id / 5;
    return mc::cat(coarse_name(c / 7), ",", coarse_name(c % 7), rel == Rel::order ? ord[k] : quo[k]);
}
template <typename T>
std::string bin_class(T x, T y, Rel rel)
{
    return bin_class_name(bin_class_id(x, y, rel), rel);
}

// ---------------------------------------------------------------------------------------
// violation sink with counters: one slot per class id, first witness kept, flushed once
// ---------------------------------------------------------------------------------------

struct Slot {
    u64 count{0};
    std::string kase, detail;
};

/// Records `count` occurrences of one (prop, subject, class) with its first witness.
inline void report(mc::Reporter& r, std::string const& prop, std::string const& subject, std::string const& cls,
    std::string const& kase, std::string const& detail, u64 count)
{
    if (count == 0) { return; }
    r.violation(prop, subject, cls, kase, detail);
    auto it = r.viols.find(std::make_tuple(prop, subject, cls));
    if (it != r.viols.end()) { it->second.count += count - 1; }
}

// ---------------------------------------------------------------------------------------
// boundary sets
// ---------------------------------------------------------------------------------------

/// B32 / B64: +-0, denormal min/max, normal min/max, +-inf, quiet NaN, 2^j and its two
/// neighbours for 64 evenly spaced exponents (every 4th for float, every 32nd for double), n, n+0.5 and their neighbours for |n| <= 4 (both ties
/// of each parity), 0.5-ulp, the fraction/no-fraction edge 2^(digits-1), 2^digits, 2^31,
/// 2^32, 2^63, 2^64 and neighbours, multiples of pi/2 up to 8, 1e-3 ... 1e3 decades.
/// Sorted simplest first: by magnitude (as bit pattern), positive before negative; NaN last.
template <typename T>
std::vector<T> make_boundary()
{
    using B             = typename FT<T>::bits_t;
    constexpr int mant  = FT<T>::mant;
    constexpr int ebits = FT<T>::expbits;
    constexpr int bias  = (1 << (ebits - 1)) - 1;
    B const signbit     = B(1) << (mant + ebits);
    std::set<B> mags; // magnitudes as bit patterns (sign cleared)
    auto add = [&](T v) {
        B b = to_bits(v) & ~signbit;
        mags.insert(b);
    };
    auto add3 = [&](T v) {
        B b = to_bits(v) & ~signbit;
        mags.insert(b);
        if (b > 0) { mags.insert(b - 1); }
        if (b < (B((1 << ebits) - 1) << mant)) { mags.insert(b + 1); }
    };
    add(T(0));
    mags.insert(B(1));                                  // denormal min
    mags.insert((B(1) << mant) - 1);                    // denormal max
    mags.insert(B(1) << (mant - 1));                    // a mid denormal
    add3(std::numeric_limits<T>::min());                // normal min
    add3(std::numeric_limits<T>::max());                // normal max (and inf as +1)
    add(std::numeric_limits<T>::infinity());
    add3(std::numeric_limits<T>::epsilon());
    add3(std::numeric_limits<T>::epsilon() / 2);
    for (int e = 1; e < (1 << ebits) - 1; e += (1 << (ebits - 6))) { add3(from_bits<T>(B(e) << mant)); }
    for (int n = 0; n <= 4; ++n) {
        add3(T(n));
        add3(T(n) + T(0.5));
        add(T(n) + T(0.25));
        add(T(n) + T(0.75));
    }
    for (int j : {mant - 2, mant - 1, mant, mant + 1, mant + 2, 15, 16, 30, 31, 32, 33, 62, 63, 64, 65}) {
        T const p = std::ldexp(T(1), j);
        add3(p);
        add(p + T(0.5)); // representable only below 2^(mant-?); harmless otherwise
        add(p + T(1));
        add(p - T(0.5));
        add(p * T(1.5));
    }
    for (int k = 1; k <= 8; ++k) { add3(T(1.5707963267948966192313216916397514L * k)); }
    for (T d : {T(1e-3), T(1e-2), T(0.1), T(0.3), T(10), T(100), T(1000), T(1e6), T(1e10), T(1e15), T(1e20), T(1e30)}) { add(d); }
    (void)bias;
    std::vector<T> out;
    for (B m : mags) {
        T const v = from_bits<T>(m);
        if (v != v) { continue; }
        out.push_back(v);
        out.push_back(from_bits<T>(m | signbit));
    }
    out.push_back(std::numeric_limits<T>::quiet_NaN());
    out.push_back(from_bits<T>(to_bits(std::numeric_limits<T>::quiet_NaN()) | signbit));
    return out;
}

/// a smaller boundary set (about 80 values) for ternary functions and approximating binary
/// functions
template <typename T>
std::vector<T> make_boundary_small()
{
    std::vector<T> mags = {T(0), std::numeric_limits<T>::denorm_min(), std::numeric_limits<T>::min(),
        std::ldexp(T(1), -100), std::ldexp(T(1), -60), std::numeric_limits<T>::epsilon() / 2, T(1e-3), T(0.1), T(0.25),
        T(0.5), T(0.75), T(0.99), T(1), T(1) + std::numeric_limits<T>::epsilon(), T(1.5), T(2), T(2.5), T(3),
        T(3.14159265358979323846L), T(4), T(5), T(7.5), T(10), T(16), T(31), T(100), T(127.5), T(1000), T(32768), T(1e6),
        std::ldexp(T(1), FT<T>::mant), std::ldexp(T(1), FT<T>::mant + 1) + T(2), std::ldexp(T(1), 31), T(1e15),
        std::ldexp(T(1), 63), T(1e30), std::numeric_limits<T>::max(), std::numeric_limits<T>::infinity()};
    std::vector<T> out;
    for (T m : mags) {
        out.push_back(m);
        out.push_back(-m);
    }
    out.push_back(std::numeric_limits<T>::quiet_NaN());
    return out;
}

/// mantissa patterns for the double grid G64: 0, 1, all-ones, and for every bit k the
/// patterns 2^k, 3*2^k, 2^k-1 and all-ones-with-the-low-k-bits-cleared (ties, odd/even
/// integer parts and the neighbours of every binade edge, for every exponent).
inline std::vector<u64> grid_mantissas(bool small)
{
    std::set<u64> s;
    u64 const all = (u64(1) << 52) - 1;
    s.insert(0);
    s.insert(1);
    s.insert(all);
    s.insert(all - 1);
    int const step = small ? 4 : 1;
    for (int k = 0; k < 52; k += step) {
        s.insert(u64(1) << k);
        if (k < 51) { s.insert(u64(3) << k); }
        s.insert((u64(1) << k) - 1);
        s.insert(all & ~((u64(1) << k) - 1));
    }
    s.insert(u64(1) << 51);
    s.insert(u64(3) << 50);
    return std::vector<u64>(s.begin(), s.end());
}

// ---------------------------------------------------------------------------------------
// approximating functions: verdict of one result against libm
// ---------------------------------------------------------------------------------------
//
// got      result of the tetl path in type T
// ref      libm's result in the same type T  (decides "NaN / +-inf exactly where C requires")
// ref_hi   libm's result in the next wider type (double for float, long double for double):
//          the value errors are measured against (the error against `ref` itself is used when
//          it is smaller)
// A result that is bit-identical to `ref` is accepted with error 0.
// Error unit: relative error divided by epsilon(T) ("eps"), with the denominator floored at
// the smallest normal number so that results in the subnormal range are judged absolutely.
// The sign of a zero result is NOT compared (the statement only fixes NaN and infinities).
enum class Verdict { ok, nan_mismatch, inf_mismatch, tolerance };

/// relative-error cap: 2^-10 (the library's own tests accept 0.001); a point that is off by
/// more than this is a violation whatever was measured.
template <typename T>
constexpr double cap_eps()
{
    return std::ldexp(1.0, -10) / double(std::numeric_limits<T>::epsilon());
}

template <typename T, typename H>
Verdict judge(T got, T ref, H ref_hi, double bound_eps, double& err_eps)
{
    err_eps          = 0;
    H const eps      = H(std::numeric_limits<T>::epsilon());
    H const tmax     = H(std::numeric_limits<T>::max());
    H const tmin     = H(std::numeric_limits<T>::min());
    H const tol      = H(bound_eps) * eps;
    auto const habs  = [](H v) { return v < 0 ? -v : v; };
    // distance to the wide reference or to libm's own same-type result, whichever is smaller
    // ("within the bound of libm": where libm itself is far from the true value - seen with
    // std::beta for large arguments - agreeing with libm is not a violation)
    auto const relerr = [&](H g) {
        H const den  = habs(ref_hi) > tmin ? habs(ref_hi) : tmin;
        H const e_hi = habs(g - ref_hi) / den / eps;
        if (ref != ref || std::isinf(ref)) { return double(e_hi); }
        H const den2 = habs(H(ref)) > tmin ? habs(H(ref)) : tmin;
        H const e_lo = habs(g - H(ref)) / den2 / eps;
        return double(e_lo < e_hi ? e_lo : e_hi);
    };
    // bit-identical to libm's result in the same type: within any tolerance "of libm" by
    // definition (libm itself can be more than 1 eps away from the wide reference)
    if (canon(got) == canon(ref)) { return Verdict::ok; }
    // a wide reference that disagrees with libm's same-type result about NaN/infinity (seen:
    // powl(-inf, -2^63) = inf where pow() = +0) cannot serve as the value to measure against
    if (!(ref != ref) && !std::isinf(ref) && (ref_hi != ref_hi || std::isinf(ref_hi))) { ref_hi = H(ref); }
    if (ref != ref) { return (got != got) ? Verdict::ok : Verdict::nan_mismatch; }
    if (got != got) { return Verdict::nan_mismatch; }
    if (std::isinf(ref)) {
        if (std::isinf(got)) { return ((got > 0) == (ref > 0)) ? Verdict::ok : Verdict::inf_mismatch; }
        // finite where libm overflows: acceptable only at the overflow threshold
        if (!(ref_hi != ref_hi) && !std::isinf(ref_hi) && habs(ref_hi) <= tmax * (H(1) + tol)) {
            err_eps = relerr(H(got));
            return err_eps <= bound_eps ? Verdict::ok : Verdict::tolerance;
        }
        return Verdict::inf_mismatch;
    }
    if (std::isinf(got)) {
        if (habs(ref_hi) >= tmax * (H(1) - tol) && ((got > 0) == (ref_hi > 0))) { return Verdict::ok; }
        return Verdict::inf_mismatch;
    }
    err_eps = relerr(H(got));
    return err_eps <= bound_eps ? Verdict::ok : Verdict::tolerance;
}

inline char const* verdict_name(Verdict v)
{
    switch (v) {
    case Verdict::ok: return "ok";
    case Verdict::nan_mismatch: return "NaN where libm has none (or the reverse)";
    case Verdict::inf_mismatch: return "infinity where libm has none (or the reverse, or the wrong sign)";
    case Verdict::tolerance: return "relative error above the bound";
    }
    return "?";
}

inline bool measuring() { return std::getenv("C16_MEASURE") != nullptr; }

/// low-bit patterns of the A(q) float lattice
inline std::vector<u32> low_patterns(int lowbits)
{
    u32 const all = (u32(1) << lowbits) - 1;
    return {0u, 1u, all >> 1, (all >> 1) + 1, all};
}

} // namespace c16
