// C06, part "copy": algorithms that write through an output iterator or overwrite a range.
//   copy copy_if copy_n copy_backward move move_backward transform(1,2) remove_copy remove_copy_if
//   partition_copy unique_copy reverse_copy rotate_copy fill fill_n generate generate_n replace
//   replace_if swap_ranges iter_swap, overlapping copy/move to the left, copy_backward/move_backward
//   to the right, and etl::back_inserter as destination; copy/move/copy_backward/move_backward between every
//   pair of positions of one buffer that the standard allows; unary and binary transform in place
//   (d_first == first / first1 / first2, first1 == first2) on every sub-range of the buffer.
// Destinations are exact-size blocks pre-filled with a filler element: one write too many is an
// out-of-range write, one too few leaves a filler in the compared content.
#include "c06_common.hpp"

using namespace c06;

namespace {

struct AddOne {
    E operator()(E const& e) const
    {
        arg(e);
        return E{e.key + 1, e.tag};
    }
};
struct Comb {
    E operator()(E const& a, E const& b) const
    {
        arg(a);
        arg(b);
        return E{a.key * 3 + b.key, a.tag};
    }
};
struct Gen {
    int* ctr;
    E operator()() const
    {
        int const i = (*ctr)++;
        return E{i % 3, third_tag0 + i};
    }
};

template <typename P>
std::size_t count_plain(Seq const& a)
{
    return static_cast<std::size_t>(std::count_if(a.begin(), a.end(), [](E const& e) { return P::plain(e); }));
}

// ------------------------------------------------------------------------------------------
// source range a (flavour F) -> destination (flavour G)
// ------------------------------------------------------------------------------------------
template <typename F, typename G>
void copy_family(Ctx& c, Seq const& a)
{
    auto const n  = a.size();
    bool const nt = n >= 2;
    std::string const fl = cat(F::name, "->", G::name);
    auto cls   = [&] { return len_class(n); };
    auto kase0 = [&] { return cat(fl, " a=", keys(a)); };

    if (c.want("copy(first,last,d_first)")) {
        c.run("copy(first,last,d_first)", nt, [&](auto lib, Obs& o) {
            Buf<E> A(mem<F>(a));
            Dst<G> D(n);
            auto it = C06_ALG(copy)(lib, F::at(lib, A, 0), F::at(lib, A, n), D.begin(lib));
            o.num(D.off(it));
            D.observe(o);
            o.buf(A);
        }, cls, kase0);
    }
    if (c.want("move(first,last,d_first)")) {
        c.run("move(first,last,d_first)", nt, [&](auto lib, Obs& o) {
            Buf<E> A(mem<F>(a));
            Dst<G> D(n);
            auto it = C06_ALG(move)(lib, F::at(lib, A, 0), F::at(lib, A, n), D.begin(lib));
            o.num(D.off(it));
            D.observe(o); // the moved-from source is unspecified: not compared
        }, cls, kase0);
    }
    if (c.want("transform(first,last,d_first,op)")) {
        c.run("transform(first,last,d_first,op)", nt, [&](auto lib, Obs& o) {
            Buf<E> A(mem<F>(a));
            Dst<G> D(n);
            auto it = C06_ALG(transform)(lib, F::at(lib, A, 0), F::at(lib, A, n), D.begin(lib), AddOne{});
            o.num(D.off(it));
            D.observe(o);
            o.buf(A);
        }, cls, kase0);
    }
    if (c.want("copy_n(first,count,result)")) {
        for (int cnt = -1; cnt <= static_cast<int>(n); ++cnt) {
            auto const k = static_cast<std::size_t>(cnt > 0 ? cnt : 0);
            c.run("copy_n(first,count,result)", nt, [&](auto lib, Obs& o) {
                Buf<E> A(mem<F>(a));
                Dst<G> D(k);
                auto it = C06_ALG(copy_n)(lib, F::at(lib, A, 0), cnt, D.begin(lib));
                o.num(D.off(it));
                D.observe(o);
                o.buf(A);
            }, [&] { return cat(len_class(n), cnt < 0 ? "+count_negative" : cnt == 0 ? "+count_zero" : "+count_positive"); },
                [&] { return cat(fl, " a=", keys(a), " count=", cnt); });
        }
    }
    for (int k = 0; k <= 3; ++k) {
        E const value{k, value_tag};
        auto const keep = n - static_cast<std::size_t>(std::count_if(a.begin(), a.end(), [&](E const& e) { return e.key == k; }));
        if (c.want("remove_copy(first,last,d_first,value)")) {
            c.run("remove_copy(first,last,d_first,value)", nt, [&](auto lib, Obs& o) {
                Buf<E> A(mem<F>(a));
                Dst<G> D(keep);
                allow(value);
                auto it = C06_ALG(remove_copy)(lib, F::at(lib, A, 0), F::at(lib, A, n), D.begin(lib), value);
                o.num(D.off(it));
                D.observe(o);
                o.buf(A);
            }, [&] { return cat(len_class(n), keep == n ? "+nothing_removed" : keep == 0 ? "+all_removed" : "+some_removed"); },
                [&] { return cat(fl, " a=", keys(a), " value=", k); });
        }
    }
    for_types(UnPreds{}, [&](auto pred) {
        using P          = decltype(pred);
        auto const yes   = count_plain<P>(a);
        auto kase        = [&] { return cat(fl, " a=", keys(a), " pred=", P::name); };
        if (c.want("copy_if(first,last,d_first,pred)")) {
            c.run("copy_if(first,last,d_first,pred)", nt, [&](auto lib, Obs& o) {
                Buf<E> A(mem<F>(a));
                Dst<G> D(yes);
                auto it = C06_ALG(copy_if)(lib, F::at(lib, A, 0), F::at(lib, A, n), D.begin(lib), P{});
                o.num(D.off(it));
                D.observe(o);
                o.buf(A);
            }, cls, kase);
        }
        if (c.want("remove_copy_if(first,last,d_first,pred)")) {
            c.run("remove_copy_if(first,last,d_first,pred)", nt, [&](auto lib, Obs& o) {
                Buf<E> A(mem<F>(a));
                Dst<G> D(n - yes);
                auto it = C06_ALG(remove_copy_if)(lib, F::at(lib, A, 0), F::at(lib, A, n), D.begin(lib), P{});
                o.num(D.off(it));
                D.observe(o);
                o.buf(A);
            }, [&] { return cat(len_class(n), yes == 0 ? "+nothing_removed" : yes == n ? "+all_removed" : "+some_removed"); }, kase);
        }
        if (c.want("partition_copy(first,last,d_true,d_false,pred)")) {
            c.run("partition_copy(first,last,d_true,d_false,pred)", nt, [&](auto lib, Obs& o) {
                Buf<E> A(mem<F>(a));
                Dst<G> T(yes);
                Dst<G> Fa(n - yes);
                auto pr = C06_ALG(partition_copy)(lib, F::at(lib, A, 0), F::at(lib, A, n), T.begin(lib), Fa.begin(lib), P{});
                o.num(T.off(pr.first));
                o.num(Fa.off(pr.second));
                T.observe(o);
                Fa.observe(o);
                o.buf(A);
            }, cls, kase);
        }
    });
    // unique_copy: tetl compares against *destination, so the destination must be readable (API gap for
    // output-only destinations and back_inserter)
    if constexpr (G::rank >= 1) {
        auto groups = [&](auto eq) {
            std::size_t k = 0;
            for (std::size_t i = 0; i < n; ++i) {
                if (i == 0 || !eq(a[i - 1], a[i])) { ++k; }
            }
            return k;
        };
        // (for an equivalence relation comparing with the previous element or with the group's first element is the same)
        if (c.want("unique_copy(first,last,d_first)")) {
            auto const k = groups([](E const& x, E const& y) { return x.key == y.key; });
            c.run("unique_copy(first,last,d_first)", nt, [&](auto lib, Obs& o) {
                Buf<E> A(mem<F>(a));
                Dst<G> D(k);
                auto it = C06_ALG(unique_copy)(lib, F::at(lib, A, 0), F::at(lib, A, n), D.begin(lib));
                o.num(D.off(it));
                D.observe(o);
                o.buf(A);
            }, cls, kase0);
        }
        if (c.want("unique_copy(first,last,d_first,pred)")) {
            auto const k2 = groups([](E const& x, E const& y) { return (x.key & 1) == (y.key & 1); });
            c.run("unique_copy(first,last,d_first,pred)", nt, [&](auto lib, Obs& o) {
                Buf<E> A(mem<F>(a));
                Dst<G> D(k2);
                auto it = C06_ALG(unique_copy)(lib, F::at(lib, A, 0), F::at(lib, A, n), D.begin(lib), EqMod2{});
                o.num(D.off(it));
                D.observe(o);
                o.buf(A);
            }, cls, [&] { return cat(fl, " a=", keys(a), " pred=eqmod2"); });
            auto const k3 = n == 0 ? std::size_t(0) : std::size_t(1);
            c.run("unique_copy(first,last,d_first,pred)", nt, [&](auto lib, Obs& o) {
                Buf<E> A(mem<F>(a));
                Dst<G> D(k3);
                auto it = C06_ALG(unique_copy)(lib, F::at(lib, A, 0), F::at(lib, A, n), D.begin(lib), True2{});
                o.num(D.off(it));
                D.observe(o);
                o.buf(A);
            }, cls, [&] { return cat(fl, " a=", keys(a), " pred=true"); });
        }
    }
    if constexpr (F::rank >= 2) {
        if (c.want("reverse_copy(first,last,d_first)")) {
            c.run("reverse_copy(first,last,d_first)", nt, [&](auto lib, Obs& o) {
                Buf<E> A(mem<F>(a));
                Dst<G> D(n);
                auto it = C06_ALG(reverse_copy)(lib, F::at(lib, A, 0), F::at(lib, A, n), D.begin(lib));
                o.num(D.off(it));
                D.observe(o);
                o.buf(A);
            }, cls, kase0);
        }
    }
    if constexpr (F::rank >= 1) {
        if (c.want("rotate_copy(first,n_first,last,d_first)")) {
            for (std::size_t mid = 0; mid <= n; ++mid) {
                c.run("rotate_copy(first,n_first,last,d_first)", nt, [&](auto lib, Obs& o) {
                    Buf<E> A(mem<F>(a));
                    Dst<G> D(n);
                    auto it = C06_ALG(rotate_copy)(lib, F::at(lib, A, 0), F::at(lib, A, mid), F::at(lib, A, n), D.begin(lib));
                    o.num(D.off(it));
                    D.observe(o);
                    o.buf(A);
                }, [&] { return cat(len_class(n), mid == 0 ? "+mid_first" : mid == n ? "+mid_last" : ""); },
                    [&] { return cat(fl, " a=", keys(a), " n_first=", mid); });
            }
        }
    }
    if constexpr (F::rank >= 2 && G::rank >= 2) {
        if (c.want("copy_backward(first,last,d_last)")) {
            c.run("copy_backward(first,last,d_last)", nt, [&](auto lib, Obs& o) {
                Buf<E> A(mem<F>(a));
                Dst<G> D(n);
                auto it = C06_ALG(copy_backward)(lib, F::at(lib, A, 0), F::at(lib, A, n), D.end(lib));
                o.num(D.off(it));
                D.observe(o);
                o.buf(A);
            }, cls, kase0);
        }
        if (c.want("move_backward(first,last,d_last)")) {
            c.run("move_backward(first,last,d_last)", nt, [&](auto lib, Obs& o) {
                Buf<E> A(mem<F>(a));
                Dst<G> D(n);
                auto it = C06_ALG(move_backward)(lib, F::at(lib, A, 0), F::at(lib, A, n), D.end(lib));
                o.num(D.off(it));
                D.observe(o);
            }, cls, kase0);
        }
    }
}

// ------------------------------------------------------------------------------------------
// in-place overwriting and overlapping copies (flavour F over one buffer)
// ------------------------------------------------------------------------------------------
template <typename F>
void overwrite_family(Ctx& c, Seq const& a)
{
    auto const n  = a.size();
    bool const nt = n >= 2;
    std::string const fl = F::name;
    auto cls   = [&] { return len_class(n); };

    for (int k = 0; k <= 2; ++k) {
        E const value{k, value_tag};
        if (c.want("fill(first,last,value)") && k == 1) {
            c.run("fill(first,last,value)", nt, [&](auto lib, Obs& o) {
                Buf<E> A(mem<F>(a));
                C06_ALG(fill)(lib, F::at(lib, A, 0), F::at(lib, A, n), value);
                o.buf(A);
            }, cls, [&] { return cat(fl, " a=", keys(a), " value=", k); });
        }
        for (int nk = 0; nk <= 3; ++nk) {
            E const nv{nk, third_tag0};
            if (c.want("replace(first,last,old,new)")) {
                c.run("replace(first,last,old,new)", nt, [&](auto lib, Obs& o) {
                    Buf<E> A(mem<F>(a));
                    allow(value);
                    allow(nv); // the new value may legitimately be compared once it sits in the range
                    C06_ALG(replace)(lib, F::at(lib, A, 0), F::at(lib, A, n), value, nv);
                    o.buf(A);
                }, cls, [&] { return cat(fl, " a=", keys(a), " old=", k, " new=", nk); });
            }
        }
    }
    for_types(UnPreds{}, [&](auto pred) {
        using P = decltype(pred);
        E const nv{1, third_tag0};
        if (c.want("replace_if(first,last,pred,new)")) {
            c.run("replace_if(first,last,pred,new)", nt, [&](auto lib, Obs& o) {
                Buf<E> A(mem<F>(a));
                allow(nv);
                C06_ALG(replace_if)(lib, F::at(lib, A, 0), F::at(lib, A, n), P{}, nv);
                o.buf(A);
            }, cls, [&] { return cat(fl, " a=", keys(a), " pred=", P::name, " new=1"); });
        }
    });
    if (c.want("generate(first,last,g)")) {
        c.run("generate(first,last,g)", nt, [&](auto lib, Obs& o) {
            Buf<E> A(mem<F>(a));
            int ctr = 0;
            C06_ALG(generate)(lib, F::at(lib, A, 0), F::at(lib, A, n), Gen{&ctr});
            o.num(ctr);
            o.buf(A);
        }, cls, [&] { return cat(fl, " a=", keys(a)); });
    }
    if (c.want("iter_swap(a,b)")) {
        for (std::size_t i = 0; i < n; ++i) {
            for (std::size_t j = 0; j < n; ++j) {
                c.run("iter_swap(a,b)", nt, [&](auto lib, Obs& o) {
                    Buf<E> A(mem<F>(a));
                    C06_ALG(iter_swap)(lib, F::at(lib, A, i), F::at(lib, A, j));
                    o.buf(A);
                }, [&] { return std::string(i == j ? "self" : "general"); }, [&] { return cat(fl, " a=", keys(a), " i=", i, " j=", j); });
            }
        }
    }
    // overlapping: copy/move to the left (d_first outside [first,last)), *_backward to the right
    for (std::size_t k = 1; k <= n; ++k) {
        auto ocls = [&] { return cat(len_class(n), k == n ? "+disjoint_empty" : "+overlap"); };
        auto kase = [&] { return cat(fl, " a=", keys(a), " shift=", k); };
        if (c.want("copy(first,last,d_first) overlapping left")) {
            c.run("copy(first,last,d_first) overlapping left", nt, [&](auto lib, Obs& o) {
                Buf<E> A(mem<F>(a));
                auto it = C06_ALG(copy)(lib, F::at(lib, A, k), F::at(lib, A, n), F::at(lib, A, 0));
                o.num(F::off(A, it));
                o.buf(A);
            }, ocls, kase);
        }
        if (c.want("move(first,last,d_first) overlapping left")) {
            c.run("move(first,last,d_first) overlapping left", nt, [&](auto lib, Obs& o) {
                Buf<E> A(mem<F>(a));
                auto it = C06_ALG(move)(lib, F::at(lib, A, k), F::at(lib, A, n), F::at(lib, A, 0));
                o.num(F::off(A, it));
                o.buf(A, 0, n - k);
            }, ocls, kase);
        }
        if constexpr (F::rank >= 2) {
            if (c.want("copy_backward(first,last,d_last) overlapping right")) {
                c.run("copy_backward(first,last,d_last) overlapping right", nt, [&](auto lib, Obs& o) {
                    Buf<E> A(mem<F>(a));
                    auto it = C06_ALG(copy_backward)(lib, F::at(lib, A, 0), F::at(lib, A, n - k), F::at(lib, A, n));
                    o.num(F::off(A, it));
                    o.buf(A);
                }, ocls, kase);
            }
            if (c.want("move_backward(first,last,d_last) overlapping right")) {
                c.run("move_backward(first,last,d_last) overlapping right", nt, [&](auto lib, Obs& o) {
                    Buf<E> A(mem<F>(a));
                    auto it = C06_ALG(move_backward)(lib, F::at(lib, A, 0), F::at(lib, A, n - k), F::at(lib, A, n));
                    o.num(F::off(A, it));
                    o.buf(A, k, n);
                }, ocls, kase);
            }
        }
    }
    // within one buffer, every source [i,j) and every destination position the standard allows:
    //   copy/move:          d_first not in [first,last)   (to the left overlapping, or anywhere disjoint)
    //   copy/move_backward: d_last  not in (first,last]   (to the right overlapping, or anywhere disjoint)
    for (std::size_t i = 0; i <= n; ++i) {
        for (std::size_t j = i; j <= n; ++j) {
            auto const len = j - i;
            for (std::size_t d = 0; d + len <= n; ++d) {
                auto const dl      = d + len;
                bool const overlap = d < j && i < dl;
                auto ocls  = [&] { return cat(len_class(len), overlap ? "+overlap" : "+disjoint"); };
                auto kase  = [&] { return cat(fl, " a=", keys(a), " first=", i, " last=", j, " d_first=", d); };
                auto bkase = [&] { return cat(fl, " a=", keys(a), " first=", i, " last=", j, " d_last=", dl); };
                // moved-from positions that are not overwritten afterwards are unspecified
                auto observe_moved = [&](Obs& o, Buf<E>& A) {
                    o.sep();
                    for (std::size_t p = 0; p < n; ++p) {
                        if (p >= i && p < j && !(p >= d && p < dl)) { continue; }
                        o.elem(at_view<F>(A, p));
                    }
                };
                if (d < i || d >= j || len == 0) {
                    if (c.want("copy(first,last,d_first) within one buffer")) {
                        c.run("copy(first,last,d_first) within one buffer", nt, [&](auto lib, Obs& o) {
                            Buf<E> A(mem<F>(a));
                            auto it = C06_ALG(copy)(lib, F::at(lib, A, i), F::at(lib, A, j), F::at(lib, A, d));
                            o.num(F::off(A, it));
                            o.buf(A);
                        }, ocls, kase);
                    }
                    if (c.want("move(first,last,d_first) within one buffer")) {
                        c.run("move(first,last,d_first) within one buffer", nt, [&](auto lib, Obs& o) {
                            Buf<E> A(mem<F>(a));
                            auto it = C06_ALG(move)(lib, F::at(lib, A, i), F::at(lib, A, j), F::at(lib, A, d));
                            o.num(F::off(A, it));
                            observe_moved(o, A);
                        }, ocls, kase);
                    }
                }
                if constexpr (F::rank >= 2) {
                    if (dl <= i || dl > j || len == 0) {
                        if (c.want("copy_backward(first,last,d_last) within one buffer")) {
                            c.run("copy_backward(first,last,d_last) within one buffer", nt, [&](auto lib, Obs& o) {
                                Buf<E> A(mem<F>(a));
                                auto it = C06_ALG(copy_backward)(lib, F::at(lib, A, i), F::at(lib, A, j), F::at(lib, A, dl));
                                o.num(F::off(A, it));
                                o.buf(A);
                            }, ocls, bkase);
                        }
                        if (c.want("move_backward(first,last,d_last) within one buffer")) {
                            c.run("move_backward(first,last,d_last) within one buffer", nt, [&](auto lib, Obs& o) {
                                Buf<E> A(mem<F>(a));
                                auto it = C06_ALG(move_backward)(lib, F::at(lib, A, i), F::at(lib, A, j), F::at(lib, A, dl));
                                o.num(F::off(A, it));
                                observe_moved(o, A);
                            }, ocls, bkase);
                        }
                    }
                }
            }
            // transform in place ("result may be equal to first" / "to first1 or first2"), on every sub-range [i,j)
            auto tcls  = [&] { return len_class(len); };
            auto tkase = [&] { return cat(fl, " a=", keys(a), " first=", i, " last=", j); };
            if (c.want("transform(first,last,d_first,op) in place")) {
                c.run("transform(first,last,d_first,op) in place", nt, [&](auto lib, Obs& o) {
                    Buf<E> A(mem<F>(a));
                    auto it = C06_ALG(transform)(lib, F::at(lib, A, i), F::at(lib, A, j), F::at(lib, A, i), AddOne{});
                    o.num(F::off(A, it));
                    o.buf(A);
                }, tcls, tkase);
            }
            if (c.want("transform(first1,last1,first2,d_first,op) in place")) {
                // b: a second sequence of the same length as the whole buffer (keys rotated, tags of the second range)
                Seq b;
                for (std::size_t p = 0; p < n; ++p) { b.push_back(E{(a[p].key + 1 + static_cast<int>(p)) % 3, second_tag0 + static_cast<int>(p)}); }
                for (int where = 0; where < 4; ++where) {
                    // 0: d_first == first1   1: d_first == first2   2: first1 == first2 == d_first   3: first1 == first2, separate destination
                    c.run("transform(first1,last1,first2,d_first,op) in place", nt, [&](auto lib, Obs& o) {
                        Buf<E> A(mem<F>(a));
                        Buf<E> B(mem<F>(b));
                        Buf<E> D(len, filler);
                        auto f1 = F::at(lib, A, i);
                        auto l1 = F::at(lib, A, j);
                        if (where == 0) {
                            auto it = C06_ALG(transform)(lib, f1, l1, F::at(lib, B, i), F::at(lib, A, i), Comb{});
                            o.num(F::off(A, it));
                        } else if (where == 1) {
                            auto it = C06_ALG(transform)(lib, f1, l1, F::at(lib, B, i), F::at(lib, B, i), Comb{});
                            o.num(F::off(B, it));
                        } else if (where == 2) {
                            auto it = C06_ALG(transform)(lib, f1, l1, F::at(lib, A, i), F::at(lib, A, i), Comb{});
                            o.num(F::off(A, it));
                        } else {
                            auto it = C06_ALG(transform)(lib, f1, l1, F::at(lib, A, i), F::at(lib, D, 0), Comb{});
                            o.num(F::off(D, it));
                        }
                        o.buf(A);
                        o.buf(B);
                        o.buf(D);
                    }, [&] { return cat(len_class(len), where == 0 ? "+d_eq_first1" : where == 1 ? "+d_eq_first2" : where == 2 ? "+all_same" : "+first1_eq_first2"); },
                        [&] { return cat(fl, " a=", keys(a), " b=", keys(b), " first=", i, " last=", j, " form=", where); });
                }
            }
        }
    }
}

// destination-only algorithms: fill_n / generate_n for every count in [-1, len]
template <typename G>
void count_family(Ctx& c, int maxLen)
{
    std::string const fl = G::name;
    for (int cnt = -1; cnt <= maxLen; ++cnt) {
        auto const k = static_cast<std::size_t>(cnt > 0 ? cnt : 0);
        auto ccls    = [&] { return std::string(cnt < 0 ? "count_negative" : cnt == 0 ? "count_zero" : "count_positive"); };
        for (int key = 0; key <= 2; ++key) {
            E const value{key, value_tag};
            if (c.want("fill_n(first,count,value)")) {
                c.run("fill_n(first,count,value)", cnt >= 2, [&](auto lib, Obs& o) {
                    Dst<G> D(k);
                    auto it = C06_ALG(fill_n)(lib, D.begin(lib), cnt, value);
                    o.num(D.off(it));
                    D.observe(o);
                }, ccls, [&] { return cat(fl, " count=", cnt, " value=", key); });
            }
        }
        if (c.want("generate_n(first,count,g)")) {
            c.run("generate_n(first,count,g)", cnt >= 2, [&](auto lib, Obs& o) {
                Dst<G> D(k);
                int ctr = 0;
                auto it = C06_ALG(generate_n)(lib, D.begin(lib), cnt, Gen{&ctr});
                o.num(D.off(it));
                o.num(ctr);
                D.observe(o);
            }, ccls, [&] { return cat(fl, " count=", cnt); });
        }
    }
}

// ------------------------------------------------------------------------------------------
// two sources
// ------------------------------------------------------------------------------------------
template <typename F1, typename F2, typename G>
void two_source_family(Ctx& c, Seq const& a, Seq const& b)
{
    auto const n = a.size();
    auto const m = b.size();
    if (m < n) { return; } // both algorithms read/write [first2, first2 + n)
    bool const nt = n >= 2;
    std::string const fl = cat(F1::name, "+", F2::name, "->", G::name);
    auto cls  = [&] { return cat(len_class(n), m > n ? "+second_longer" : ""); };
    auto kase = [&] { return cat(fl, " a=", keys(a), " b=", keys(b)); };
    if (c.want("transform(first1,last1,first2,d_first,op)")) {
        c.run("transform(first1,last1,first2,d_first,op)", nt, [&](auto lib, Obs& o) {
            Buf<E> A(mem<F1>(a));
            Buf<E> B(mem<F2>(b));
            Dst<G> D(n);
            auto it = C06_ALG(transform)(lib, F1::at(lib, A, 0), F1::at(lib, A, n), F2::at(lib, B, 0), D.begin(lib), Comb{});
            o.num(D.off(it));
            D.observe(o);
            o.buf(A);
            o.buf(B);
        }, cls, kase);
    }
    if constexpr (F1::rank >= 1 && F2::rank >= 1) {
        if (c.want("swap_ranges(first1,last1,first2)")) {
            c.run("swap_ranges(first1,last1,first2)", nt, [&](auto lib, Obs& o) {
                Buf<E> A(mem<F1>(a));
                Buf<E> B(mem<F2>(b));
                auto it = C06_ALG(swap_ranges)(lib, F1::at(lib, A, 0), F1::at(lib, A, n), F2::at(lib, B, 0));
                o.num(F2::off(B, it));
                o.buf(A);
                o.buf(B);
            }, cls, kase);
        }
    }
}

template <typename F, typename G>
void job_copy(mc::Reporter& r, int qL, int tL)
{
    Ctx c(r);
    auto const bd   = bounds(r, qL, 0, tL, 0);
    auto const pool = make_pool(bd.L, 3, 0);
    r.count("sequences", pool.size());
    for (auto const& a : pool) {
        if (c.out_of_time()) { break; }
        copy_family<F, G>(c, a);
    }
    r.sample(cat(F::name, "->", G::name, ": every sequence of length 0..", bd.L,
        " over keys {0,1,2}: copying algorithms, every count in [-1,len], every n_first, every value 0..3 / predicate"));
    r.sample(cat(F::name, "->", G::name, " a=", keys(pool.back()), " (last sequence)"));
}

template <typename F>
void job_overwrite(mc::Reporter& r, int qL, int tL)
{
    Ctx c(r);
    auto const bd   = bounds(r, qL, 0, tL, 0);
    auto const pool = make_pool(bd.L, 3, 0);
    r.count("sequences", pool.size());
    for (auto const& a : pool) {
        if (c.out_of_time()) { break; }
        overwrite_family<F>(c, a);
    }
    r.sample(cat(F::name, ": every sequence of length 0..", bd.L, ": fill/replace/replace_if/generate/iter_swap, overlapping copy/move with every shift; "
        "copy/move/copy_backward/move_backward within the buffer for every (first,last,destination) the standard allows; unary/binary transform in place on every sub-range"));
}

template <typename F1, typename F2, typename G>
void job_two_source(mc::Reporter& r, int qL, int tL)
{
    Ctx c(r);
    auto const bd    = bounds(r, qL, qL, tL, tL);
    auto const pool  = make_pool(bd.L, 3, 0);
    auto const pool2 = make_pool(bd.M, 3, second_tag0);
    r.count("sequences", pool.size() * pool2.size());
    for (auto const& a : pool) {
        if (c.out_of_time()) { break; }
        for (auto const& b : pool2) { two_source_family<F1, F2, G>(c, a, b); }
    }
    r.sample(cat(F1::name, "+", F2::name, "->", G::name, ": every pair (a,b), len(a) <= len(b) <= ", bd.M, ": binary transform, swap_ranges"));
}

} // namespace

int main(int argc, char** argv)
{
    mc::Main m(argc, argv);
    std::vector<std::string> const both{"quick", "thorough"};
#if defined(MC_FLAVOUR_SAN)
    // sanitizer build: only the raw-pointer jobs (the wrappers check their own ranges; keeps the compile small)
    m.job("copy/ptr->ptr", both, [](mc::Reporter& r) { job_copy<PtrF, PtrF>(r, 5, 8); });
    m.job("overwrite/ptr", both, [](mc::Reporter& r) { job_overwrite<PtrF>(r, 5, 8); });
    m.job("count/ptr", both, [](mc::Reporter& r) {
        Ctx c(r);
        count_family<PtrF>(c, 8);
        r.sample("ptr: fill_n/generate_n for every count in [-1,8]");
    });
    m.job("two-source/ptr+ptr->ptr", both, [](mc::Reporter& r) { job_two_source<PtrF, PtrF, PtrF>(r, 4, 6); });
#else
#if !defined(MC_PART) || MC_PART == 1
    m.job("copy/ptr->ptr", both, [](mc::Reporter& r) { job_copy<PtrF, PtrF>(r, 5, 8); });
    m.job("copy/input->output", both, [](mc::Reporter& r) { job_copy<InF, OutF>(r, 5, 8); });
    m.job("sub/copy/ptr->ptr", both, sub([](mc::Reporter& r) { job_copy<PtrF, PtrF>(r, 5, 8); }));
    m.job("sub/copy/input->output", both, sub([](mc::Reporter& r) { job_copy<InF, OutF>(r, 5, 8); }));
#endif
#if !defined(MC_PART) || MC_PART == 2
    m.job("copy/fwd->fwd", both, [](mc::Reporter& r) { job_copy<FwdF, FwdF>(r, 5, 8); });
    m.job("copy/bidi->bidi", both, [](mc::Reporter& r) { job_copy<BidiF, BidiF>(r, 5, 8); });
    m.job("sub/copy/fwd->fwd", both, sub([](mc::Reporter& r) { job_copy<FwdF, FwdF>(r, 5, 8); }));
    m.job("sub/copy/bidi->bidi", both, sub([](mc::Reporter& r) { job_copy<BidiF, BidiF>(r, 5, 8); }));
#endif
#if !defined(MC_PART) || MC_PART == 3
    m.job("copy/ra->back_inserter", both, [](mc::Reporter& r) { job_copy<RaF, BackInsF>(r, 5, 8); });
    m.job("copy/rev->ra", both, [](mc::Reporter& r) { job_copy<RevF, RaF>(r, 5, 7); });
    m.job("sub/copy/rev->ra", both, sub([](mc::Reporter& r) { job_copy<RevF, RaF>(r, 5, 7); }));
#endif
#if !defined(MC_PART) || MC_PART == 4
    m.job("overwrite/ptr", both, [](mc::Reporter& r) { job_overwrite<PtrF>(r, 5, 8); });
    m.job("overwrite/fwd", both, [](mc::Reporter& r) { job_overwrite<FwdF>(r, 5, 8); });
    m.job("overwrite/bidi", both, [](mc::Reporter& r) { job_overwrite<BidiF>(r, 5, 8); });
    m.job("overwrite/ra", both, [](mc::Reporter& r) { job_overwrite<RaF>(r, 5, 7); });
    m.job("count/ptr", both, [](mc::Reporter& r) {
        Ctx c(r);
        count_family<PtrF>(c, 8);
        r.sample("ptr: fill_n/generate_n for every count in [-1,8]");
    });
    m.job("count/output", both, [](mc::Reporter& r) {
        Ctx c(r);
        count_family<OutF>(c, 8);
        count_family<FwdF>(c, 8);
        count_family<BackInsF>(c, 8);
        r.sample("output/fwd/back_inserter: fill_n/generate_n for every count in [-1,8]");
    });
    m.job("two-source/ptr+ptr->ptr", both, [](mc::Reporter& r) { job_two_source<PtrF, PtrF, PtrF>(r, 4, 6); });
    m.job("two-source/input+input->output", both, [](mc::Reporter& r) { job_two_source<InF, InF, OutF>(r, 4, 6); });
    m.job("two-source/fwd+fwd->fwd", both, [](mc::Reporter& r) { job_two_source<FwdF, FwdF, FwdF>(r, 4, 6); });
    m.job("sub/overwrite/ptr", both, sub([](mc::Reporter& r) { job_overwrite<PtrF>(r, 5, 8); }));
    m.job("sub/overwrite/fwd", both, sub([](mc::Reporter& r) { job_overwrite<FwdF>(r, 5, 8); }));
    m.job("sub/overwrite/bidi", both, sub([](mc::Reporter& r) { job_overwrite<BidiF>(r, 5, 8); }));
    m.job("sub/count", both, sub([](mc::Reporter& r) {
        Ctx c(r);
        count_family<PtrF>(c, 8);
        count_family<OutF>(c, 8);
        count_family<FwdF>(c, 8);
        r.sample("ptr/output/fwd: fill_n/generate_n for every count in [-1,8]");
    }));
    m.job("sub/two-source/ptr+ptr->ptr", both, sub([](mc::Reporter& r) { job_two_source<PtrF, PtrF, PtrF>(r, 4, 6); }));
    m.job("sub/two-source/input+input->output", both, sub([](mc::Reporter& r) { job_two_source<InF, InF, OutF>(r, 4, 6); }));
#endif
#endif
    return m.run();
}
