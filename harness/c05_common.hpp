// C05 fault enumeration (engine E3): shared machinery of harness/c05_*.cpp.
//
// A *catalogue* is a deterministic list of cases.  A case is one call of one tetl operation on
// one small object state with one argument:
//
//   bad(...)  the argument violates the operation's precondition: the contract handler must run
//             (mc::Trap::assert_fired) with a tetl header name and a line > 0, before any
//             ASan/UBSan report (flavour chksan), with the canaries around every object/buffer of
//             the case intact and - for violations visible up front - with every watched object
//             byte-for-byte unchanged at the moment the handler runs.
//   ok(...)   the nearest valid argument of the same call template (negative control): no trap,
//             no sanitizer report.  It proves that the call template itself is legal, so that the
//             handler call of the bad twin is caused by the argument and nothing else, and it
//             catches checks that are too strict.
//
// Execution: the catalogue is built in the job process; cases run in a forked *worker* that
// walks the list in order and streams one fixed-size record per case through a pipe.  A case
// whose outcome is not the clean expected one (missing check -> the call returned or crashed,
// sanitizer report, canary damage, hang) may have corrupted the process, so the worker exits
// right after reporting it and the job forks a fresh worker for the next case.  Clean cases
// (the handler longjmp-ed out of an unchanged object) leave the process intact and cost no
// fork.  A worker that dies without a record is charged to the case it was executing.
#pragma once

#include "mc.hpp"

#include <memory>
#include <new>
#include <type_traits>

#include <sys/wait.h>

namespace c05 {

using mc::cat;

inline constexpr std::size_t SZMAX = static_cast<std::size_t>(-1);

// --------------------------------------------------------------------------------------
// argument classes
// --------------------------------------------------------------------------------------

/// Out-of-range values of an unsigned argument whose largest valid value is bound-1 (index) or
/// bound (count/position: pass bound+1 as `first_bad`).  Class names are relative to the first
/// invalid value `first_bad`:
///   past_bound  first_bad, first_bad+1 (thorough: +2, +7)
///   huge        >= 2^31, top bit of size_t clear      max   top bit set (negative as ptrdiff_t)
struct BadArg {
    std::size_t v;
    char const* cls;
};

inline std::vector<BadArg> bad_values(std::size_t first_bad, bool thorough)
{
    std::vector<BadArg> out;
    auto add = [&](std::size_t v, char const* c) {
        if (v < first_bad) { return; }
        for (auto const& e : out) {
            if (e.v == v) { return; }
        }
        out.push_back({v, c});
    };
    add(first_bad, "past_bound");
    add(first_bad + 1, "past_bound");
    if (thorough) {
        add(first_bad + 2, "past_bound");
        add(first_bad + 7, "past_bound");
        add(std::size_t(1) << 31, "huge");
        add(std::size_t(1) << 32, "huge");
        add((std::size_t(1) << 63) - 1, "huge");
        add(std::size_t(1) << 63, "max");
        add(SZMAX - 1, "max");
    } else {
        add(std::size_t(1) << 32, "huge");
    }
    add(SZMAX, "max");
    // values that fall back onto a VALID index once multiplied by an element size of 2, 4 or 8 (index -> pointer
    // conversion wraps modulo 2^64): 2^63 + k, 2^62 + k, 2^61 + k for the valid k = 0 and k = first_bad - 1 (added after
    // seeded breakage c05_erase_index_checked_as_pointer: erase(index,count) of a wide inplace_string checked the
    // bound only after forming cbegin() + index)
    for (int sh : {63, 62, 61}) {
        add(std::size_t(1) << sh, "wraps_when_scaled_by_element_size");
        if (first_bad >= 1) { add((std::size_t(1) << sh) + first_bad - 1, "wraps_when_scaled_by_element_size"); }
    }
    return out;
}

inline std::string show_sz(std::size_t v)
{
    if (v == SZMAX) { return "SIZE_MAX"; }
    if (v == SZMAX - 1) { return "SIZE_MAX-1"; }
    if (v == (std::size_t(1) << 63)) { return "2^63"; }
    for (int sh : {63, 62, 61}) {
        if (v > (std::size_t(1) << sh) && v - (std::size_t(1) << sh) < 70000) { return "2^" + std::to_string(sh) + "+" + std::to_string(v - (std::size_t(1) << sh)); }
    }
    if (v == (std::size_t(1) << 62)) { return "2^62"; }
    if (v == (std::size_t(1) << 61)) { return "2^61"; }
    if (v == (std::size_t(1) << 63) - 1) { return "2^63-1"; }
    if (v == (std::size_t(1) << 32)) { return "2^32"; }
    if (v == (std::size_t(1) << 31)) { return "2^31"; }
    return std::to_string(v);
}

/// keep the optimiser from dropping a call whose result is not used
template <typename T>
inline void sink(T const& v)
{
    asm volatile("" : : "r"(&v) : "memory");
}
/// really read the bytes a returned reference designates (so that ASan sees the access)
template <typename T>
inline void touch(T const& v)
{
    if constexpr (std::is_trivially_copyable_v<T> && sizeof(T) <= 16) {
        unsigned char tmp[sizeof(T)];
        std::memcpy(tmp, static_cast<void const*>(&v), sizeof(T));
        asm volatile("" : : "r"(tmp) : "memory");
    } else {
        sink(v);
    }
}

// --------------------------------------------------------------------------------------
// one executed case
// --------------------------------------------------------------------------------------

struct Outcome { // POD: travels through the pipe
    std::uint32_t index;
    std::int32_t trap;
    std::int32_t line;
    std::int32_t signal;
    std::int32_t calls;             // number of cx.call() executed (must be 1)
    std::int32_t unchanged;         // watched bytes identical inside the handler (-1: handler did not run)
    std::int32_t canary_in_handler; // canaries intact inside the handler (-1: handler did not run)
    std::int32_t canary_after;
    std::int32_t damaged;           // the process trapped after the call (heap or stack corrupted by it)
    std::uint64_t san_before, san_at_handler, san_after;
    char file[120];
    char expr[120];
};

// The record of the running case and the phase it is in live in static storage: a violating call
// whose check is missing may scribble over the heap (where the Ctx and the objects live).
inline Outcome g_out{};
inline volatile int g_phase = 0; // 0 building the state, 1 inside the call, 2 after the call

struct Ctx {
    Outcome& out = g_out;
    struct Region {
        unsigned char const* p;
        std::size_t n;
        std::vector<unsigned char> snap;
    };
    std::vector<Region> regions;
    std::vector<std::function<bool()>> intact;
    std::vector<std::shared_ptr<void>> keep;

    /// raw zero-filled exact-size storage for one T (canaries / ASan red zone around it), watched
    template <typename T>
    T* raw(std::size_t count = 1, unsigned char fill = 0)
    {
        auto blk = std::make_shared<mc::GuardedBlock<T>>(count, fill);
        keep.push_back(blk);
        auto* b = blk.get();
        intact.push_back([b] { return b->intact(); });
        regions.push_back({reinterpret_cast<unsigned char const*>(b->data()), count * sizeof(T), {}});
        return b->data();
    }
    /// an object of type T constructed in such storage
    template <typename T, typename... A>
    T* make(A&&... a)
    {
        T* p = raw<T>();
        return ::new (static_cast<void*>(p)) T(std::forward<A>(a)...);
    }
    /// a caller-supplied range of n elements (exact size), watched
    template <typename T>
    T* buffer(std::size_t n, T first = T{}, T step = T{})
    {
        T* p = raw<T>(n);
        T v  = first;
        for (std::size_t i = 0; i < n; ++i) {
            p[i] = v;
            v    = static_cast<T>(v + step);
        }
        return p;
    }

    bool all_intact() const
    {
        for (auto const& f : intact) {
            if (!f()) { return false; }
        }
        return true;
    }
    bool all_unchanged() const
    {
        for (auto const& r : regions) {
            if (r.n != 0 && std::memcmp(r.p, r.snap.data(), r.n) != 0) { return false; }
        }
        return true;
    }

    /// the one call under test
    template <typename F>
    void call(F&& f)
    {
        for (auto& r : regions) { r.snap.assign(r.p, r.p + r.n); }
        auto& t               = mc::traps();
        out.unchanged         = -1;
        out.canary_in_handler = -1;
        t.in_handler_hook     = [this] {
            out.unchanged         = all_unchanged() ? 1 : 0;
            out.canary_in_handler = all_intact() ? 1 : 0;
        };
        t.last_assert   = mc::AssertInfo{};
        t.last_signal   = 0;
        out.san_before  = mc::san_hits();
        g_phase           = 1;
        mc::Trap const tr = mc::guarded(f);
        g_phase           = 2;
        t.in_handler_hook = nullptr;
        out.trap          = static_cast<int>(tr);
        out.san_after     = mc::san_hits();
        out.san_at_handler = tr == mc::Trap::assert_fired ? t.san_hits_at_handler : out.san_after;
        out.signal        = t.last_signal;
        out.calls += 1;
        out.canary_after  = all_intact() ? 1 : 0;
        if (tr == mc::Trap::assert_fired) {
            out.line      = t.last_assert.line;
            char const* f2 = t.last_assert.file ? t.last_assert.file : "";
            if (char const* p = std::strstr(f2, "include/etl/")) { f2 = p; }
            std::snprintf(out.file, sizeof out.file, "%s", f2);
            std::snprintf(out.expr, sizeof out.expr, "%s", t.last_assert.expr ? t.last_assert.expr : "");
        }
    }
};

struct Case {
    std::string subject, cls, kase;
    bool expect_handler{true};
    bool visible{true};  // bad cases: every watched byte must be unchanged when the handler runs
    std::string files;   // '|'-separated fragments of the header(s) the check is expected in (informational)
    std::function<void(Ctx&)> body;
};

struct Catalogue {
    std::vector<Case> cases;
    std::string config;

    /// violating call; `files` = expected header fragment(s)
    void bad(std::string subject, std::string cls, std::string kase, char const* files, std::function<void(Ctx&)> body,
        bool visible = true)
    {
        cases.push_back(Case{std::move(subject), std::move(cls), config + ": " + kase, true, visible, files, std::move(body)});
    }
    /// nearest valid call of the same template
    void ok(std::string subject, std::string cls, std::string kase, std::function<void(Ctx&)> body)
    {
        cases.push_back(Case{std::move(subject), "valid_" + cls, config + ": " + kase, false, false, "", std::move(body)});
    }
};

inline bool clean(Case const& c, Outcome const& o)
{
    if (o.calls != 1) { return false; }
    if (o.san_after != o.san_before || o.canary_after != 1 || o.damaged != 0) { return false; }
    if (c.expect_handler) {
        return o.trap == int(mc::Trap::assert_fired) && o.unchanged == 1 && o.canary_in_handler == 1;
    }
    return o.trap == int(mc::Trap::none);
}

inline bool file_matches(std::string const& files, char const* file)
{
    if (std::strstr(file, "include/etl/") == nullptr) { return false; }
    if (files.empty()) { return true; }
    std::size_t i = 0;
    while (i <= files.size()) {
        auto j = files.find('|', i);
        if (j == std::string::npos) { j = files.size(); }
        if (j > i && std::strstr(file, files.substr(i, j - i).c_str()) != nullptr) { return true; }
        i = j + 1;
    }
    return false;
}

/// verdict of one case; empty string = satisfied
inline std::string judge(Case const& c, Outcome const& o, bool died, int status)
{
    if (died) { return cat("the worker process died while executing the call (wait status ", status, ")"); }
    if (o.calls != 1) { return cat("harness error: ", o.calls, " calls executed"); }
    auto const tr = static_cast<mc::Trap>(o.trap);
    std::string where;
    if (tr == mc::Trap::assert_fired) { where = cat(" [handler: ", o.file, ":", o.line, " ", o.expr, "]"); }
    if (o.damaged != 0) {
        return cat(c.expect_handler ? "no contract check: the violating call" : "the valid call", " corrupted the process (trap ", mc::trap_name(tr),
            " in the call, fatal signal ", o.signal, " right after it)", where);
    }
    if (!c.expect_handler) {
        if (tr == mc::Trap::assert_fired) { return "contract handler called on a valid call" + where; }
        if (tr != mc::Trap::none) {
            return cat("valid call ended by ", mc::trap_name(tr), tr == mc::Trap::crash ? cat(" (signal ", o.signal, ")") : std::string());
        }
        if (o.san_after != o.san_before) { return "sanitizer report during a valid call"; }
        if (o.canary_after != 1) { return "valid call wrote outside the objects it was given"; }
        return "";
    }
    if (tr == mc::Trap::none) {
        std::string s = "no contract check: the violating call returned normally";
        if (o.san_after != o.san_before) { s += cat(" after ", o.san_after - o.san_before, " sanitizer report(s)"); }
        if (o.canary_after != 1) { s += ", memory outside the object was written"; }
        return s;
    }
    if (tr != mc::Trap::assert_fired) {
        std::string s = cat("no contract check: the violating call ended by ", mc::trap_name(tr));
        if (tr == mc::Trap::crash) { s += cat(" (signal ", o.signal, ")"); }
        if (o.san_after != o.san_before) { s += cat(" after ", o.san_after - o.san_before, " sanitizer report(s)"); }
        return s;
    }
    if (o.line <= 0 || !file_matches("", o.file)) { return "handler called without a tetl source location" + where; }
    // c.files (the header the check is expected in) is informational only: the property asks for a tetl source
    // location, not for a particular one - a check that an inner layer performs first is as good.
    if (o.san_at_handler != o.san_before) {
        return cat("the check comes too late: ", o.san_at_handler - o.san_before, " sanitizer report(s) before the handler ran", where);
    }
    if (o.canary_in_handler != 1) { return "the check comes too late: memory outside the object was written before the handler ran" + where; }
    if (c.visible && o.unchanged != 1) { return "the check comes too late: the object was modified before the handler ran" + where; }
    if (o.san_after != o.san_before) { return "sanitizer report after the handler" + where; }
    return "";
}

// --------------------------------------------------------------------------------------
// the runner
// --------------------------------------------------------------------------------------

inline void worker(Catalogue const& cat_, std::vector<std::size_t> const& todo, std::size_t from, int fd)
{
    // a forked child does not inherit interval timers: re-arm the hang watchdog
    itimerval tv{};
    tv.it_interval.tv_sec = 1;
    tv.it_value.tv_sec    = 1;
    setitimer(ITIMER_REAL, &tv, nullptr);
    mc::traps().hang_ticks = 5;
    for (std::size_t k = from; k < todo.size(); ++k) {
        Case const& c = cat_.cases[todo[k]];
        g_out         = Outcome{};
        g_out.index   = static_cast<std::uint32_t>(k);
        g_phase       = 0;
        auto cx       = std::make_unique<Ctx>();
        mc::Trap const outer = mc::guarded([&] { c.body(*cx); });
        if (outer != mc::Trap::none) {
            if (g_phase == 0) {
                g_out.calls = -1000 - int(outer); // a trap while building the state: harness error
            } else {
                // the call under test returned (or trapped) and left the process damaged
                g_out.calls   = 1;
                g_out.damaged = 1;
                if (g_out.signal == 0) { g_out.signal = mc::traps().last_signal; }
            }
        }
        Outcome const o = g_out;
        bool const cl   = clean(c, o);
        std::size_t off = 0;
        auto const* p   = reinterpret_cast<unsigned char const*>(&o);
        while (off < sizeof o) {
            auto const n = ::write(fd, p + off, sizeof o - off);
            if (n <= 0) { std::_Exit(90); }
            off += static_cast<std::size_t>(n);
        }
        if (!cl) {
            std::_Exit(0); // the state of this process is suspect now; do not run destructors either
        }
        // clean: release the storage of the case (objects are trivially destructible or were
        // destroyed by the body)
    }
    std::_Exit(0);
}

inline void run(mc::Reporter& r, Catalogue const& cat_)
{
    std::vector<std::size_t> todo;
    for (std::size_t i = 0; i < cat_.cases.size(); ++i) {
        if (r.want(cat_.cases[i].subject)) { todo.push_back(i); }
    }
    std::set<std::string> subjects, sites;
    std::uint64_t forks = 0;
    std::size_t next    = 0;
    auto account        = [&](std::size_t k, Outcome const& o, bool died, int status) {
        Case const& c = cat_.cases[todo[k]];
        mc::traps().guard_entries = mc::traps().guard_entries + 1; // progress for the job-level watchdog
        r.count("evaluations");
        if (c.expect_handler) {
            r.count("distinct_nontrivial");
            r.count("violating_calls");
        } else {
            r.count("valid_controls");
        }
        subjects.insert(c.subject);
        std::string const verdict = judge(c, o, died, status);
        if (!died && o.trap == int(mc::Trap::assert_fired)) {
            sites.insert(cat(o.file, ":", o.line));
            if (c.expect_handler && !file_matches(c.files, o.file)) { r.count("handler_in_other_header"); }
            r.outcome(mc::hash_str(cat(o.file, ":", o.line, "|", c.subject)));
            if (c.expect_handler && verdict.empty()) { r.count("handler_stopped_violation"); }
        } else {
            r.outcome(mc::hash_str(cat("trap", o.trap, "|", c.subject)));
        }
        if (!verdict.empty()) {
            r.violation("C05", c.subject, c.cls, c.kase, verdict);
        } else if (c.expect_handler && r.wants_sample()) {
            r.sample(cat(c.subject, " [", c.cls, "] ", c.kase, " -> ", o.file, ":", o.line, " ", o.expr));
        }
    };
    while (next < todo.size()) {
        if (r.deadline_passed()) {
            r.not_exhaustive("deadline");
            break;
        }
        int fds[2];
        if (::pipe(fds) != 0) {
            r.not_exhaustive("pipe() failed");
            break;
        }
        std::fflush(nullptr);
        pid_t const pid = ::fork();
        if (pid < 0) {
            r.not_exhaustive("fork() failed");
            break;
        }
        if (pid == 0) {
            ::close(fds[0]);
            worker(cat_, todo, next, fds[1]);
        }
        ++forks;
        ::close(fds[1]);
        Outcome o{};
        for (;;) {
            std::size_t off = 0;
            auto* p         = reinterpret_cast<unsigned char*>(&o);
            while (off < sizeof o) {
                auto const n = ::read(fds[0], p + off, sizeof o - off);
                if (n < 0 && errno == EINTR) {
                    mc::traps().guard_entries = mc::traps().guard_entries + 1; // waiting for the worker is not a hang
                    continue;
                }
                if (n <= 0) { break; }
                off += static_cast<std::size_t>(n);
            }
            if (off != sizeof o) { break; }
            if (o.index != next) {
                r.violation("C05", "job:" + r.job, "harness-protocol", cat("record ", o.index, " expected ", next), "worker out of step");
                next = todo.size();
                break;
            }
            account(next, o, false, 0);
            ++next;
        }
        ::close(fds[0]);
        int status = 0;
        while (::waitpid(pid, &status, 0) < 0 && errno == EINTR) { }
        bool const normal = WIFEXITED(status) && WEXITSTATUS(status) == 0;
        if (!normal && next < todo.size()) {
            // died without a record for case `next`
            account(next, Outcome{}, true, status);
            ++next;
        }
    }
    {
        std::string all;
        for (auto const& s : sites) {
            auto pos = s.find("include/etl/");
            all += (all.empty() ? "" : " ") + (pos == std::string::npos ? s : s.substr(pos + 12));
        }
        r.note("handler sites reached: " + all);
    }
    r.count("operations", subjects.size());
    r.count("handler_sites_reached", sites.size());
    r.count("worker_forks", forks);
}

} // namespace c05
