// C20 round 2 (c): inplace_function<int(int), Capacity, Alignment> with targets of EVERY size and alignment the
// storage admits, and conversions between capacities / alignments.
//
// Targets: for every alignment A dividing Alignment (A = 1, 2, 4, ...) and every size N <= Capacity that is a
// multiple of A: a trivially copyable functor of exactly N bytes (pattern-filled, the pattern encodes the captured
// value), and - for N a multiple of 4 and A >= 4 - a functor of exactly N bytes that starts with a lifetime-tracked
// capture (non-trivial copy / move / destroy).  Every invocation checks that `this` is aligned to A and that all N
// bytes still carry the pattern.
// Enumerated per configuration (Capacity, Alignment): every ordered pair (i, j) of targets x the operations
//   construct from the target (rvalue, const lvalue), copy construction (const lvalue, non-const lvalue), move
//   construction, copy assignment over j, move assignment over j, assignment of the target object over j, = nullptr,
//   member swap and free swap of i with j, each followed by calls of every function object involved, the state of
//   the source (unchanged after copy, empty after move), the bytes behind each function object (overrun canary),
//   and the lifetime registry (C03: no illegal transition, live captures = tracked targets currently stored).
// Conversions: for every listed (source configuration -> destination configuration with Capacity_d >= Capacity_s and
//   Alignment_d % Alignment_s == 0) every source target i x every destination target j: converting copy / move
//   construction and converting copy / move assignment over j.
// Closed form: a call returns code(N, tracked, v) + x of the target that was stored last.
//
// API gap: conversion to a smaller capacity or a weaker alignment is rejected by a static_assert (hard error, cannot be
// probed); it is not exercised.
#include "c20_callkit.hpp"

#include <etl/functional.hpp>

#include <cstdint>
#include <functional>
#include <memory>
#include <utility>
#include <vector>

using namespace c20;

namespace {

int g_calls = 0;
// constructions / destructions of an over-aligned target at an address that is not a multiple of its alignment (added
// after seeded breakage c02_inplace_function_swap_tmp_alignment: swap relocated the target through a scratch buffer of
// aligned_storage_t<Capacity> - default alignment - instead of <Capacity, Alignment>; the call operator only ever sees
// the object after it has been moved back into properly aligned storage)
int g_misaligned = 0;

constexpr int code(std::size_t n, bool tracked, int v) { return static_cast<int>(n) * 1000 + (tracked ? 500 : 0) + v * 10; }
constexpr unsigned char pat(int v, std::size_t i) { return static_cast<unsigned char>(v * 37 + static_cast<int>(i) * 11 + 5); }

template <std::size_t N, std::size_t A>
struct alignas(A) Plain_ {
    unsigned char b[N];
    explicit Plain_(int v)
    {
        for (std::size_t i = 0; i < N; ++i) { b[i] = pat(v, i); }
    }
    int operator()(int x)
    {
        ++g_calls;
        if (reinterpret_cast<std::uintptr_t>(this) % A != 0) { return -6666; }
        int v = -1;
        for (int c = 0; c < 4; ++c) {
            if (b[0] == pat(c, 0)) { v = c; }
        }
        if (v < 0) { return -7777; }
        for (std::size_t i = 0; i < N; ++i) {
            if (b[i] != pat(v, i)) { return -7777; }
        }
        return code(N, false, v) + x;
    }
};
template <std::size_t N, std::size_t A>
struct alignas(A) Held_ {
    static_assert(N % 4 == 0 && N >= 8 && A >= 4);
    TC t;
    unsigned char b[N - sizeof(TC)];
    explicit Held_(int v) : t(v)
    {
        for (std::size_t i = 0; i < sizeof b; ++i) { b[i] = pat(v, i); }
        chk();
    }
    Held_(Held_ const& o) : t(o.t)
    {
        for (std::size_t i = 0; i < sizeof b; ++i) { b[i] = o.b[i]; }
        chk();
    }
    Held_(Held_&& o) noexcept : t(std::move(o.t))
    {
        for (std::size_t i = 0; i < sizeof b; ++i) { b[i] = o.b[i]; }
        chk();
    }
    ~Held_() { chk(); }
    void chk() const
    {
        if (reinterpret_cast<std::uintptr_t>(this) % A != 0) { ++g_misaligned; }
    }
    int operator()(int x)
    {
        ++g_calls;
        if (reinterpret_cast<std::uintptr_t>(this) % A != 0) { return -6666; }
        int const v = t.value();
        for (std::size_t i = 0; i < sizeof b; ++i) {
            if (b[i] != pat(v, i)) { return -7777; }
        }
        return code(N, true, v) + x;
    }
};
template <std::size_t A>
struct alignas(A) Held_<4, A> {
    TC t;
    explicit Held_(int v) : t(v) { }
    int operator()(int x)
    {
        ++g_calls;
        if (reinterpret_cast<std::uintptr_t>(this) % A != 0) { return -6666; }
        return code(sizeof(Held_), true, t.value()) + x;
    }
};
static_assert(sizeof(Plain_<1, 1>) == 1 && sizeof(Plain_<7, 1>) == 7 && sizeof(Plain_<64, 64>) == 64 && alignof(Plain_<64, 64>) == 64);
static_assert(sizeof(Held_<8, 4>) == 8 && sizeof(Held_<4, 4>) == 4 && sizeof(Held_<32, 16>) == 32 && std::is_trivially_copyable_v<Plain_<3, 1>>
              && !std::is_trivially_copyable_v<Held_<8, 4>>);

// a function object placed in the middle of a poisoned slab: the bytes behind it are an overrun canary
template <typename V>
struct Slab {
    static constexpr std::size_t tail = 64;
    alignas(128) unsigned char buf[sizeof(V) + tail];
    V* v{nullptr};
    template <typename... A>
    explicit Slab(A&&... a)
    {
        std::memset(buf, 0xA5, sizeof buf);
        v = ::new (static_cast<void*>(buf)) V(std::forward<A>(a)...);
    }
    Slab(Slab const&)            = delete;
    Slab& operator=(Slab const&) = delete;
    ~Slab() { v->~V(); }
    bool intact() const
    {
        for (std::size_t i = sizeof(V); i < sizeof buf; ++i) {
            if (buf[i] != 0xA5) { return false; }
        }
        return true;
    }
    V& operator*() { return *v; }
};

template <typename V>
struct Maker {
    std::string name;
    std::size_t n;
    std::size_t a;
    bool tracked;
    std::function<void(Slab<V>&, int)> assign_rvalue;      // *slab = Target(v)
    std::function<void(Slab<V>&, int)> assign_const_lvalue; // Target const t(v); *slab = t
    std::function<std::unique_ptr<Slab<V>>(int)> make_rvalue;
    std::function<std::unique_ptr<Slab<V>>(int)> make_const_lvalue;
};

template <typename V, typename T>
Maker<V> maker_for(std::string name, std::size_t n, std::size_t a, bool tracked)
{
    Maker<V> m;
    m.name                = std::move(name);
    m.n                   = n;
    m.a                   = a;
    m.tracked             = tracked;
    m.assign_rvalue       = [](Slab<V>& s, int v) { *s = T(v); };
    m.assign_const_lvalue = [](Slab<V>& s, int v) {
        T const t(v);
        *s = t;
    };
    m.make_rvalue       = [](int v) { return std::make_unique<Slab<V>>(T(v)); };
    m.make_const_lvalue = [](int v) {
        T const t(v);
        return std::make_unique<Slab<V>>(t);
    };
    return m;
}

template <typename V, std::size_t Cap, std::size_t A, std::size_t K = 1>
void add_sizes(std::vector<Maker<V>>& out)
{
    constexpr std::size_t N = K * A;
    if constexpr (N <= Cap) {
        out.push_back(maker_for<V, Plain_<N, A>>(cat("plain<size ", N, ",align ", A, ">"), N, A, false));
        if constexpr (A >= 4 && N % 4 == 0) { out.push_back(maker_for<V, Held_<N, A>>(cat("tracked<size ", N, ",align ", A, ">"), N, A, true)); }
        add_sizes<V, Cap, A, K + 1>(out);
    }
}
template <typename V, std::size_t Cap, std::size_t Align, std::size_t A = 1>
void add_alignments(std::vector<Maker<V>>& out)
{
    if constexpr (A <= Align) {
        add_sizes<V, Cap, A>(out);
        add_alignments<V, Cap, Align, A * 2>(out);
    }
}

// runs `fn` with the stack pointer displaced by 0, 16, 32 and 48 bytes, so that a 16-byte aligned temporary inside the
// callee lands on every residue modulo 64 (an even number of swaps in total: the operands end where they started)
template <typename Fn>
[[gnu::noinline]] void call_in_own_frame(Fn& fn) // the callee's locals must live BELOW the displaced stack pointer
{
    fn();
    asm volatile("" ::: "memory");
}
template <typename Fn>
[[gnu::noinline]] void at_stack_offsets(Fn fn)
{
    for (std::size_t k = 0; k < 4; ++k) {
        auto* pad = static_cast<volatile unsigned char*>(__builtin_alloca(16 * k + 1));
        pad[0]    = static_cast<unsigned char>(k);
        call_in_own_frame(fn);
        (void)pad[0];
    }
}

struct Env {
    Ck& ck;
    std::string cfg;
    void lifetimes(std::string const& subj, std::string const& cls, std::string const& kase, std::size_t want_live)
    {
        if (g_misaligned != 0) {
            ck.r.violation("C02", subj, cls + "/misaligned_target", kase, cat(g_misaligned, " construction(s)/destruction(s) of the stored target at an address that is not a multiple of its alignment"));
            g_misaligned = 0;
        }
        for (auto const& e : registry().take_errors()) { ck.r.violation("C03", subj, cat(cls, "/lifetime:", e), kase, e); }
        auto const live = registry().live_count();
        if (live != want_live) {
            ck.r.violation("C03", subj, cls + "/live-total", kase, cat("live tracked captures: ", live, ", expected: ", want_live));
            registry().slots.clear();
        }
    }
};

template <typename V>
std::string call_text(V& f, int x)
{
    if (!static_cast<bool>(f)) { return "empty"; }
    int const before = g_calls;
    int const r      = f(x);
    return cat(r, g_calls - before == 1 ? "" : cat(" [", g_calls - before, " invocations]"));
}
template <typename V>
std::string want_text(Maker<V> const& m, int v, int x)
{
    return cat(code(m.n, m.tracked, v) + x);
}
template <typename V>
std::string cls_of(Maker<V> const& i, Maker<V> const& j)
{
    // coarse on purpose: one root cause (alignment, non-trivial relocation, size bookkeeping) -> a handful of classes
    std::string const k = (i.a > 8 || j.a > 8) ? "overaligned" : ((i.tracked || j.tracked) ? "tracked" : "trivial");
    return cat(k, (i.n < j.n ? "/smaller_over_larger" : (i.n > j.n ? "/larger_over_smaller" : "/same_size")));
}

template <std::size_t Cap, std::size_t Align>
struct Config {
    using V = etl::inplace_function<int(int), Cap, Align>;
    static std::vector<Maker<V>> makers()
    {
        std::vector<Maker<V>> out;
        add_alignments<V, Cap, Align>(out);
        return out;
    }
    static std::string name() { return cat("inplace_function<int(int),", Cap, ",", Align, ">"); }

    static void run(mc::Reporter& r)
    {
        Ck ck{r};
        Env env{ck, name()};
        auto const ms = makers();
        r.count("configurations");
        r.count("targets", ms.size());
        ck.eq("inplace_function", "general", name() + ": alignof >= Alignment and sizeof >= Capacity", alignof(V) >= Align && sizeof(V) >= Cap, true);
        ck.eq("inplace_function", "general", name() + ": capacity / alignment member constants", cat(V::capacity::value, ",", V::alignment::value), cat(Cap, ",", Align));
        registry().slots.clear();
        (void)registry().take_errors();
        for (auto const& i : ms) {
            if (r.deadline_passed()) {
                r.not_exhaustive("deadline");
                return;
            }
            // ---- unary: construction, copy, move, reset ---------------------------------------
            {
                auto const kase = cat(name(), ": ", i.name);
                auto const cls  = cat(i.tracked ? "tracked" : "trivial", i.a > 8 ? "+overaligned" : "");
                std::size_t const t1 = i.tracked ? 1 : 0;
                {
                    auto f = i.make_rvalue(1);
                    ck.eq("inplace_function::inplace_function(T&&)", cls, kase + ": construct from rvalue, call", call_text(**f, 2), want_text(i, 1, 2));
                    auto g = i.make_const_lvalue(2);
                    ck.eq("inplace_function::inplace_function(T&&)", cls, kase + ": construct from const lvalue, call", call_text(**g, 3), want_text(i, 2, 3));
                    env.lifetimes("inplace_function::inplace_function(T&&)", cls, kase, 2 * t1);
                    {
                        Slab<V> c(std::as_const(**f));
                        Slab<V> d(**f); // non-const lvalue source: must select the copy constructor, not the target constructor
                        ck.eq("inplace_function::inplace_function(inplace_function const&)", cls, kase + ": copy / copy of non-const lvalue / source",
                            cat(call_text(*c, 4), ",", call_text(*d, 5), ",", call_text(**f, 6)), cat(want_text(i, 1, 4), ",", want_text(i, 1, 5), ",", want_text(i, 1, 6)));
                        ck.eq("inplace_function::inplace_function(inplace_function const&)", cls, kase + ": bytes behind the copies untouched", c.intact() && d.intact(), true);
                        env.lifetimes("inplace_function::inplace_function(inplace_function const&)", cls, kase, 4 * t1);
                        Slab<V> e(std::move(*c));
                        ck.eq("inplace_function::inplace_function(inplace_function&&)", cls, kase + ": move target / source", cat(call_text(*e, 7), ",", call_text(*c, 7)),
                            cat(want_text(i, 1, 7), ",empty"));
                        ck.eq("inplace_function::inplace_function(inplace_function&&)", cls, kase + ": bytes behind the move target untouched", e.intact(), true);
                        env.lifetimes("inplace_function::inplace_function(inplace_function&&)", cls, kase, 4 * t1);
                        *d = nullptr;
                        ck.eq("inplace_function::operator=(nullptr_t)", cls, kase + ": after = nullptr", call_text(*d, 1), std::string("empty"));
                        env.lifetimes("inplace_function::operator=(nullptr_t)", cls, kase, 3 * t1);
                    }
                    env.lifetimes("inplace_function::~inplace_function", cls, kase, 2 * t1);
                }
                env.lifetimes("inplace_function::~inplace_function", cls, kase, 0);
            }
            // ---- binary: every ordered pair ----------------------------------------------------
            for (auto const& j : ms) {
                auto const kase      = cat(name(), ": f=", i.name, "(v=1), g=", j.name, "(v=2)");
                auto const cls       = cls_of(i, j);
                std::size_t const ti = i.tracked ? 1 : 0;
                std::size_t const tj = j.tracked ? 1 : 0;
                {
                    auto f = i.make_rvalue(1);
                    auto g = j.make_rvalue(2);
                    **f    = std::as_const(**g);
                    ck.eq("inplace_function::operator=(inplace_function)", cls, kase + ": f = g (copy): f,g", cat(call_text(**f, 1), ",", call_text(**g, 2)),
                        cat(want_text(j, 2, 1), ",", want_text(j, 2, 2)));
                    ck.eq("inplace_function::operator=(inplace_function)", cls, kase + ": f = g (copy): bytes behind f and g untouched", f->intact() && g->intact(), true);
                    env.lifetimes("inplace_function::operator=(inplace_function)", cls, kase + ": f = g (copy)", 2 * tj);
                }
                {
                    auto f = i.make_rvalue(1);
                    auto g = j.make_rvalue(2);
                    **f    = std::move(**g);
                    ck.eq("inplace_function::operator=(inplace_function)", cls, kase + ": f = move(g): f,g", cat(call_text(**f, 1), ",", call_text(**g, 2)), cat(want_text(j, 2, 1), ",empty"));
                    ck.eq("inplace_function::operator=(inplace_function)", cls, kase + ": f = move(g): bytes behind f and g untouched", f->intact() && g->intact(), true);
                    env.lifetimes("inplace_function::operator=(inplace_function)", cls, kase + ": f = move(g)", tj);
                }
                {
                    auto f = i.make_rvalue(1);
                    j.assign_rvalue(*f, 3);
                    auto const a = call_text(**f, 1);
                    j.assign_const_lvalue(*f, 0);
                    ck.eq("inplace_function::operator=(inplace_function) from callable", cls, kase + ": f = target_j(3); f = const target_j(0)", cat(a, ",", call_text(**f, 2)),
                        cat(want_text(j, 3, 1), ",", want_text(j, 0, 2)));
                    ck.eq("inplace_function::operator=(inplace_function) from callable", cls, kase + ": bytes behind f untouched", f->intact(), true);
                    env.lifetimes("inplace_function::operator=(inplace_function) from callable", cls, kase + ": f = target_j", tj);
                }
                {
                    auto f = i.make_rvalue(1);
                    auto g = j.make_rvalue(2);
                    at_stack_offsets([&] { (**f).swap(**g); }); // four swaps at different stack depths: back to the start
                    (**f).swap(**g);
                    auto const a = cat(call_text(**f, 1), ",", call_text(**g, 2));
                    ck.eq("inplace_function::swap(inplace_function&)", cls, kase + ": f.swap(g): f,g", a, cat(want_text(j, 2, 1), ",", want_text(i, 1, 2)));
                    ck.eq("inplace_function::swap(inplace_function&)", cls, kase + ": f.swap(g): bytes behind f and g untouched", f->intact() && g->intact(), true);
                    env.lifetimes("inplace_function::swap(inplace_function&)", cls, kase + ": f.swap(g)", ti + tj);
                    using etl::swap;
                    swap(**f, **g);
                    ck.eq("etl::swap(inplace_function&,inplace_function&)", cls, kase + ": f.swap(g); swap(f,g): f,g", cat(call_text(**f, 1), ",", call_text(**g, 2)),
                        cat(want_text(i, 1, 1), ",", want_text(j, 2, 2)));
                    env.lifetimes("etl::swap(inplace_function&,inplace_function&)", cls, kase + ": swap(f,g)", ti + tj);
                    // swapping with an empty function moves the target over
                    Slab<V> e;
                    (*e).swap(**f);
                    ck.eq("inplace_function::swap(inplace_function&)", cat("empty+", i.tracked ? "tracked" : "trivial"), kase + ": empty.swap(f): e,f", cat(call_text(*e, 1), ",", call_text(**f, 2)),
                        cat(want_text(i, 1, 1), ",empty"));
                    env.lifetimes("inplace_function::swap(inplace_function&)", cls, kase + ": empty.swap(f)", ti + tj);
                }
                env.lifetimes("inplace_function::~inplace_function", cls, kase, 0);
            }
        }
        ck.lifetimes(name());
    }
};

// ---- conversions between configurations ---------------------------------------------------------
template <std::size_t Cs, std::size_t As, std::size_t Cd, std::size_t Ad>
void convert(mc::Reporter& r)
{
    static_assert(Cd >= Cs && Ad % As == 0);
    using VS = etl::inplace_function<int(int), Cs, As>;
    using VD = etl::inplace_function<int(int), Cd, Ad>;
    Ck ck{r};
    auto const name = cat("inplace_function<int(int),", Cs, ",", As, "> -> inplace_function<int(int),", Cd, ",", Ad, ">");
    Env env{ck, name};
    auto const ss = Config<Cs, As>::makers();
    auto const ds = Config<Cd, Ad>::makers();
    r.count("configurations");
    registry().slots.clear();
    (void)registry().take_errors();
    std::string const sc = "inplace_function::inplace_function(inplace_function<Sig,Cap2> const&)";
    std::string const sm = "inplace_function::inplace_function(inplace_function<Sig,Cap2>&&)";
    std::string const sa = "inplace_function::operator=(inplace_function) from smaller capacity";
    for (auto const& i : ss) {
        auto const cls       = cat(i.tracked ? "tracked" : "trivial", i.a > 8 ? "+overaligned" : "");
        std::size_t const ti = i.tracked ? 1 : 0;
        {
            auto const kase = cat(name, ": source ", i.name, "(v=1)");
            auto s          = i.make_rvalue(1);
            (void)call_text(**s, 0);
            {
                Slab<VD> c(std::as_const(**s));
                Slab<VD> d(**s); // non-const lvalue source
                ck.eq(sc, cls, kase + ": converting copy / of non-const lvalue / source", cat(call_text(*c, 1), ",", call_text(*d, 2), ",", call_text(**s, 3)),
                    cat(want_text(i, 1, 1), ",", want_text(i, 1, 2), ",", want_text(i, 1, 3)));
                ck.eq(sc, cls, kase + ": bytes behind the copies untouched", c.intact() && d.intact(), true);
                env.lifetimes(sc, cls, kase, 3 * ti);
                // the larger function object behaves like any other: copy, move, swap
                Slab<VD> c2(std::as_const(*c));
                (*c2).swap(*d);
                Slab<VD> c3(std::move(*c2));
                ck.eq(sc, cls, kase + ": copy, swap and move of the converted function", cat(call_text(*c3, 1), ",", call_text(*d, 2), ",", call_text(*c2, 3)),
                    cat(want_text(i, 1, 1), ",", want_text(i, 1, 2), ",empty"));
                env.lifetimes(sc, cls, kase, 4 * ti);
            }
            {
                Slab<VD> m(std::move(**s));
                ck.eq(sm, cls, kase + ": converting move: target,source", cat(call_text(*m, 1), ",", call_text(**s, 2)), cat(want_text(i, 1, 1), ",empty"));
                ck.eq(sm, cls, kase + ": bytes behind the target untouched", m.intact(), true);
                env.lifetimes(sm, cls, kase, ti);
            }
            env.lifetimes("inplace_function::~inplace_function", cls, kase, 0);
        }
        for (auto const& j : ds) {
            auto const kase      = cat(name, ": source ", i.name, "(v=1) assigned over ", j.name, "(v=2)");
            auto const cls2      = cat(cls, "->", j.tracked ? "tracked" : "trivial");
            std::size_t const tj = j.tracked ? 1 : 0;
            (void)tj;
            {
                auto s = i.make_rvalue(1);
                auto d = j.make_rvalue(2);
                **d    = std::as_const(**s);
                ck.eq(sa, cls2, kase + ": d = s (copy): d,s", cat(call_text(**d, 1), ",", call_text(**s, 2)), cat(want_text(i, 1, 1), ",", want_text(i, 1, 2)));
                ck.eq(sa, cls2, kase + ": bytes behind d untouched", d->intact(), true);
                env.lifetimes(sa, cls2, kase + ": d = s (copy)", 2 * ti);
            }
            {
                auto s = i.make_rvalue(1);
                auto d = j.make_rvalue(2);
                **d    = std::move(**s);
                ck.eq(sa, cls2, kase + ": d = move(s): d,s", cat(call_text(**d, 1), ",", call_text(**s, 2)), cat(want_text(i, 1, 1), ",empty"));
                ck.eq(sa, cls2, kase + ": bytes behind d untouched", d->intact(), true);
                env.lifetimes(sa, cls2, kase + ": d = move(s)", ti);
            }
            env.lifetimes("inplace_function::~inplace_function", cls2, kase, 0);
        }
    }
}

} // namespace

int main(int argc, char** argv)
{
    mc::Main m(argc, argv);
    std::vector<std::string> const both{"quick", "thorough"};
    std::vector<std::string> const th{"thorough"};
#if !defined(MC_PART) || MC_PART == 1
    m.job("sizes/inplace_function<int(int),1,1>", both, [](mc::Reporter& r) { Config<1, 1>::run(r); });
    m.job("sizes/inplace_function<int(int),2,1>", both, [](mc::Reporter& r) { Config<2, 1>::run(r); });
    m.job("sizes/inplace_function<int(int),4,4>", both, [](mc::Reporter& r) { Config<4, 4>::run(r); });
    m.job("sizes/inplace_function<int(int),8,8>", both, [](mc::Reporter& r) { Config<8, 8>::run(r); });
    m.job("sizes/inplace_function<int(int),16,16>", both, [](mc::Reporter& r) { Config<16, 16>::run(r); });
    m.job("sizes/inplace_function<int(int),32,32>", both, [](mc::Reporter& r) { Config<32, 32>::run(r); });
    m.job("convert/1,1->8,8", both, [](mc::Reporter& r) { convert<1, 1, 8, 8>(r); });
    m.job("convert/4,4->8,8", both, [](mc::Reporter& r) { convert<4, 4, 8, 8>(r); });
    m.job("convert/8,8->16,16", both, [](mc::Reporter& r) { convert<8, 8, 16, 16>(r); });
    m.job("convert/8,8->32,32", both, [](mc::Reporter& r) { convert<8, 8, 32, 32>(r); });
    m.job("convert/16,16->32,32", both, [](mc::Reporter& r) { convert<16, 16, 32, 32>(r); });
    static_assert(std::is_same_v<etl::inplace_function<int(int), 1>, etl::inplace_function<int(int), 1, 1>>);
    static_assert(std::is_same_v<etl::inplace_function<int(int), 2>, etl::inplace_function<int(int), 2, 1>>);
    static_assert(std::is_same_v<etl::inplace_function<int(int), 4>, etl::inplace_function<int(int), 4, 4>>);
    static_assert(std::is_same_v<etl::inplace_function<int(int), 8>, etl::inplace_function<int(int), 8, 8>>);
    static_assert(std::is_same_v<etl::inplace_function<int(int), 16>, etl::inplace_function<int(int), 16, 16>>);
#endif
#if !defined(MC_PART) || MC_PART == 2
    m.job("sizes/inplace_function<int(int),24,16>", th, [](mc::Reporter& r) { Config<24, 16>::run(r); });
    m.job("sizes/inplace_function<int(int),32,16>", th, [](mc::Reporter& r) { Config<32, 16>::run(r); });
    m.job("sizes/inplace_function<int(int),64,64>", th, [](mc::Reporter& r) { Config<64, 64>::run(r); });
    m.job("convert/16,16->24,16", th, [](mc::Reporter& r) { convert<16, 16, 24, 16>(r); });
    m.job("convert/32,16->32,32", th, [](mc::Reporter& r) { convert<32, 16, 32, 32>(r); });
    m.job("convert/32,32->64,64", th, [](mc::Reporter& r) { convert<32, 32, 64, 64>(r); });
    m.job("convert/24,16->64,64", th, [](mc::Reporter& r) { convert<24, 16, 64, 64>(r); });
    static_assert(std::is_same_v<etl::inplace_function<int(int), 24>, etl::inplace_function<int(int), 24, 16>>);
    static_assert(std::is_same_v<etl::inplace_function<int(int), 32>, etl::inplace_function<int(int), 32, 16>>);
#endif
    return m.run();
}
