// C15, binary type traits and binary concepts: every etl facility with a std namesake x all
// ordered pairs of a sub-zoo (21 x 21 in the quick zoo, 45 x 45 in the full one), both
// spellings, as constexpr tables (engine E4).
//
// MC_PART selects the group compiled into this binary:
//   1 relations: is_same, is_base_of, is_convertible, is_nothrow_convertible (+ concepts)
//   2 assignment: is_assignable, is_trivially_assignable, is_nothrow_assignable (+ concept)
//   3 construction from one argument: is_constructible, is_trivially_, is_nothrow_ (+ concept)
//   4 is_swappable_with, is_nothrow_swappable_with
//   5 common_type, common_reference, common_with, common_reference_with, weakly-equality-comparable-with
#include "c15_common.hpp"

#ifndef MC_PART
    #define MC_PART 1
#endif

namespace c15 {

// clang-format off
using bin_core = tl<void, int, int const, long, double, bool, int*, int const*, void*, std::nullptr_t,
                    int&, int const&, int&&, zoo::Base, zoo::Derived, zoo::Derived*, zoo::Base*,
                    zoo::ToInt, zoo::ToIntThrow, zoo::FromInt, zoo::Unscoped>;
using bin_ext  = tl<char, float, unsigned int, zoo::Scoped, int[3], int (&)[3], void(), void (*)(), void (&)(),
                    zoo::NonTrivial, zoo::MoveOnly, zoo::TrivDefUserCopy, zoo::ThrowCopy, zoo::ExplicitFromInt,
                    zoo::ExplicitToBool, zoo::Abstract, zoo::Derived&, zoo::Base const&, zoo::Agg&&,
                    zoo::DerivedPriv, int zoo::Agg::*, zoo::Agg, zoo::Agg const&, zoo::Empty>;
// clang-format on
#if defined(C15_QUICK_ZOO)
using bin_zoo = bin_core;
#else
using bin_zoo = tl_cat_t<bin_core, bin_ext>;
#endif
using pairs = cross_t<bin_zoo, bin_zoo>;

// concept spelled etl::NAME<T,U> against STD<T,U>
#define C15_CONCEPT2(NAME, STD, OK, GAP)                                                                               \
    struct NAME##_C2 {                                                                                                 \
        static constexpr char const* name = #NAME;                                                                     \
        static constexpr char const* form = "@<T,U> (concept)";                                                        \
        template <typename T, typename U>                                                                              \
        static constexpr bool ok = (OK);                                                                               \
        template <typename T, typename U>                                                                              \
        static constexpr bool gap = (GAP);                                                                             \
        template <typename T, typename U>                                                                              \
        static constexpr long long e()                                                                                 \
        {                                                                                                              \
            return static_cast<long long>(etl::NAME<T, U>);                                                            \
        }                                                                                                              \
        template <typename T, typename U>                                                                              \
        static constexpr long long s()                                                                                 \
        {                                                                                                              \
            return static_cast<long long>(STD<T, U>);                                                                  \
        }                                                                                                              \
        template <typename T, typename U>                                                                              \
        static constexpr ShowFn show = nullptr;                                                                        \
        template <typename T, typename U>                                                                              \
        static constexpr bool nontrivial(long long sv)                                                                 \
        {                                                                                                              \
            return sv != 0;                                                                                            \
        }                                                                                                              \
    };

// is_nothrow_swappable_with<T,U> does not compile whenever etl::is_swappable_with<T,U> is false,
// nor for arrays (two identical etl::swap(T(&)[N], T(&)[N]) declarations with differently spelled
// constraints are visible from is_nothrow_swappable_with.hpp, the call is ambiguous)
template <typename T, typename U>
constexpr bool nothrow_swappable_with_gap()
{
    if constexpr (std::is_array_v<std::remove_reference_t<T>> || std::is_array_v<std::remove_reference_t<U>>) {
        return true;
    } else {
        return !etl::is_swappable_with_v<T, U>;
    }
}

#if MC_PART == 1
C15_VALUE2(is_same, true, false)
C15_VALUE2(is_base_of, true, false)
C15_VALUE2(is_convertible, true, false)
C15_VALUE2(is_nothrow_convertible, true, false)
C15_CONCEPT2(same_as, std::same_as, true, false)
C15_CONCEPT2(derived_from, std::derived_from, true, false)
C15_CONCEPT2(convertible_to, std::convertible_to, true, false)
#elif MC_PART == 2
C15_VALUE2(is_assignable, true, false)
C15_VALUE2(is_trivially_assignable, true, false)
C15_VALUE2(is_nothrow_assignable, true, false)
C15_CONCEPT2(assignable_from, std::assignable_from, true, false)
#elif MC_PART == 3
C15_VALUE2(is_constructible, true, false)
C15_VALUE2(is_trivially_constructible, true, false)
C15_VALUE2(is_nothrow_constructible, !lwg2116<T>, (std::is_constructible_v<T, U> && !can_static_cast<U, T>))
C15_CONCEPT2(constructible_from, std::constructible_from, true, false)
#elif MC_PART == 4
C15_VALUE2(is_swappable_with, true, false)
C15_VALUE2(is_nothrow_swappable_with, true, (nothrow_swappable_with_gap<T, U>()))
#elif MC_PART == 5
C15_TYPE2(common_type, true, false)
C15_TYPE2(common_reference, true, false)
C15_CONCEPT2(common_with, std::common_with, true, false)
C15_CONCEPT2(common_reference_with, std::common_reference_with, true, false)
C15_CONCEPT2(weakly_equality_comparable_with, std::__detail::__weakly_eq_cmp_with, true, false)
#endif

} // namespace c15

int main(int argc, char** argv)
{
    using namespace c15;
    mc::Main m(argc, argv);
#if MC_PART == 1
    m.job("binary-relations", {"quick", "thorough"}, [](mc::Reporter& r) {
        run_columns<pairs, is_same_S2, is_same_V2, is_base_of_S2, is_base_of_V2, is_convertible_S2, is_convertible_V2,
            is_nothrow_convertible_S2, is_nothrow_convertible_V2, same_as_C2, derived_from_C2, convertible_to_C2>(r);
    });
#elif MC_PART == 2
    m.job("binary-assign", {"quick", "thorough"}, [](mc::Reporter& r) {
        run_columns<pairs, is_assignable_S2, is_assignable_V2, is_trivially_assignable_S2, is_trivially_assignable_V2,
            is_nothrow_assignable_S2, is_nothrow_assignable_V2, assignable_from_C2>(r);
    });
#elif MC_PART == 3
    m.job("binary-construct", {"quick", "thorough"}, [](mc::Reporter& r) {
        run_columns<pairs, is_constructible_S2, is_constructible_V2, is_trivially_constructible_S2,
            is_trivially_constructible_V2, is_nothrow_constructible_S2, is_nothrow_constructible_V2, constructible_from_C2>(r);
    });
#elif MC_PART == 4
    m.job("binary-swap", {"quick", "thorough"}, [](mc::Reporter& r) {
        run_columns<pairs, is_swappable_with_S2, is_swappable_with_V2, is_nothrow_swappable_with_S2,
            is_nothrow_swappable_with_V2>(r);
    });
#elif MC_PART == 5
    m.job("binary-common", {"quick", "thorough"}, [](mc::Reporter& r) {
        run_columns<pairs, common_type_T2, common_type_A2, common_reference_T2, common_reference_A2,
            common_with_C2, common_reference_with_C2, weakly_equality_comparable_with_C2>(r);
    });
#endif
    return m.run();
}
