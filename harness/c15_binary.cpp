// C15, binary type traits and binary concepts: every etl facility with a std namesake x all
// ordered pairs of a sub-zoo (21 x 21 in the quick zoo, 45 x 45 in the full one), both
// spellings, as constexpr tables (engine E4).
//
// MC_PART selects the group compiled into this binary:
//   1 relations: is_same, is_base_of, is_convertible, is_nothrow_convertible (+ concepts)
//   2 assignment: is_assignable, is_trivially_assignable, is_nothrow_assignable (+ concept)
//   3 construction from one argument: is_constructible, is_trivially_, is_nothrow_ (+ concept)
//   4 is_swappable_with, is_nothrow_swappable_with
//   5 common_type, common_reference, common_with, common_reference_with, weakly-equality-comparable-with
//   0 all of them in one binary (quick tier, round-2 mix)
#include "c15_common.hpp"

#ifndef MC_PART
    #define MC_PART 1
#endif

namespace c15 {

// clang-format off
using bin_core = tl<void, int, int const, long, double, bool, int*, int const*, void*, std::nullptr_t,
                    int&, int const&, int&&, zoo::Base, zoo::Derived, zoo::Derived*, zoo::Base*,
                    zoo::ToInt, zoo::ToIntThrow, zoo::FromInt, zoo::Unscoped>;
using bin_ext  = tl<char, float, unsigned int, zoo::Scoped, int[3], int (&)[3], void(), void (*)(), void (&)(),
                    zoo::NonTrivial, zoo::MoveOnly, zoo::TrivDefUserCopy, zoo::ThrowCopy, zoo::ExplicitFromInt,
                    zoo::ExplicitToBool, zoo::Abstract, zoo::Derived&, zoo::Base const&, zoo::Agg&&,
                    zoo::DerivedPriv, int zoo::Agg::*, zoo::Agg, zoo::Agg const&, zoo::Empty>;
// round 2 sub-zoos (-DC15_BIN_ZOO=2 / 3 / 4; each is crossed with itself):
//  2 class hierarchy: public / protected / private / virtual / repeated (ambiguous) bases, cv variants, pointers,
//    references and pointers to members of those classes, an incomplete class, a union
//  3 conversions: conditionally explicit, templated and constrained constructors, conversion functions that exist
//    only for non-const / rvalue / lvalue objects, to references, to anything, ambiguous ones, non-const and
//    volatile copy constructors, private / protected constructors, ref-qualified and proxy assignment, references
//    to arrays and functions, noexcept function pointers, closure types, enumerations with fixed underlying type
//  4 the quick-tier mix of 2 and 3
using bin_hier = tl<zoo::Base, zoo::Derived, zoo::Left, zoo::Right, zoo::Diamond, zoo::DerivedProt, zoo::DerivedPriv,
                    zoo::DerivedVirt, zoo::VDiamond, zoo::Base const, zoo::Diamond volatile, zoo::Incomplete, zoo::UnionTriv,
                    zoo::Base*, zoo::Derived*, zoo::Left*, zoo::Diamond*, zoo::DerivedProt*, zoo::VDiamond*, zoo::Base const*,
                    zoo::Diamond const volatile*, void const*, void*, zoo::Incomplete*, zoo::Base&, zoo::Base&&, zoo::Base const&,
                    zoo::Derived&, zoo::Diamond&, zoo::Left&, zoo::VDiamond&&, int zoo::Base::*,
                    int zoo::Derived::*, int zoo::Diamond::*, int zoo::VDiamond::*, int const zoo::Base::*,
                    void (zoo::Base::*)(), void (zoo::Derived::*)(), void (zoo::Base::*)() noexcept,
                    void (zoo::Derived::*)() const, void (zoo::Diamond::*)(), zoo::Base[2], zoo::Derived (&)[2]>;
using bin_conv = tl<void, int, int&, int const&, int&&, int volatile&, double, long, bool, char, int*, int const*,
                    std::nullptr_t, __int128, zoo::UnscopedBool, zoo::ScopedNeg, zoo::UnscopedNeg,
                    int[3], int (&)[3], int const (&)[3], int (&&)[3], int[], int (&)[], char const (&)[4], char const*,
                    void(), void (&)(), void (*)(), void (*)() noexcept, void (&)() noexcept, void() const, zoo::Lambda,
                    zoo::ToFnPtr, int (*)(int),
                    zoo::CondExplicit<int>, zoo::CondExplicit<char>, zoo::FromAny, zoo::FromArith, zoo::ToIntNonConst,
                    zoo::ToIntNonConst const&, zoo::ToIntRvalue, zoo::ToIntRvalue&, zoo::ToIntLvalue&, zoo::ToIntLvalue,
                    zoo::ToIntRef, zoo::ToAny, zoo::ExplicitToInt, zoo::AmbiguousToNumber, zoo::NonConstCopy,
                    zoo::NonConstCopy&, zoo::NonConstCopy const&, zoo::VolatileCopy, zoo::VolatileCopy volatile&,
                    zoo::PrivateCopy, zoo::PrivateCopy&, zoo::ProtectedCtor, zoo::RefQualAssign, zoo::RefQualAssign&,
                    zoo::AssignFromInt&, zoo::ConstAssign const&, zoo::ConstAssign, zoo::AssignReturnsVoid&,
                    zoo::SwapWithInt&, zoo::EqWithInt, zoo::Agg, zoo::Agg&, zoo::Immovable, zoo::ThrowDtor, zoo::CopyOnly,
                    zoo::ToCopyOnlyCRef>;
using bin_mix  = tl<zoo::Base, zoo::Diamond, zoo::Diamond volatile, zoo::DerivedProt, zoo::Base*, zoo::Diamond*, zoo::Base&,
                    int zoo::Base::*, int zoo::Derived::*, void (zoo::Derived::*)(), int, int&, int (&)[3],
                    void (*)(), void (*)() noexcept, zoo::Lambda, zoo::CondExplicit<char>, zoo::FromAny,
                    zoo::ToIntNonConst const&, zoo::ToIntRvalue&, zoo::ToAny, zoo::NonConstCopy,
                    zoo::NonConstCopy const&, zoo::ConstAssign const&, zoo::CopyOnly, zoo::ToCopyOnlyCRef>;
// clang-format on
#ifndef C15_BIN_ZOO
    #define C15_BIN_ZOO 1
#endif
#if C15_BIN_ZOO == 2
using bin_zoo = bin_hier;
    #define C15_BJOB(NAME) NAME "/hierarchy"
#elif C15_BIN_ZOO == 3
using bin_zoo = bin_conv;
    #define C15_BJOB(NAME) NAME "/conversions"
#elif C15_BIN_ZOO == 4
using bin_zoo = bin_mix;
    #define C15_BJOB(NAME) NAME "/zoo2"
#elif defined(C15_QUICK_ZOO)
using bin_zoo = bin_core;
    #define C15_BJOB(NAME) NAME
#else
using bin_zoo = tl_cat_t<bin_core, bin_ext>;
    #define C15_BJOB(NAME) NAME
#endif
using pairs = cross_t<bin_zoo, bin_zoo>;
using swap_zoo   = tl<zoo::SwapA&, zoo::SwapB&, zoo::SwapC&, zoo::SwapD&, zoo::SwapE&, zoo::SwapF&, zoo::SwapA, zoo::SwapB&&, int&, zoo::AdlSwap&, zoo::ThrowingAdlSwap&>;
using swap_pairs = cross_t<swap_zoo, swap_zoo>;

// concept spelled etl::NAME<T,U> against STD<T,U>
#define C15_CONCEPT2(NAME, STD, OK, GAP)                                                                               \
    struct NAME##_C2 {                                                                                                 \
        static constexpr char const* name = #NAME;                                                                     \
        static constexpr char const* form = "@<T,U> (concept)";                                                        \
        template <typename T, typename U>                                                                              \
        static constexpr bool ok = (OK);                                                                               \
        template <typename T, typename U>                                                                              \
        static constexpr bool gap = (GAP);                                                                             \
        template <typename T, typename U>                                                                              \
        static constexpr long long e()                                                                                 \
        {                                                                                                              \
            return static_cast<long long>(etl::NAME<T, U>);                                                            \
        }                                                                                                              \
        template <typename T, typename U>                                                                              \
        static constexpr long long s()                                                                                 \
        {                                                                                                              \
            return static_cast<long long>(STD<T, U>);                                                                  \
        }                                                                                                              \
        template <typename T, typename U>                                                                              \
        static constexpr ShowFn show = nullptr;                                                                        \
        template <typename T, typename U>                                                                              \
        static constexpr bool nontrivial(long long sv)                                                                 \
        {                                                                                                              \
            return sv != 0;                                                                                            \
        }                                                                                                              \
    };

// is_nothrow_swappable_with<T,U> does not compile whenever etl::is_swappable_with<T,U> is false,
// nor for arrays (two identical etl::swap(T(&)[N], T(&)[N]) declarations with differently spelled
// constraints are visible from is_nothrow_swappable_with.hpp, the call is ambiguous)
template <typename T, typename U>
constexpr bool nothrow_swappable_with_gap()
{
    if constexpr (std::is_array_v<std::remove_reference_t<T>> || std::is_array_v<std::remove_reference_t<U>>) {
        return true;
    } else {
        return !etl::is_swappable_with_v<T, U>;
    }
}

// std preconditions: every operand shall be complete, cv void or an array of unknown bound, and [meta.rqmts]/5
// forbids an instantiation whose result could change if the incomplete class were completed (a pointer or reference
// to it could become convertible to a pointer / reference to a base): pairs that mention zoo::Incomplete at all are
// compared for is_same only, and for is_base_of where the standard does not need the completeness
template <typename T>
inline constexpr bool inc
    = incomplete_core<T> || incomplete_core<std::remove_pointer_t<std::remove_reference_t<T>>>;
template <typename T, typename U>
inline constexpr bool pair_ok = !inc<T> && !inc<U>;
template <typename B, typename D>
inline constexpr bool base_ok = !(std::is_same_v<std::remove_cv_t<D>, zoo::Incomplete> && std::is_class_v<B> && !std::is_same_v<std::remove_cv_t<B>, zoo::Incomplete>);

#if MC_PART == 1 || MC_PART == 0
C15_VALUE2(is_same, true, false)
C15_VALUE2(is_base_of, (base_ok<T, U>), false)
C15_VALUE2(is_convertible, (pair_ok<T, U>), false)
C15_VALUE2(is_nothrow_convertible, (pair_ok<T, U>), false)
C15_CONCEPT2(same_as, std::same_as, true, false)
C15_CONCEPT2(derived_from, std::derived_from, (base_ok<U, T> && !inc<T>), false)
C15_CONCEPT2(convertible_to, std::convertible_to, (pair_ok<T, U>), false)
#endif
#if MC_PART == 2 || MC_PART == 0
C15_VALUE2(is_assignable, (pair_ok<T, U>), false)
C15_VALUE2(is_trivially_assignable, (pair_ok<T, U>), false)
C15_VALUE2(is_nothrow_assignable, (pair_ok<T, U>), false)
C15_CONCEPT2(assignable_from, std::assignable_from, (pair_ok<T, U>), false)
#endif
#if MC_PART == 3 || MC_PART == 0
C15_VALUE2(is_constructible, (pair_ok<T, U>), false)
C15_VALUE2(is_trivially_constructible, (pair_ok<T, U>), false)
C15_VALUE2(is_nothrow_constructible, (pair_ok<T, U> && !lwg2116<T>), false)
C15_CONCEPT2(constructible_from, std::constructible_from, (pair_ok<T, U>), false)
#endif
#if MC_PART == 4 || MC_PART == 0
C15_VALUE2(is_swappable_with, (pair_ok<T, U>), false)
C15_VALUE2(is_nothrow_swappable_with, (pair_ok<T, U>), false)
#endif
#if MC_PART == 5 || MC_PART == 0
C15_TYPE2(common_type, (pair_ok<T, U>), false)
C15_TYPE2(common_reference, (pair_ok<T, U>), false)
C15_CONCEPT2(common_with, std::common_with, (pair_ok<T, U>), false)
C15_CONCEPT2(common_reference_with, std::common_reference_with, (pair_ok<T, U>), false)
C15_CONCEPT2(weakly_equality_comparable_with, std::__detail::__weakly_eq_cmp_with, (pair_ok<T, U>), false)
#endif

} // namespace c15

int main(int argc, char** argv)
{
    using namespace c15;
    mc::Main m(argc, argv);
#if MC_PART == 1 || MC_PART == 0
    m.job(C15_BJOB("binary-relations"), {"quick", "thorough"}, [](mc::Reporter& r) {
        run_columns<pairs, is_same_S2, is_same_V2, is_base_of_S2, is_base_of_V2, is_convertible_S2, is_convertible_V2,
            is_nothrow_convertible_S2, is_nothrow_convertible_V2, same_as_C2, derived_from_C2, convertible_to_C2>(r);
    });
#endif
#if MC_PART == 2 || MC_PART == 0
    m.job(C15_BJOB("binary-assign"), {"quick", "thorough"}, [](mc::Reporter& r) {
        run_columns<pairs, is_assignable_S2, is_assignable_V2, is_trivially_assignable_S2, is_trivially_assignable_V2,
            is_nothrow_assignable_S2, is_nothrow_assignable_V2, assignable_from_C2>(r);
    });
#endif
#if MC_PART == 3 || MC_PART == 0
    m.job(C15_BJOB("binary-construct"), {"quick", "thorough"}, [](mc::Reporter& r) {
        run_columns<pairs, is_constructible_S2, is_constructible_V2, is_trivially_constructible_S2,
            is_trivially_constructible_V2, is_nothrow_constructible_S2, is_nothrow_constructible_V2, constructible_from_C2>(r);
    });
#endif
#if MC_PART == 4 || MC_PART == 0
    m.job(C15_BJOB("binary-swap"), {"quick", "thorough"}, [](mc::Reporter& r) {
        run_columns<pairs, is_swappable_with_S2, is_swappable_with_V2, is_nothrow_swappable_with_S2,
            is_nothrow_swappable_with_V2>(r);
    });
    m.job(C15_BJOB("binary-swap-asymmetric"), {"quick", "thorough"}, [](mc::Reporter& r) {
        run_columns<swap_pairs, is_swappable_with_S2, is_swappable_with_V2, is_nothrow_swappable_with_S2,
            is_nothrow_swappable_with_V2>(r);
    });
#endif
#if MC_PART == 5 || MC_PART == 0
    m.job(C15_BJOB("binary-common"), {"quick", "thorough"}, [](mc::Reporter& r) {
        run_columns<pairs, common_type_T2, common_type_A2, common_reference_T2, common_reference_A2,
            common_with_C2, common_reference_with_C2, weakly_equality_comparable_with_C2>(r);
    });
#endif
    return m.run();
}
