// C08 (and the view half of C02): basic_string_view against std::basic_string_view over the
// complete product (haystack, needle, pos, count) for short strings.  Haystacks and needles
// live in exact-size heap blocks without terminator, so in the `san` flavour the first
// character read outside a view is an ASan report (attributed to C02).
#include "mc.hpp"

#include <etl/string_view.hpp>

#include <memory>
#include <string>
#include <string_view>

using mc::cat;

namespace {

template <typename Char>
struct Str {
    std::basic_string<Char> s;                   // model copy
    std::unique_ptr<mc::GuardedBlock<Char>> blk; // exact-size, not terminated
    std::unique_ptr<mc::GuardedBlock<Char>> z;   // exact-size + terminator (only if no embedded NUL)
    bool has_nul{false};
};

template <typename Char>
std::vector<Str<Char>> make_pool(std::vector<Char> const& alpha, int maxLen)
{
    std::vector<std::basic_string<Char>> all{{}};
    std::size_t lo = 0;
    for (int len = 1; len <= maxLen; ++len) {
        std::size_t hi = all.size();
        for (std::size_t i = lo; i < hi; ++i) {
            for (Char c : alpha) {
                auto s = all[i];
                s.push_back(c);
                all.push_back(s);
            }
        }
        lo = hi;
    }
    std::vector<Str<Char>> out;
    for (auto& s : all) {
        Str<Char> e;
        e.s   = s;
        e.blk = std::make_unique<mc::GuardedBlock<Char>>(s.size());
        std::copy(s.begin(), s.end(), e.blk->data());
        e.has_nul = s.find(Char(0)) != std::basic_string<Char>::npos;
        if (!e.has_nul) {
            e.z = std::make_unique<mc::GuardedBlock<Char>>(s.size() + 1);
            std::copy(s.begin(), s.end(), e.z->data());
            e.z->data()[s.size()] = Char(0);
        }
        out.push_back(std::move(e));
    }
    return out;
}

template <typename Char>
std::string show(std::basic_string<Char> const& s)
{
    return mc::show_chars(s.begin(), s.end());
}
inline std::string show_pos(std::size_t p) { return p == std::size_t(-1) ? std::string("npos") : std::to_string(p); }

template <typename Char>
char const* cname()
{
    if constexpr (std::is_same_v<Char, char>) { return "char"; }
    if constexpr (std::is_same_v<Char, wchar_t>) { return "wchar_t"; }
    if constexpr (std::is_same_v<Char, char8_t>) { return "char8_t"; }
    if constexpr (std::is_same_v<Char, char16_t>) { return "char16_t"; }
    return "char32_t";
}

inline int sign(int x) { return (x > 0) - (x < 0); }

template <typename Char>
void sweep(mc::Reporter& r, std::vector<Char> hayAlpha, int maxHay, std::vector<Char> needleAlpha, int maxNeedle,
    std::vector<Char> singles)
{
    using EV             = etl::basic_string_view<Char>;
    using SV             = std::basic_string_view<Char>;
    constexpr auto npos  = std::size_t(-1);
    auto const hays      = make_pool<Char>(hayAlpha, maxHay);
    auto needles         = make_pool<Char>(needleAlpha, maxNeedle);
    {
        // one needle longer than every haystack
        auto extra = make_pool<Char>({needleAlpha[0]}, maxHay + 1);
        needles.push_back(std::move(extra.back()));
    }
    std::string const T = cname<Char>();
    std::uint64_t evals = 0;
    std::uint64_t nontrivial = 0;

    char const* subject = "";
    std::size_t cur_pos = 0, cur_cnt = 0;
    std::uint64_t san   = mc::san_hits();

    for (auto const& H : hays) {
        for (int nullHay = 0; nullHay < (H.s.empty() ? 2 : 1); ++nullHay) {
            // nullHay == 1: the default-constructed (null) view instead of an empty view into a block
            EV const eh = nullHay ? EV{} : EV{H.blk->data(), H.s.size()};
            SV const sh = nullHay ? SV{} : SV{H.s};
            std::size_t const hl = H.s.size();
            std::vector<std::size_t> positions;
            for (std::size_t p = 0; p <= hl + 2; ++p) { positions.push_back(p); }
            positions.push_back(npos);
            positions.push_back(npos - 1);

            for (auto const& N : needles) {
                for (int nullNeedle = 0; nullNeedle < (N.s.empty() ? 2 : 1); ++nullNeedle) {
                    EV const en = nullNeedle ? EV{} : EV{N.blk->data(), N.s.size()};
                    SV const sn = nullNeedle ? SV{} : SV{N.s};
                    std::size_t const nl = N.s.size();

                    auto cls = [&](std::size_t pos) {
                        std::string c;
                        if (hl == 0) { c += nullHay ? "hay_null+" : "hay_empty+"; }
                        if (nl == 0) { c += nullNeedle ? "needle_null+" : "needle_empty+"; }
                        if (nl > hl) { c += "needle_longer+"; }
                        if (pos == npos || pos == npos - 1) {
                            c += "pos_npos+";
                        } else if (pos > hl) {
                            c += "pos_gt_size+";
                        } else if (pos == hl) {
                            c += "pos_eq_size+";
                        }
                        if (c.empty()) { return std::string("general"); }
                        c.pop_back();
                        return c;
                    };
                    auto kase = [&](std::size_t pos, std::size_t cnt) {
                        return cat(T, " hay=", nullHay ? std::string("<null view>") : show(H.s), " needle=",
                            nullNeedle ? std::string("<null view>") : show(N.s), " pos=", show_pos(pos), " count=", show_pos(cnt));
                    };
                    auto cmp = [&](char const* subj, std::size_t pos, std::size_t cnt, auto got, auto want) {
                        ++evals;
                        if (!(got == want)) { r.violation("C08", cat("basic_string_view::", subj), cls(pos), kase(pos, cnt), cat("tetl=", got, " std=", want)); }
                        auto const now = mc::san_hits();
                        if (now != san) {
                            san = now;
                            r.violation("C02", cat("basic_string_view::", subj), cls(pos), kase(pos, cnt), "ASan/UBSan report: read outside the views involved (see job log)");
                        }
                    };

                    mc::Trap t = mc::guarded([&] {
                        for (std::size_t pos : positions) {
                            cur_pos = pos;
                            cur_cnt = 0;
                            subject = "find(sv,pos)";
                            {
                                auto w = sh.find(sn, pos);
                                cmp(subject, pos, 0, eh.find(en, pos), w);
                                if (w != npos && nl > 0) { ++nontrivial; }
                            }
                            subject = "rfind(sv,pos)";
                            cmp(subject, pos, 0, eh.rfind(en, pos), sh.rfind(sn, pos));
                            subject = "find_first_of(sv,pos)";
                            cmp(subject, pos, 0, eh.find_first_of(en, pos), sh.find_first_of(sn, pos));
                            subject = "find_last_of(sv,pos)";
                            cmp(subject, pos, 0, eh.find_last_of(en, pos), sh.find_last_of(sn, pos));
                            subject = "find_first_not_of(sv,pos)";
                            cmp(subject, pos, 0, eh.find_first_not_of(en, pos), sh.find_first_not_of(sn, pos));
                            subject = "find_last_not_of(sv,pos)";
                            cmp(subject, pos, 0, eh.find_last_not_of(en, pos), sh.find_last_not_of(sn, pos));
                            if (!nullNeedle) {
                                // (ptr,pos,count) overloads: count runs over every prefix of the needle block
                                for (std::size_t cnt = 0; cnt <= nl; ++cnt) {
                                    cur_cnt            = cnt;
                                    Char const* ep     = N.blk->data();
                                    Char const* sp     = N.s.data();
                                    subject            = "find(ptr,pos,count)";
                                    cmp(subject, pos, cnt, eh.find(ep, pos, cnt), sh.find(sp, pos, cnt));
                                    subject = "rfind(ptr,pos,count)";
                                    cmp(subject, pos, cnt, eh.rfind(ep, pos, cnt), sh.rfind(sp, pos, cnt));
                                    subject = "find_first_of(ptr,pos,count)";
                                    cmp(subject, pos, cnt, eh.find_first_of(ep, pos, cnt), sh.find_first_of(sp, pos, cnt));
                                    subject = "find_last_of(ptr,pos,count)";
                                    cmp(subject, pos, cnt, eh.find_last_of(ep, pos, cnt), sh.find_last_of(sp, pos, cnt));
                                    subject = "find_first_not_of(ptr,pos,count)";
                                    cmp(subject, pos, cnt, eh.find_first_not_of(ep, pos, cnt), sh.find_first_not_of(sp, pos, cnt));
                                    subject = "find_last_not_of(ptr,pos,count)";
                                    cmp(subject, pos, cnt, eh.find_last_not_of(ep, pos, cnt), sh.find_last_not_of(sp, pos, cnt));
                                }
                                if (!N.has_nul) {
                                    Char const* ez = N.z->data();
                                    Char const* sz = N.s.c_str();
                                    subject        = "find(cstr,pos)";
                                    cmp(subject, pos, 0, eh.find(ez, pos), sh.find(sz, pos));
                                    subject = "rfind(cstr,pos)";
                                    cmp(subject, pos, 0, eh.rfind(ez, pos), sh.rfind(sz, pos));
                                    subject = "find_first_of(cstr,pos)";
                                    cmp(subject, pos, 0, eh.find_first_of(ez, pos), sh.find_first_of(sz, pos));
                                    subject = "find_last_of(cstr,pos)";
                                    cmp(subject, pos, 0, eh.find_last_of(ez, pos), sh.find_last_of(sz, pos));
                                    subject = "find_first_not_of(cstr,pos)";
                                    cmp(subject, pos, 0, eh.find_first_not_of(ez, pos), sh.find_first_not_of(sz, pos));
                                    subject = "find_last_not_of(cstr,pos)";
                                    cmp(subject, pos, 0, eh.find_last_not_of(ez, pos), sh.find_last_not_of(sz, pos));
                                }
                            }
                        }
                        cur_pos = 0;
                        // default-argument forms
                        subject = "find(sv)";
                        cmp(subject, 0, 0, eh.find(en), sh.find(sn));
                        subject = "rfind(sv)";
                        cmp(subject, npos, 0, eh.rfind(en), sh.rfind(sn));
                        subject = "find_first_of(sv)";
                        cmp(subject, 0, 0, eh.find_first_of(en), sh.find_first_of(sn));
                        subject = "find_last_of(sv)";
                        cmp(subject, npos, 0, eh.find_last_of(en), sh.find_last_of(sn));
                        subject = "find_first_not_of(sv)";
                        cmp(subject, 0, 0, eh.find_first_not_of(en), sh.find_first_not_of(sn));
                        subject = "find_last_not_of(sv)";
                        cmp(subject, npos, 0, eh.find_last_not_of(en), sh.find_last_not_of(sn));
                        subject = "starts_with(sv)";
                        cmp(subject, 0, 0, eh.starts_with(en), sh.starts_with(sn));
                        subject = "ends_with(sv)";
                        cmp(subject, 0, 0, eh.ends_with(en), sh.ends_with(sn));
                        subject = "contains(sv)";
                        cmp(subject, 0, 0, eh.contains(en), sh.find(sn) != npos);
                        subject = "compare(sv)";
                        cmp(subject, 0, 0, sign(eh.compare(en)), sign(sh.compare(sn)));
                        if (!nullNeedle && !N.has_nul) {
                            Char const* ez = N.z->data();
                            Char const* sz = N.s.c_str();
                            subject        = "starts_with(cstr)";
                            cmp(subject, 0, 0, eh.starts_with(ez), sh.starts_with(sz));
                            subject = "ends_with(cstr)";
                            cmp(subject, 0, 0, eh.ends_with(ez), sh.ends_with(sz));
                            subject = "contains(cstr)";
                            cmp(subject, 0, 0, eh.contains(ez), sh.find(sz) != npos);
                            subject = "compare(cstr)";
                            cmp(subject, 0, 0, sign(eh.compare(ez)), sign(sh.compare(sz)));
                        }
                        subject = "operator==";
                        cmp(subject, 0, 0, eh == en, sh == sn);
                        subject = "operator!=";
                        cmp(subject, 0, 0, eh != en, sh != sn);
                        subject = "operator<";
                        cmp(subject, 0, 0, eh < en, sh < sn);
                        subject = "operator<=";
                        cmp(subject, 0, 0, eh <= en, sh <= sn);
                        subject = "operator>";
                        cmp(subject, 0, 0, eh > en, sh > sn);
                        subject = "operator>=";
                        cmp(subject, 0, 0, eh >= en, sh >= sn);
                        // compare with sub-ranges: pos1 <= size (std throws beyond), every count
                        for (std::size_t p1 = 0; p1 <= hl; ++p1) {
                            for (std::size_t c1 : {std::size_t(0), std::size_t(1), std::size_t(2), hl, hl + 1, npos}) {
                                cur_pos = p1;
                                cur_cnt = c1;
                                subject = "compare(pos1,count1,sv)";
                                cmp(subject, p1, c1, sign(eh.compare(p1, c1, en)), sign(sh.compare(p1, c1, sn)));
                                if (!nullNeedle) {
                                    if (!N.has_nul) {
                                        subject = "compare(pos1,count1,cstr)";
                                        cmp(subject, p1, c1, sign(eh.compare(p1, c1, N.z->data())), sign(sh.compare(p1, c1, N.s.c_str())));
                                    }
                                    for (std::size_t c2 = 0; c2 <= nl; ++c2) {
                                        subject = "compare(pos1,count1,ptr,count2)";
                                        cmp(subject, p1, c1, sign(eh.compare(p1, c1, N.blk->data(), c2)), sign(sh.compare(p1, c1, N.s.data(), c2)));
                                    }
                                }
                                for (std::size_t p2 = 0; p2 <= nl; ++p2) {
                                    for (std::size_t c2 : {std::size_t(0), std::size_t(1), nl, nl + 1, npos}) {
                                        subject = "compare(pos1,count1,sv,pos2,count2)";
                                        cmp(subject, p1, c1, sign(eh.compare(p1, c1, en, p2, c2)), sign(sh.compare(p1, c1, sn, p2, c2)));
                                    }
                                }
                            }
                        }
                    });
                    if (t != mc::Trap::none) {
                        bool const contract = (t == mc::Trap::assert_fired);
                        r.violation(contract ? "C05" : "C02", cat("basic_string_view::", subject), cat(cls(cur_pos), "/", mc::trap_name(t)),
                            kase(cur_pos, cur_cnt), mc::describe_trap(t));
                    }
                }
            }

            // single-character forms, substr, copy, remove_prefix/suffix, element access
            auto kase1 = [&](std::string const& what) { return cat(T, " hay=", nullHay ? std::string("<null view>") : show(H.s), " ", what); };
            auto cls1  = [&](std::size_t pos) {
                std::string c = hl == 0 ? (nullHay ? "hay_null" : "hay_empty") : "";
                if (pos == npos) {
                    c += c.empty() ? "pos_npos" : "+pos_npos";
                } else if (pos > hl) {
                    c += c.empty() ? "pos_gt_size" : "+pos_gt_size";
                } else if (pos == hl) {
                    c += c.empty() ? "pos_eq_size" : "+pos_eq_size";
                }
                return c.empty() ? std::string("general") : c;
            };
            std::string what;
            std::size_t wpos = 0;
            auto cmp1 = [&](char const* subj, std::size_t pos, auto got, auto want) {
                ++evals;
                if (!(got == want)) { r.violation("C08", cat("basic_string_view::", subj), cls1(pos), kase1(what), cat("tetl=", got, " std=", want)); }
                auto const now = mc::san_hits();
                if (now != san) {
                    san = now;
                    r.violation("C02", cat("basic_string_view::", subj), cls1(pos), kase1(what), "ASan/UBSan report (see job log)");
                }
            };
            mc::Trap t = mc::guarded([&] {
                for (Char c : singles) {
                    for (std::size_t pos : positions) {
                        wpos    = pos;
                        what    = cat("ch=", mc::show_chars(&c, &c + 1), " pos=", show_pos(pos));
                        subject = "find(ch,pos)";
                        cmp1(subject, pos, eh.find(c, pos), sh.find(c, pos));
                        subject = "rfind(ch,pos)";
                        cmp1(subject, pos, eh.rfind(c, pos), sh.rfind(c, pos));
                        subject = "find_first_of(ch,pos)";
                        cmp1(subject, pos, eh.find_first_of(c, pos), sh.find_first_of(c, pos));
                        subject = "find_last_of(ch,pos)";
                        cmp1(subject, pos, eh.find_last_of(c, pos), sh.find_last_of(c, pos));
                        subject = "find_first_not_of(ch,pos)";
                        cmp1(subject, pos, eh.find_first_not_of(c, pos), sh.find_first_not_of(c, pos));
                        subject = "find_last_not_of(ch,pos)";
                        cmp1(subject, pos, eh.find_last_not_of(c, pos), sh.find_last_not_of(c, pos));
                    }
                    wpos    = 0;
                    what    = cat("ch=", mc::show_chars(&c, &c + 1));
                    subject = "find(ch)";
                    cmp1(subject, 0, eh.find(c), sh.find(c));
                    subject = "rfind(ch)";
                    cmp1(subject, npos, eh.rfind(c), sh.rfind(c));
                    subject = "find_last_of(ch)";
                    cmp1(subject, npos, eh.find_last_of(c), sh.find_last_of(c));
                    subject = "find_last_not_of(ch)";
                    cmp1(subject, npos, eh.find_last_not_of(c), sh.find_last_not_of(c));
                    subject = "starts_with(ch)";
                    cmp1(subject, 0, eh.starts_with(c), sh.starts_with(c));
                    subject = "ends_with(ch)";
                    cmp1(subject, 0, eh.ends_with(c), sh.ends_with(c));
                    subject = "contains(ch)";
                    cmp1(subject, 0, eh.contains(c), sh.find(c) != npos);
                }
                for (std::size_t pos = 0; pos <= hl; ++pos) {
                    for (std::size_t cnt : {std::size_t(0), std::size_t(1), std::size_t(2), hl, hl + 1, npos}) {
                        wpos    = pos;
                        what    = cat("pos=", pos, " count=", show_pos(cnt));
                        subject = "substr(pos,count)";
                        auto es = eh.substr(pos, cnt);
                        auto ss = sh.substr(pos, cnt);
                        cmp1(subject, pos, es.size(), ss.size());
                        cmp1(subject, pos, std::ptrdiff_t(es.data() - eh.data()), std::ptrdiff_t(ss.data() - sh.data()));
                        subject = "copy(dest,count,pos)";
                        auto const rc = std::min(cnt, hl - pos);
                        mc::GuardedBlock<Char> de(rc, 0x11);
                        std::basic_string<Char> ds(rc, Char(0x11));
                        auto eg = eh.copy(de.data(), cnt, pos);
                        auto sg = sh.copy(ds.data(), cnt, pos);
                        cmp1(subject, pos, eg, sg);
                        cmp1(subject, pos, std::equal(ds.begin(), ds.end(), de.data()), true);
                        if (!de.intact()) { r.violation("C02", "basic_string_view::copy(dest,count,pos)", cls1(pos), kase1(what), "wrote outside the destination"); }
                    }
                }
                for (std::size_t n = 0; n <= hl; ++n) {
                    wpos    = 0;
                    what    = cat("n=", n);
                    subject = "remove_prefix(n)";
                    {
                        auto e2 = eh;
                        auto s2 = sh;
                        e2.remove_prefix(n);
                        s2.remove_prefix(n);
                        cmp1(subject, 0, e2.size(), s2.size());
                        cmp1(subject, 0, std::ptrdiff_t(e2.data() - eh.data()), std::ptrdiff_t(s2.data() - sh.data()));
                    }
                    subject = "remove_suffix(n)";
                    {
                        auto e2 = eh;
                        auto s2 = sh;
                        e2.remove_suffix(n);
                        s2.remove_suffix(n);
                        cmp1(subject, 0, e2.size(), s2.size());
                        cmp1(subject, 0, std::ptrdiff_t(e2.data() - eh.data()), std::ptrdiff_t(s2.data() - sh.data()));
                    }
                }
                what    = "observers";
                subject = "size/empty/iterators";
                cmp1(subject, 0, eh.size(), sh.size());
                cmp1(subject, 0, eh.length(), sh.length());
                cmp1(subject, 0, eh.empty(), sh.empty());
                cmp1(subject, 0, std::size_t(eh.end() - eh.begin()), sh.size());
                cmp1(subject, 0, eh.data() == nullptr, sh.data() == nullptr);
                if (hl > 0) {
                    subject = "front/back/operator[]";
                    cmp1(subject, 0, eh.front() == sh.front(), true);
                    cmp1(subject, 0, eh.back() == sh.back(), true);
                    for (std::size_t i = 0; i < hl; ++i) { cmp1(subject, 0, eh[i] == sh[i], true); }
                    auto si = sh.rbegin();
                    for (auto it = eh.rbegin(); it != eh.rend(); ++it, ++si) { cmp1("reverse iteration", 0, *it == *si, true); }
                }
            });
            if (t != mc::Trap::none) {
                bool const contract = (t == mc::Trap::assert_fired);
                r.violation(contract ? "C05" : "C02", cat("basic_string_view::", subject), cat(cls1(wpos), "/", mc::trap_name(t)), kase1(what), mc::describe_trap(t));
            }
            if (r.wants_sample()) { r.sample(kase1("<all needles, all pos, all counts>")); }
        }
        if (r.deadline_passed()) {
            r.not_exhaustive("deadline");
            break;
        }
    }
    r.count("evaluations", evals);
    r.count("distinct_nontrivial", nontrivial);
    r.count("haystacks", hays.size());
    r.count("needles", needles.size());
    r.sample(cat(T, " hay=", show(hays.back().s), " needle=", show(needles[needles.size() / 2].s), " pos=0..", maxHay + 2, ",npos"));
}

template <typename Char>
void add(mc::Main& m, std::vector<std::string> tiers, int maxHay, int maxNeedle, bool withNul)
{
    m.job(cat(cname<Char>(), "/hay", maxHay, "/needle", maxNeedle, withNul ? "/nul" : ""), tiers, [=](mc::Reporter& r) {
        std::vector<Char> ha{Char('a'), Char('b')};
        if (withNul) { ha.push_back(Char(0)); }
        std::vector<Char> na = ha;
        std::vector<Char> singles{Char('a'), Char('b'), Char('c'), Char(0), Char(0x80)};
        sweep<Char>(r, ha, maxHay, na, maxNeedle, singles);
    });
}

// high-bit characters: ordering of char values >= 0x80 (compare and the relational operators)
template <typename Char>
void add_highbit(mc::Main& m, std::vector<std::string> tiers)
{
    m.job(cat(cname<Char>(), "/highbit"), tiers, [=](mc::Reporter& r) {
        std::vector<Char> ha{Char('a'), Char(0x80), Char(0xFF)};
        std::vector<Char> singles{Char('a'), Char(0x80), Char(0xFF)};
        sweep<Char>(r, ha, 2, ha, 2, singles);
    });
}

// wide code units whose value order and byte order disagree on a little-endian machine (0x0100 > 'a', but its
// first byte 0x00 < 0x61): added after seeded breakage c04_memcmp_char16_order (a memcmp fast path in
// char_traits::compare)
template <typename Char>
void add_wide(mc::Main& m, std::vector<std::string> tiers)
{
    m.job(cat(cname<Char>(), "/wide-units"), tiers, [=](mc::Reporter& r) {
        std::vector<Char> ha{Char('a'), Char(0x0100), Char(0x20AC)};
        std::vector<Char> singles{Char('a'), Char(0x0100), Char(0x20AC), Char(0xFF)};
        sweep<Char>(r, ha, 2, ha, 2, singles);
    });
    // code units that collide when truncated to 8 (and, for 32-bit units, 16) bits: 'a', 'a'+0x100, 'a'+0x10000
    // (added after seeded breakage c08_find_first_of_bitmap_low_byte: a 256-entry needle bitmap indexed with
    // static_cast<unsigned char>(haystack unit); needs a needle unit < 256 and a haystack unit >= 256 with the same
    // low byte - the earlier alphabets had no such pair)
    m.job(cat(cname<Char>(), "/truncation-collisions"), tiers, [=](mc::Reporter& r) {
        std::vector<Char> ha{Char('a'), Char(0x0161), Char('b')};
        if constexpr (sizeof(Char) >= 4) { ha.push_back(Char(0x10061)); }
        std::vector<Char> singles{Char('a'), Char(0x0161), Char(0x61 + 0x4e00), Char(0)};
        if constexpr (sizeof(Char) >= 4) { singles.push_back(Char(0x10061)); }
        sweep<Char>(r, ha, 2, ha, 2, singles);
    });
}

// longer, fixed strings (the statement's "randomised longer strings", replaced by an enumerated family): the haystack is
// every prefix of a 14-character pattern with many overlapping repeats, the needle every substring of the pattern up to
// length 5; positions as in the short sweep.  Reaches multi-match, overlapping-match and long-partial-match situations
// that strings of length <= 4 cannot contain.
template <typename Char>
void add_long(mc::Main& m, std::vector<std::string> tiers)
{
    m.job(cat(cname<Char>(), "/long-pattern"), tiers, [=](mc::Reporter& r) {
        using EV              = etl::basic_string_view<Char>;
        using SV              = std::basic_string_view<Char>;
        char const* pattern   = "aababbaabbabab";
        std::size_t const PL  = 14;
        constexpr auto npos   = std::size_t(-1);
        std::uint64_t evals = 0, nontrivial = 0;
        std::basic_string<Char> pat;
        for (std::size_t i = 0; i < PL; ++i) { pat.push_back(Char(pattern[i])); }
        for (std::size_t hl = 6; hl <= PL; ++hl) {
            for (std::size_t ho = 0; ho + hl <= PL && ho < 3; ++ho) {
                mc::GuardedBlock<Char> hb(hl);
                std::copy(pat.begin() + long(ho), pat.begin() + long(ho + hl), hb.data());
                std::basic_string<Char> hs(pat, ho, hl);
                EV const eh{hb.data(), hl};
                SV const sh{hs};
                for (std::size_t no = 0; no < PL; ++no) {
                    for (std::size_t nl = 1; nl <= 5 && no + nl <= PL; ++nl) {
                        mc::GuardedBlock<Char> nb(nl);
                        std::copy(pat.begin() + long(no), pat.begin() + long(no + nl), nb.data());
                        std::basic_string<Char> ns(pat, no, nl);
                        EV const en{nb.data(), nl};
                        SV const sn{ns};
                        for (std::size_t pos = 0; pos <= hl + 1; ++pos) {
                            std::size_t const p = pos == hl + 1 ? npos : pos;
                            auto kase = [&] { return cat(cname<Char>(), " hay=", show(hs), " needle=", show(ns), " pos=", show_pos(p)); };
                            auto cmp  = [&](char const* subj, auto got, auto want) {
                                ++evals;
                                if (!(got == want)) { r.violation("C08", cat("basic_string_view::", subj), "long_pattern", kase(), cat("tetl=", got, " std=", want)); }
                            };
                            auto const w = sh.find(sn, p);
                            if (w != npos) { ++nontrivial; }
                            cmp("find(sv,pos)", eh.find(en, p), w);
                            cmp("rfind(sv,pos)", eh.rfind(en, p), sh.rfind(sn, p));
                            cmp("find_first_of(sv,pos)", eh.find_first_of(en, p), sh.find_first_of(sn, p));
                            cmp("find_last_of(sv,pos)", eh.find_last_of(en, p), sh.find_last_of(sn, p));
                            cmp("find_first_not_of(sv,pos)", eh.find_first_not_of(en, p), sh.find_first_not_of(sn, p));
                            cmp("find_last_not_of(sv,pos)", eh.find_last_not_of(en, p), sh.find_last_not_of(sn, p));
                        }
                        ++evals;
                        if (eh.starts_with(en) != sh.starts_with(sn) || eh.ends_with(en) != sh.ends_with(sn) || eh.contains(en) != (sh.find(sn) != npos)
                            || sign(eh.compare(en)) != sign(sh.compare(sn))) {
                            r.violation("C08", "basic_string_view::starts_with/ends_with/contains/compare", "long_pattern",
                                cat(cname<Char>(), " hay=", show(hs), " needle=", show(ns)), "differs from std");
                        }
                        auto const now = mc::san_hits();
                        static std::uint64_t san = 0;
                        if (now != san) {
                            san = now;
                            r.violation("C02", "basic_string_view::<long pattern searches>", "long_pattern", cat(cname<Char>(), " hay=", show(hs), " needle=", show(ns)),
                                "ASan/UBSan report (see job log)");
                        }
                    }
                }
            }
        }
        r.sample(cat(cname<Char>(), " hay=prefixes of \"", pattern, "\" (length 6..14, offsets 0..2), needle=every substring of length 1..5, pos=0..len,npos"));
        r.count("evaluations", evals);
        r.count("distinct_nontrivial", nontrivial);
    });
}

} // namespace

// haystack and needle are views into ONE buffer (added after seeded breakage c08_starts_with_pointer_identity: a
// pointer-identity fast path `if (sv.data() == data()) return true;` in starts_with forgot sv.size() <= size(); every
// other job gives each view its own allocation, where data() never coincide).
// Enumerated: every ordered pair of sub-views [i,i+l) of an exact-size, unterminated 6-character buffer (28 sub-views
// incl. the 7 empty ones at every offset) x every two-view operation x pos in {0,1,2,size,npos}.
template <typename Char>
void add_same_buffer(mc::Main& m, std::vector<std::string> tiers)
{
    m.job(cat(cname<Char>(), "/same-buffer"), tiers, [=](mc::Reporter& r) {
        using EV            = etl::basic_string_view<Char>;
        using SV            = std::basic_string_view<Char>;
        constexpr auto npos = std::size_t(-1);
        char const* text    = "aabaab";
        std::size_t const L = 6;
        mc::GuardedBlock<Char> blk(L);
        for (std::size_t i = 0; i < L; ++i) { blk.data()[i] = Char(text[i]); }
        Char const* const b = blk.data();
        std::uint64_t evals = 0, nontrivial = 0;
        auto pos_of         = [](std::size_t p) { return p == npos ? -1L : long(p); };
        for (std::size_t i1 = 0; i1 <= L; ++i1) {
            for (std::size_t l1 = 0; i1 + l1 <= L; ++l1) {
                for (std::size_t i2 = 0; i2 <= L; ++i2) {
                    for (std::size_t l2 = 0; i2 + l2 <= L; ++l2) {
                        EV const eh(b + i1, l1), en(b + i2, l2);
                        SV const sh(b + i1, l1), sn(b + i2, l2);
                        std::string const cls  = i1 == i2 ? (l2 > l1 ? "same_start+needle_longer" : "same_start") : ((i2 >= i1 && i2 + l2 <= i1 + l1) ? "needle_inside_haystack" : "overlapping_or_disjoint");
                        auto const kase        = [&](char const* op, std::size_t pos) {
                            return cat(cname<Char>(), " buffer=\"", text, "\" hay=[", i1, ",", i1 + l1, ") needle=[", i2, ",", i2 + l2, ") ", op, pos == npos - 1 ? std::string() : cat(" pos=", pos_of(pos)));
                        };
                        auto check = [&](char const* subject, std::size_t pos, long e, long s) {
                            ++evals;
                            if (e != s) { r.violation("C08", cat("basic_string_view::", subject), cls, kase(subject, pos), cat("tetl ", e, " std ", s)); }
                        };
                        if (l1 > 0 && l2 > 0) { ++nontrivial; }
                        for (std::size_t pos : {std::size_t(0), std::size_t(1), std::size_t(2), l1, npos}) {
                            check("find(sv,pos)", pos, pos_of(eh.find(en, pos)), pos_of(sh.find(sn, pos)));
                            check("rfind(sv,pos)", pos, pos_of(eh.rfind(en, pos)), pos_of(sh.rfind(sn, pos)));
                            check("find_first_of(sv,pos)", pos, pos_of(eh.find_first_of(en, pos)), pos_of(sh.find_first_of(sn, pos)));
                            check("find_last_of(sv,pos)", pos, pos_of(eh.find_last_of(en, pos)), pos_of(sh.find_last_of(sn, pos)));
                            check("find_first_not_of(sv,pos)", pos, pos_of(eh.find_first_not_of(en, pos)), pos_of(sh.find_first_not_of(sn, pos)));
                            check("find_last_not_of(sv,pos)", pos, pos_of(eh.find_last_not_of(en, pos)), pos_of(sh.find_last_not_of(sn, pos)));
                        }
                        auto sgn = [](int c) { return long((c > 0) - (c < 0)); };
                        check("compare(sv)", npos - 1, sgn(eh.compare(en)), sgn(sh.compare(sn)));
                        check("starts_with(sv)", npos - 1, long(eh.starts_with(en)), long(sh.starts_with(sn)));
                        check("ends_with(sv)", npos - 1, long(eh.ends_with(en)), long(sh.ends_with(sn)));
                        check("contains(sv)", npos - 1, long(eh.contains(en)), long(sh.find(sn) != npos));
                        check("operator==", npos - 1, long(eh == en), long(sh == sn));
                        check("operator<", npos - 1, long(eh < en), long(sh < sn));
                        if (l1 > 0) {
                            check("starts_with(ch)", npos - 1, long(en.starts_with(eh.front())), long(sn.starts_with(sh.front())));
                            check("ends_with(ch)", npos - 1, long(en.ends_with(eh.back())), long(sn.ends_with(sh.back())));
                        }
                    }
                }
            }
        }
        if (!blk.intact()) { r.violation("C02", "basic_string_view (same buffer)", "canary", "sub-views of one buffer", "a const operation wrote to the buffer"); }
        r.sample(cat(cname<Char>(), ": all 28 x 28 ordered pairs of sub-views of one 6-character buffer x 37 calls"));
        r.count("evaluations", evals);
        r.count("distinct_nontrivial", nontrivial);
    });
}

int main(int argc, char** argv)
{
    mc::Main m(argc, argv);
    std::vector<std::string> const both{"quick", "thorough"};
    std::vector<std::string> const q{"quick"};
    std::vector<std::string> const th{"thorough"};
    add<char>(m, q, 4, 3, false);
    add<char>(m, q, 3, 2, true);
    add<char16_t>(m, q, 3, 2, false);
    add_highbit<char>(m, both);
    add_highbit<char8_t>(m, both);
    add_wide<char16_t>(m, both);
    add_wide<char32_t>(m, both);
    add_wide<wchar_t>(m, both);
    add_same_buffer<char>(m, both);
    add_same_buffer<wchar_t>(m, both);
    add_long<char>(m, both);
    add_long<char16_t>(m, both);
    add<char>(m, th, 8, 5, false);
    add<char>(m, th, 6, 4, false);
    add<char>(m, th, 5, 4, true);
    add<char16_t>(m, th, 7, 4, false);
    add<wchar_t>(m, th, 6, 4, false);
    add<char8_t>(m, th, 6, 4, false);
    add<char32_t>(m, th, 5, 3, true);
    add_highbit<wchar_t>(m, th);
    add_highbit<char16_t>(m, th);
    return m.run();
}
