// C20 (b): value categories and result types of pair / tuple for every combination of element kinds
// from {int, move-only, copy-only, int&, int const}: 25 pair<A,B>, 25 tuple<A,B> and three tuple<A,B,C>.
// For each combination, against std::pair / std::tuple with the SAME element types:
//   * result types of get<I> on & / const& / && / const&&, tuple_element_t, tuple_size_v
//   * element identity (reference elements alias their referent, get<I> names first/second)
//   * value categories and values a callable receives from apply, and a constructor from make_from_tuple,
//     for the tuple passed as & / const& / && / const&&
//   * copy / move construction, assignment, swap and the relational operators wherever both tetl and std
//     provide them (a disagreement about *whether* an operation exists is an API gap: it is written to the
//     evidence notes, never reported as a violation)
//   * tuple_cat result types and values (1-3 arguments), make_pair / make_tuple / tie / forward_as_tuple result
//     types incl. reference_wrapper arguments, etl::forward and etl::forward_like result types.
// Nothing here is sampled: the element-kind combinations are enumerated completely.
//
// API gaps (do not compile): assignment of pairs with reference elements; everything listed in c20_tuple_states.cpp.
// (Round 2: get<I> / apply / make_from_tuple on an rvalue pair or tuple with a reference element are exercised here
// now; tuple_cat with move-only elements, with reference elements in rvalue arguments and with several non-const
// lvalues is exercised in c20_tuple_forward.cpp.)
#include "c20_common.hpp"

#include <etl/utility.hpp> // first (see c20_tuple_states.cpp)

#include <etl/functional.hpp>
#include <etl/tuple.hpp>

#include <functional>
#include <optional>
#include <tuple>

using namespace c20;

namespace {

using MO = mc::Tracked<mc::move_only>;
using CO = mc::Tracked<mc::copy_only>;

template <typename...>
struct TL { };

int fp_dummy(int x);

template <typename T>
struct to_std {
    using type = T;
};
template <typename... X>
struct to_std<etl::tuple<X...>> {
    using type = std::tuple<X...>;
};
template <typename A, typename B>
struct to_std<etl::pair<A, B>> {
    using type = std::pair<A, B>;
};
template <typename T>
struct to_std<etl::reference_wrapper<T>> {
    using type = std::reference_wrapper<T>;
};
template <typename T>
using to_std_t = typename to_std<T>::type;

template <typename T>
std::string tn()
{
    std::string p = __PRETTY_FUNCTION__;
    auto b        = p.find("T = ");
    if (b == std::string::npos) { return p; }
    b += 4;
    auto e = p.find_first_of(";]", b);
    auto s = p.substr(b, e - b);
    // shorten the instrumented types
    for (auto const& [from, to] : {std::pair<std::string, std::string>{"mc::Tracked<1, 0>", "MoveOnly"}, {"mc::Tracked<2, 0>", "CopyOnly"}, {"mc::Tracked<1>", "MoveOnly"},
             {"mc::Tracked<2>", "CopyOnly"}}) {
        for (auto pos = s.find(from); pos != std::string::npos; pos = s.find(from, pos + to.size())) { s.replace(pos, from.size(), to); }
    }
    return s;
}

template <typename E>
std::string ename()
{
    if constexpr (std::is_same_v<E, int>) {
        return "int";
    } else if constexpr (std::is_same_v<E, MO>) {
        return "MoveOnly";
    } else if constexpr (std::is_same_v<E, CO>) {
        return "CopyOnly";
    } else if constexpr (std::is_same_v<E, int&>) {
        return "int&";
    } else if constexpr (std::is_same_v<E, int const>) {
        return "int const";
    } else {
        return tn<E>();
    }
}

// the initialiser expression for an element of kind E built from a cell
template <typename E>
decltype(auto) init(int& cell)
{
    if constexpr (std::is_same_v<E, int&>) {
        return (cell);
    } else if constexpr (std::is_same_v<E, MO> || std::is_same_v<E, CO>) {
        return E(cell);
    } else {
        return int(cell);
    }
}

template <typename... E>
std::string features()
{
    bool const ref  = (std::is_reference_v<E> || ...);
    bool const cst  = (std::is_const_v<E> || ...);
    bool const mo   = (std::is_same_v<E, MO> || ...);
    bool const co   = (std::is_same_v<E, CO> || ...);
    std::string out = "elements";
    if (ref) { out += "+ref"; }
    if (cst) { out += "+const"; }
    if (mo) { out += "+moveonly"; }
    if (co) { out += "+copyonly"; }
    return out;
}

// only what matters for access paths: reference and const elements
template <typename... E>
std::string rc_features()
{
    bool const ref  = (std::is_reference_v<E> || ...);
    bool const cst  = (std::is_const_v<E> || ...);
    std::string out = "";
    if (ref) { out += "+ref_element"; }
    if (cst) { out += "+const_element"; }
    return out;
}

struct Ck {
    mc::Reporter& r;
    std::string cfg;
    bool nontrivial;

    void tick()
    {
        r.count("evaluations");
        if (nontrivial) { r.count("distinct_nontrivial"); }
    }
    template <typename A, typename B>
    void eq(std::string const& subj, std::string const& cls, std::string const& what, A const& got, B const& want)
    {
        tick();
        r.outcome(mc::hash_str(cat(subj, "|", got)));
        if (!(got == want)) { r.violation("C20", subj, cls, cat(cfg, ": ", what), cat("tetl=", got, " std=", want)); }
    }
    template <typename Got, typename Want>
    void type(std::string const& subj, std::string const& cls, std::string const& what)
    {
        tick();
        r.count("type_checks");
        r.outcome(mc::hash_str(cat(subj, "|", tn<Got>())));
        if constexpr (!std::is_same_v<Got, Want>) { r.violation("C20", subj, cls, cat(cfg, ": ", what), cat("type tetl=", tn<Got>(), " std=", tn<Want>())); }
    }
    void gap(std::string const& fam, std::string const& what, bool etl_has, bool std_has)
    {
        r.count("api_presence_checks");
        if (etl_has != std_has) {
            static std::set<std::string> seen;
            auto const text = cat(fam, ": ", what, ": tetl=", etl_has ? "yes" : "no", " std=", std_has ? "yes" : "no");
            if (seen.insert(text).second) { r.note(cat("API difference (not a violation): ", text, " (first seen for ", cfg, ")")); }
        }
    }
    void lifetimes(std::string const& subj)
    {
        for (auto const& e : registry().take_errors()) { r.violation("C03", subj, cat("lifetime:", e), cfg, e); }
    }
};

template <std::size_t I, typename T>
decltype(auto) eget(T&& t)
{
    using etl::get;
    using std::get;
    return get<I>(std::forward<T>(t));
}

template <std::size_t N, typename T>
std::string tl_show(T const& t)
{
    return [&]<std::size_t... I>(std::index_sequence<I...>) {
        std::string o = "(";
        ((o += (I ? "," : "") + std::to_string(val(eget<I>(t)))), ...);
        return o + ")";
    }(std::make_index_sequence<N>{});
}

struct CatSink {
    std::string cats;
    template <typename... A>
    explicit CatSink(A&&... a) : cats(show_args(std::forward<A>(a)...))
    {
    }
};

template <typename A, typename B>
concept has_less = requires(A const& a, B const& b) { a < b; };
template <typename A, typename B>
concept has_eq = requires(A const& a, B const& b) { a == b; };
template <typename A>
concept has_member_swap = requires(A& a, A& b) { a.swap(b); };

// ---------------------------------------------------------------------------------------
// one element-kind combination, V = etl::pair / etl::tuple, S = the std type with the same elements
// ---------------------------------------------------------------------------------------
template <bool IsPair, typename... E>
struct Combo {
    static constexpr std::size_t N = sizeof...(E);
    using V                        = std::conditional_t<IsPair, etl::pair<std::tuple_element_t<0, std::tuple<E...>>, std::tuple_element_t<N - 1, std::tuple<E...>>>, etl::tuple<E...>>;
    using S                        = to_std_t<V>;
    using Seq                      = std::make_index_sequence<N>;
    static constexpr bool has_ref  = (std::is_reference_v<E> || ...);
    static constexpr bool has_const = (std::is_const_v<E> || ...); // swap of const elements is ill-formed on both sides (hard error, not SFINAE)
    static constexpr bool copyable = (std::is_copy_constructible_v<E> && ...);
    // round 2: rvalue access to pairs / tuples with reference elements compiles since get<I>(X&&) was repaired (it used
    // to be an API gap and was skipped for every combination with an int& element)
    static constexpr bool rvalue_get_callable = true;
    static constexpr bool rvalue_get_decltype = true;

    static std::string name()
    {
        std::string o = IsPair ? "pair<" : "tuple<";
        std::size_t i = 0;
        ((o += (i++ ? "," : "") + ename<E>()), ...);
        return o + ">";
    }
    static std::string fam() { return IsPair ? "pair" : "tuple"; }

    template <std::size_t I>
    static void get_types(Ck& ck)
    {
        using EI               = std::tuple_element_t<I, std::tuple<E...>>;
        std::string const cls  = "element_" + ename<EI>();
        std::string const subj = cat("get<I>(", fam(), ")");
        ck.type<decltype(etl::get<I>(std::declval<V&>())), decltype(std::get<I>(std::declval<S&>()))>(subj, cls, cat("get<", I, ">(X&)"));
        ck.type<decltype(etl::get<I>(std::declval<V const&>())), decltype(std::get<I>(std::declval<S const&>()))>(subj, cls, cat("get<", I, ">(X const&)"));
        if constexpr (rvalue_get_decltype) {
            ck.type<decltype(etl::get<I>(std::declval<V&&>())), decltype(std::get<I>(std::declval<S&&>()))>(subj, cls, cat("get<", I, ">(X&&)"));
            ck.type<decltype(etl::get<I>(std::declval<V const&&>())), decltype(std::get<I>(std::declval<S const&&>()))>(subj, cls, cat("get<", I, ">(X const&&)"));
        }
        ck.type<etl::tuple_element_t<I, V>, std::tuple_element_t<I, S>>(cat("tuple_element<I,", fam(), ">"), cls, cat("tuple_element_t<", I, ">"));
        ck.type<etl::tuple_element_t<I, V const>, std::tuple_element_t<I, S const>>(cat("tuple_element<I,", fam(), ">"), cls, cat("tuple_element_t<", I, ", X const>"));
    }

    template <std::size_t I>
    static void get_identity(Ck& ck, V& v, S& s, int* vcells, int* scells)
    {
        using EI               = std::tuple_element_t<I, std::tuple<E...>>;
        std::string const cls  = "element_" + ename<EI>();
        std::string const subj = cat("get<I>(", fam(), ")");
        auto& a                = etl::get<I>(v);
        auto& b                = std::get<I>(s);
        ck.eq(subj, cls, cat("get<", I, "> value"), val(a), val(b));
        auto const& ca = etl::get<I>(std::as_const(v));
        ck.eq(subj, cls, cat("get<", I, ">(const&) names the same object"), static_cast<void const*>(&ca) == static_cast<void const*>(&a), true);
        if constexpr (std::is_reference_v<EI>) {
            ck.eq(subj, cls, cat("get<", I, "> aliases the referent"), static_cast<void const*>(&a) == static_cast<void const*>(&vcells[I]),
                static_cast<void const*>(&b) == static_cast<void const*>(&scells[I]));
        }
        if constexpr (rvalue_get_callable) {
            auto&& ra = etl::get<I>(std::move(v));
            ck.eq(subj, cls, cat("get<", I, ">(&&) names the same object"), static_cast<void const*>(&ra) == static_cast<void const*>(&a), true);
            auto&& rc = etl::get<I>(std::move(std::as_const(v)));
            ck.eq(subj, cls, cat("get<", I, ">(const&&) names the same object"), static_cast<void const*>(&rc) == static_cast<void const*>(&a), true);
        }
    }

    static void run(mc::Reporter& r)
    {
        Ck ck{r, name(), !(std::is_same_v<E, int> && ...)};
        std::string const feat = features<E...>();
        std::string const rc   = rc_features<E...>();
        r.count("configurations");
        if (r.wants_sample()) { r.sample(cat(name(), ": get/tuple_element types, apply + make_from_tuple categories on 4 value categories, construct/assign/swap/compare")); }

        // ---- compile-time facts --------------------------------------------------------
        [&]<std::size_t... I>(std::index_sequence<I...>) { (get_types<I>(ck), ...); }(Seq{});
        ck.eq(cat("tuple_size<", fam(), ">"), feat, "tuple_size_v", etl::tuple_size_v<V>, std::tuple_size_v<S>);
        ck.gap(fam(), "default constructible", std::is_default_constructible_v<V>, std::is_default_constructible_v<S>);
        ck.gap(fam(), "copy constructible", std::is_copy_constructible_v<V>, std::is_copy_constructible_v<S>);
        ck.gap(fam(), "move constructible", std::is_move_constructible_v<V>, std::is_move_constructible_v<S>);
        ck.gap(fam(), "copy assignable", std::is_copy_assignable_v<V>, std::is_copy_assignable_v<S>);
        ck.gap(fam(), "move assignable", std::is_move_assignable_v<V>, std::is_move_assignable_v<S>);
        if constexpr (!has_const) { ck.gap(fam(), "member swap", has_member_swap<V>, has_member_swap<S>); }
        ck.gap(fam(), "operator==", has_eq<V, V>, has_eq<S, S>);
        ck.gap(fam(), "operator<", has_less<V, V>, has_less<S, S>);
        ck.gap(fam(), "constructible from (E&&...)", std::is_constructible_v<V, decltype(init<E>(std::declval<int&>()))...>,
            std::is_constructible_v<S, decltype(init<E>(std::declval<int&>()))...>);

        // ---- objects ---------------------------------------------------------------------
        int vcells[3] = {11, 22, 33};
        int scells[3] = {11, 22, 33};
        auto mkv      = [&](int* c) { return [&]<std::size_t... I>(std::index_sequence<I...>) { return V(init<E>(c[I])...); }(Seq{}); };
        auto mks      = [&](int* c) { return [&]<std::size_t... I>(std::index_sequence<I...>) { return S(init<E>(c[I])...); }(Seq{}); };
        V v           = mkv(vcells);
        S s           = mks(scells);
        ck.eq(cat(fam(), "::", fam(), "(U&&...)"), feat, "values after construction from (E&&...)", tl_show<N>(v), tl_show<N>(s));
        [&]<std::size_t... I>(std::index_sequence<I...>) { (get_identity<I>(ck, v, s, vcells, scells), ...); }(Seq{});
        if constexpr (IsPair) {
            auto& [a, b] = v;
            ck.eq("pair structured bindings", feat, "auto& [a,b] names first and second",
                static_cast<void const*>(&a) == static_cast<void const*>(&v.first) && static_cast<void const*>(&b) == static_cast<void const*>(&v.second), true);
            ck.type<decltype(a), typename V::first_type>("pair structured bindings", feat, "decltype(a)");
            ck.type<decltype(b), typename V::second_type>("pair structured bindings", feat, "decltype(b)");
        }

        // ---- apply / make_from_tuple: categories ----------------------------------------
        {
            std::string li, ls;
            auto fi = [&](auto&&... x) { li = show_args(std::forward<decltype(x)>(x)...); };
            auto fs = [&](auto&&... x) { ls = show_args(std::forward<decltype(x)>(x)...); };
            std::string const subj = cat("apply(F&&,", fam(), ")");
            etl::apply(fi, v);
            std::apply(fs, s);
            ck.eq(subj, "tuple_&" + rc, "apply(f, X&): arguments", li, ls);
            etl::apply(fi, std::as_const(v));
            std::apply(fs, std::as_const(s));
            ck.eq(subj, "tuple_const&" + rc, "apply(f, X const&): arguments", li, ls);
            if constexpr (rvalue_get_callable) {
                etl::apply(fi, std::move(v));
                std::apply(fs, std::move(s));
                ck.eq(subj, "tuple_&&" + rc, "apply(f, X&&): arguments", li, ls);
                etl::apply(fi, std::move(std::as_const(v)));
                std::apply(fs, std::move(std::as_const(s)));
                ck.eq(subj, "tuple_const&&" + rc, "apply(f, X const&&): arguments", li, ls);
            }
            std::string const subj2 = cat("make_from_tuple<T>(", fam(), ")");
            ck.eq(subj2, "tuple_&" + rc, "make_from_tuple(X&)", etl::make_from_tuple<CatSink>(v).cats, std::make_from_tuple<CatSink>(s).cats);
            ck.eq(subj2, "tuple_const&" + rc, "make_from_tuple(X const&)", etl::make_from_tuple<CatSink>(std::as_const(v)).cats, std::make_from_tuple<CatSink>(std::as_const(s)).cats);
            if constexpr (rvalue_get_callable) {
                ck.eq(subj2, "tuple_&&" + rc, "make_from_tuple(X&&)", etl::make_from_tuple<CatSink>(std::move(v)).cats, std::make_from_tuple<CatSink>(std::move(s)).cats);
                ck.eq(subj2, "tuple_const&&" + rc, "make_from_tuple(X const&&)", etl::make_from_tuple<CatSink>(std::move(std::as_const(v))).cats,
                    std::make_from_tuple<CatSink>(std::move(std::as_const(s))).cats);
            }
        }

        // ---- copy / move construction ----------------------------------------------------
        if constexpr (std::is_copy_constructible_v<V> && std::is_copy_constructible_v<S>) {
            V v2(std::as_const(v));
            S s2(std::as_const(s));
            ck.eq(cat(fam(), "::", fam(), "(", fam(), " const&)"), feat, "copy", tl_show<N>(v2), tl_show<N>(s2));
            ck.eq(cat(fam(), "::", fam(), "(", fam(), " const&)"), feat, "source after copy", tl_show<N>(v), tl_show<N>(s));
        }
        if constexpr (std::is_move_constructible_v<V> && std::is_move_constructible_v<S>) {
            int c1[3] = {4, 5, 6};
            int c2[3] = {4, 5, 6};
            V a       = mkv(c1);
            S b       = mks(c2);
            V a2(std::move(a));
            S b2(std::move(b));
            ck.eq(cat(fam(), "::", fam(), "(", fam(), "&&)"), feat, "move target", tl_show<N>(a2), tl_show<N>(b2));
            ck.eq(cat(fam(), "::", fam(), "(", fam(), "&&)"), feat, "move source", tl_show<N>(a), tl_show<N>(b));
        }
        // ---- assignment / swap / relational: only where both sides provide the operation ------
        {
            int c1[3] = {1, 2, 3}, c2[3] = {1, 2, 3}, d1[3] = {7, 8, 9}, d2[3] = {7, 8, 9};
            V a = mkv(c1);
            S b = mks(c2);
            V x = mkv(d1);
            S y = mks(d2);
            auto cells = [&] { return cat(mc::show_seq(std::vector<int>(c1, c1 + N)), mc::show_seq(std::vector<int>(d1, d1 + N))); };
            auto cells2 = [&] { return cat(mc::show_seq(std::vector<int>(c2, c2 + N)), mc::show_seq(std::vector<int>(d2, d2 + N))); };
            if constexpr (!has_const) {
                a.swap(x);
                b.swap(y);
                ck.eq(cat(fam(), "::swap(", fam(), "&)"), feat, "values after swap", tl_show<N>(a) + tl_show<N>(x), tl_show<N>(b) + tl_show<N>(y));
                ck.eq(cat(fam(), "::swap(", fam(), "&)"), feat, "referents after swap", cells(), cells2());
                a.swap(a);
                b.swap(b);
                ck.eq(cat(fam(), "::swap(", fam(), "&)"), "self/" + feat, "values after self swap", tl_show<N>(a), tl_show<N>(b));
            }
            if constexpr (std::is_copy_assignable_v<V> && std::is_copy_assignable_v<S>) {
                a = std::as_const(x);
                b = std::as_const(y);
                ck.eq(cat(fam(), "::operator=(", fam(), " const&)"), feat, "values after copy assignment", tl_show<N>(a) + tl_show<N>(x), tl_show<N>(b) + tl_show<N>(y));
                ck.eq(cat(fam(), "::operator=(", fam(), " const&)"), feat, "referents after copy assignment", cells(), cells2());
            }
            if constexpr (std::is_move_assignable_v<V> && std::is_move_assignable_v<S>) {
                a = std::move(x);
                b = std::move(y);
                ck.eq(cat(fam(), "::operator=(", fam(), "&&)"), feat, "values after move assignment", tl_show<N>(a) + tl_show<N>(x), tl_show<N>(b) + tl_show<N>(y));
                ck.eq(cat(fam(), "::operator=(", fam(), "&&)"), feat, "referents after move assignment", cells(), cells2());
            }
            if constexpr (has_eq<V, V> && has_eq<S, S>) {
                ck.eq(cat(fam(), " relational operators"), feat, "a == x", a == x, b == y);
                ck.eq(cat(fam(), " relational operators"), feat, "a != x", a != x, b != y);
                ck.eq(cat(fam(), " relational operators"), feat, "a == a", a == a, b == b);
            }
            if constexpr (has_less<V, V> && has_less<S, S>) {
                ck.eq(cat(fam(), " relational operators"), feat, "a < x", a < x, b < y);
                ck.eq(cat(fam(), " relational operators"), feat, "x < a", x < a, y < b);
                ck.eq(cat(fam(), " relational operators"), feat, "a <= x", a <= x, b <= y);
                ck.eq(cat(fam(), " relational operators"), feat, "a >= x", a >= x, b >= y);
                ck.eq(cat(fam(), " relational operators"), feat, "a > x", a > x, b > y);
            }
        }

        // ---- tuple_cat ---------------------------------------------------------------------
        {
            std::string const subj = cat("tuple_cat(", fam(), "...)");
            // one lvalue argument compiles for every copyable combination
            if constexpr (copyable) {
                using R1 = decltype(etl::tuple_cat(v));
                ck.type<to_std_t<R1>, decltype(std::tuple_cat(s))>(subj, "elements" + rc, "tuple_cat(X&) result type");
                auto r1 = etl::tuple_cat(v);
                auto q1 = std::tuple_cat(s);
                ck.eq(subj, "elements" + rc, "tuple_cat(X&) values", tl_show<N>(r1), tl_show<N>(q1));
                if constexpr (has_ref) {
                    // a reference element of the result must still alias the referent
                    [&]<std::size_t... I>(std::index_sequence<I...>) {
                        ((std::is_reference_v<E> ? ck.eq(subj, "elements" + rc, cat("tuple_cat(X&): element ", I, " aliases the referent"),
                                                        static_cast<void const*>(&etl::get<I>(r1)) == static_cast<void const*>(&vcells[I]),
                                                        static_cast<void const*>(&std::get<I>(q1)) == static_cast<void const*>(&scells[I]))
                                                  : void()),
                            ...);
                    }(Seq{});
                }
                using R1c = decltype(etl::tuple_cat(std::as_const(v)));
                ck.type<to_std_t<R1c>, decltype(std::tuple_cat(std::as_const(s)))>(subj, "elements" + rc, "tuple_cat(X const&) result type");
            }
            if constexpr (copyable && !has_ref) {
                using R2c = decltype(etl::tuple_cat(std::as_const(v), std::as_const(v)));
                ck.type<to_std_t<R2c>, decltype(std::tuple_cat(std::as_const(s), std::as_const(s)))>(subj, "elements" + rc, "tuple_cat(X const&, X const&) result type");
                auto r2 = etl::tuple_cat(std::as_const(v), std::as_const(v));
                auto q2 = std::tuple_cat(std::as_const(s), std::as_const(s));
                ck.eq(subj, "elements" + rc, "tuple_cat(X const&, X const&) values", tl_show<2 * N>(r2), tl_show<2 * N>(q2));
            }
            if constexpr (copyable && !has_ref) {
                using R2 = decltype(etl::tuple_cat(std::declval<V&&>(), std::declval<V&&>()));
                ck.type<to_std_t<R2>, decltype(std::tuple_cat(std::declval<S&&>(), std::declval<S&&>()))>(subj, "elements" + rc, "tuple_cat(X&&, X&&) result type");
                using R3 = decltype(etl::tuple_cat(std::declval<V&&>(), std::declval<V const&>(), std::declval<V&&>()));
                ck.type<to_std_t<R3>, decltype(std::tuple_cat(std::declval<S&&>(), std::declval<S const&>(), std::declval<S&&>()))>(subj, "elements" + rc, "tuple_cat(X&&, X const&, X&&) result type");
                int c1[3] = {1, 2, 3}, c2[3] = {1, 2, 3};
                auto r3 = etl::tuple_cat(mkv(c1), std::as_const(v), mkv(c1));
                auto q3 = std::tuple_cat(mks(c2), std::as_const(s), mks(c2));
                ck.eq(subj, "elements" + rc, "tuple_cat(X&&, X const&, X&&) values", tl_show<3 * N>(r3), tl_show<3 * N>(q3));
            }
        }
        ck.lifetimes(cat(fam(), " (", name(), ")"));
    }
};

using Kinds = TL<int, MO, CO, int&, int const>;

template <bool IsPair, typename A, typename... B>
void row(mc::Reporter& r, TL<B...>)
{
    (Combo<IsPair, A, B>::run(r), ...);
}
template <bool IsPair, typename... A>
void matrix(mc::Reporter& r, TL<A...>)
{
    (row<IsPair, A>(r, Kinds{}), ...);
}

// ---------------------------------------------------------------------------------------
// factories: make_pair / make_tuple / tie / forward_as_tuple
// ---------------------------------------------------------------------------------------
void factories(mc::Reporter& r)
{
    Ck ck{r, "factories", true};
    r.count("configurations");
    int i        = 1;
    int const ci = 2;
    short h      = 3;
    MO mo(4);
    CO co(5);
    // make_pair: decay, reference_wrapper unwrapping
    ck.type<to_std_t<decltype(etl::make_pair(i, ci))>, decltype(std::make_pair(i, ci))>("make_pair(T1&&,T2&&)", "lvalue_args", "make_pair(int&, int const&)");
    ck.type<to_std_t<decltype(etl::make_pair(1, MO(1)))>, decltype(std::make_pair(1, MO(1)))>("make_pair(T1&&,T2&&)", "rvalue_args", "make_pair(int, MoveOnly)");
    ck.type<to_std_t<decltype(etl::make_pair(co, h))>, decltype(std::make_pair(co, h))>("make_pair(T1&&,T2&&)", "lvalue_args", "make_pair(CopyOnly&, short&)");
    ck.type<to_std_t<decltype(etl::make_pair("ab", fp_dummy))>, decltype(std::make_pair("ab", fp_dummy))>("make_pair(T1&&,T2&&)", "array_and_function_args", "make_pair(char const(&)[3], int(&)(int))");
    ck.type<to_std_t<decltype(etl::make_pair(etl::ref(i), etl::cref(i)))>, decltype(std::make_pair(std::ref(i), std::cref(i)))>("make_pair(T1&&,T2&&)", "reference_wrapper_args",
        "make_pair(ref(i), cref(i))");
    ck.type<to_std_t<decltype(etl::make_pair(etl::ref(i), 2))>, decltype(std::make_pair(std::ref(i), 2))>("make_pair(T1&&,T2&&)", "reference_wrapper_args", "make_pair(ref(i), 2)");
    {
        auto p = etl::make_pair(i, MO(7));
        auto q = std::make_pair(i, MO(7));
        ck.eq("make_pair(T1&&,T2&&)", "rvalue_args", "values", cat(p.first, ",", p.second.value()), cat(q.first, ",", q.second.value()));
    }
    // make_tuple
    ck.type<to_std_t<decltype(etl::make_tuple(i, ci, 3))>, decltype(std::make_tuple(i, ci, 3))>("make_tuple(Args&&...)", "lvalue_args", "make_tuple(int&, int const&, int)");
    ck.type<to_std_t<decltype(etl::make_tuple(MO(1), co))>, decltype(std::make_tuple(MO(1), co))>("make_tuple(Args&&...)", "rvalue_args", "make_tuple(MoveOnly, CopyOnly&)");
    ck.type<to_std_t<decltype(etl::make_tuple(etl::ref(i), etl::cref(i), 1))>, decltype(std::make_tuple(std::ref(i), std::cref(i), 1))>("make_tuple(Args&&...)", "reference_wrapper_args",
        "make_tuple(ref(i), cref(i), 1)");
    ck.type<to_std_t<decltype(etl::make_tuple("ab", fp_dummy))>, decltype(std::make_tuple("ab", fp_dummy))>("make_tuple(Args&&...)", "array_and_function_args", "make_tuple(char const(&)[3], int(&)(int))");
    {
        auto t = etl::make_tuple(etl::ref(i), 5);
        auto u = std::make_tuple(std::ref(i), 5);
        ck.eq("make_tuple(Args&&...)", "reference_wrapper_args", "element 0 aliases the referent", static_cast<void const*>(&etl::get<0>(t)) == static_cast<void const*>(&i),
            static_cast<void const*>(&std::get<0>(u)) == static_cast<void const*>(&i));
        ck.eq("make_tuple(Args&&...)", "reference_wrapper_args", "values", tl_show<2>(t), tl_show<2>(u));
    }
    // tie
    ck.type<to_std_t<decltype(etl::tie(i, ci, mo))>, decltype(std::tie(i, ci, mo))>("tie(Args&...)", "general", "tie(int&, int const&, MoveOnly&)");
    {
        auto t = etl::tie(i, h);
        ck.eq("tie(Args&...)", "general", "elements alias the arguments",
            static_cast<void const*>(&etl::get<0>(t)) == static_cast<void const*>(&i) && static_cast<void const*>(&etl::get<1>(t)) == static_cast<void const*>(&h), true);
        etl::get<0>(t) = 42;
        ck.eq("tie(Args&...)", "general", "write through", i, 42);
        i = 1;
    }
    // forward_as_tuple
    ck.type<to_std_t<decltype(etl::forward_as_tuple(i, ci, 3, std::move(mo)))>, decltype(std::forward_as_tuple(i, ci, 3, std::move(mo)))>("forward_as_tuple(Args&&...)", "general",
        "forward_as_tuple(int&, int const&, int&&, MoveOnly&&)");
    {
        auto&& t = etl::forward_as_tuple(i, std::move(h));
        ck.eq("forward_as_tuple(Args&&...)", "general", "elements alias the arguments",
            static_cast<void const*>(&etl::get<0>(t)) == static_cast<void const*>(&i) && static_cast<void const*>(&etl::get<1>(t)) == static_cast<void const*>(&h), true);
        ck.type<decltype(etl::get<1>(t)), decltype(std::get<1>(std::declval<std::tuple<int&, short&&>&>()))>("get<I>(tuple)", "element_rvalue_ref", "get<1>(tuple<int&,short&&>&)");
        ck.type<decltype(etl::get<0>(std::as_const(t))), decltype(std::get<0>(std::declval<std::tuple<int&, short&&> const&>()))>("get<I>(tuple)", "element_int&",
            "get<0>(tuple<int&,short&&> const&)");
    }
    // ignore
    {
        etl::ignore = 5;
        etl::ignore = mo;
        ck.eq("ignore", "general", "assignment to ignore compiles and does nothing", mo.value(), 4);
    }
    ck.lifetimes("factories");
}

// ---------------------------------------------------------------------------------------
// etl::forward / etl::forward_like result types
// ---------------------------------------------------------------------------------------
template <typename T, typename U>
struct fwd_like_expected {
    using UR                     = std::remove_reference_t<U>;
    using CU                     = std::conditional_t<std::is_const_v<std::remove_reference_t<T>>, UR const, UR>;
    using type                   = std::conditional_t<std::is_lvalue_reference_v<T&&>, CU&, CU&&>;
};

template <typename T>
void forward_one(Ck& ck)
{
    using B = std::remove_reference_t<T>;
    B* p    = nullptr;
    (void)p;
    ck.type<decltype(etl::forward<T>(std::declval<B&>())), decltype(std::forward<T>(std::declval<B&>()))>("forward<T>(T&)", "general", cat("forward<", tn<T>(), ">(lvalue)"));
    if constexpr (!std::is_lvalue_reference_v<T>) {
        ck.type<decltype(etl::forward<T>(std::declval<B&&>())), decltype(std::forward<T>(std::declval<B&&>()))>("forward<T>(T&&)", "general", cat("forward<", tn<T>(), ">(rvalue)"));
    }
}

template <typename T, typename U>
void forward_like_one(Ck& ck)
{
    ck.type<decltype(etl::forward_like<T>(std::declval<U>())), typename fwd_like_expected<T, U>::type>("forward_like<T>(U&&)", "general",
        cat("forward_like<", tn<T>(), ">(", tn<U>(), ")"));
}
template <typename T, typename... U>
void forward_like_row(Ck& ck, TL<U...>)
{
    (forward_like_one<T, U>(ck), ...);
}
template <typename... T>
void forward_like_matrix(Ck& ck, TL<T...>)
{
    (forward_like_row<T>(ck, TL<int&, int const&, int&&, int const&&, MO&, MO const&, MO&&>{}), ...);
}

void forwarding(mc::Reporter& r)
{
    Ck ck{r, "forwarding", true};
    r.count("configurations");
    forward_one<int>(ck);
    forward_one<int&>(ck);
    forward_one<int const&>(ck);
    forward_one<int&&>(ck);
    forward_one<int const>(ck);
    forward_one<MO>(ck);
    forward_one<MO&>(ck);
    forward_one<MO const&>(ck);
    forward_one<MO&&>(ck);
    forward_like_matrix(ck, TL<int, int&, int const&, int&&, int const&&, int const, MO&, MO const&>{});
    // values: forwarding does not copy and names the same object
    int i        = 5;
    int const& a = etl::forward<int const&>(i);
    int&& b      = etl::forward<int>(i);
    auto&& c     = etl::forward_like<int const&>(i);
    ck.eq("forward<T>(T&)", "general", "same object", &a == &i && &b == &i, true);
    ck.eq("forward_like<T>(U&&)", "general", "same object", static_cast<void const*>(&c) == static_cast<void const*>(&i), true);
    MO m(9);
    auto ci = impl_counts();
    MO&& mr = etl::forward<MO>(m);
    (void)mr;
    auto cj = impl_counts();
    ck.eq("forward<T>(T&)", "general", "no copy or move is made", (cj.copies - ci.copies) + (cj.moves - ci.moves), 0U);
    ck.lifetimes("forwarding");
}

int fp_dummy(int x) { return x; }

} // namespace

int main(int argc, char** argv)
{
    mc::Main m(argc, argv);
    std::vector<std::string> const both{"quick", "thorough"};
#if !defined(MC_PART) || MC_PART == 1
    m.job("pair<A,B> element kinds", both, [](mc::Reporter& r) { matrix<true>(r, Kinds{}); });
#endif
#if !defined(MC_PART) || MC_PART == 2
    m.job("tuple<A,B> element kinds", both, [](mc::Reporter& r) { matrix<false>(r, Kinds{}); });
#endif
#if !defined(MC_PART) || MC_PART == 3
    m.job("tuple<A,B,C> element kinds", both, [](mc::Reporter& r) {
        Combo<false, int, MO, int const>::run(r);
        Combo<false, int&, CO, int>::run(r);
        Combo<false, int const, int&, MO>::run(r);
        Combo<false, CO, int const, int>::run(r);
        Combo<false, int>::run(r);
        Combo<false, int const>::run(r);
        Combo<false, int&>::run(r);
        Combo<false, MO>::run(r);
    });
    m.job("factories", both, factories);
    m.job("forward/forward_like", both, forwarding);
#endif
    return m.run();
}
