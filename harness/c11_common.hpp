// C11: shared pieces of the calendar harnesses.
//
// Every operation is written ONCE as a template over a "library" traits struct (E = etl::chrono,
// S = std::chrono) so that tetl and the reference execute literally the same expression; the
// observable fields of the result are flattened into a small integer tuple `V` and compared.
#pragma once

#include "mc.hpp"

#include <etl/chrono.hpp>

#include <chrono>
#include <string>

namespace c11 {

namespace ec = etl::chrono;
namespace sc = std::chrono;
using mc::cat;

struct E {
    using day                     = ec::day;
    using month                   = ec::month;
    using year                    = ec::year;
    using weekday                 = ec::weekday;
    using weekday_indexed         = ec::weekday_indexed;
    using weekday_last            = ec::weekday_last;
    using month_day               = ec::month_day;
    using month_day_last          = ec::month_day_last;
    using month_weekday           = ec::month_weekday;
    using month_weekday_last      = ec::month_weekday_last;
    using year_month              = ec::year_month;
    using year_month_day          = ec::year_month_day;
    using year_month_day_last     = ec::year_month_day_last;
    using year_month_weekday      = ec::year_month_weekday;
    using days                    = ec::days;
    using months                  = ec::months;
    using years                   = ec::years;
    using sys_days                = ec::sys_days;
    using local_days              = ec::local_days;
    static constexpr auto last    = ec::last;
    static constexpr char const* name = "etl";
};

struct S {
    using day                     = sc::day;
    using month                   = sc::month;
    using year                    = sc::year;
    using weekday                 = sc::weekday;
    using weekday_indexed         = sc::weekday_indexed;
    using weekday_last            = sc::weekday_last;
    using month_day               = sc::month_day;
    using month_day_last          = sc::month_day_last;
    using month_weekday           = sc::month_weekday;
    using month_weekday_last      = sc::month_weekday_last;
    using year_month              = sc::year_month;
    using year_month_day          = sc::year_month_day;
    using year_month_day_last     = sc::year_month_day_last;
    using year_month_weekday      = sc::year_month_weekday;
    using days                    = sc::days;
    using months                  = sc::months;
    using years                   = sc::years;
    using sys_days                = sc::sys_days;
    using local_days              = sc::local_days;
    static constexpr auto last    = sc::last;
    static constexpr char const* name = "std";
};

/// flattened observation: up to 8 integers
struct V {
    long long v[8]{};
    int n{0};

    V() = default;
    V(std::initializer_list<long long> l)
    {
        for (auto x : l) { v[n++] = x; }
    }
    V& add(long long x)
    {
        v[n++] = x;
        return *this;
    }
    friend bool operator==(V const& a, V const& b)
    {
        if (a.n != b.n) { return false; }
        for (int i = 0; i < a.n; ++i) {
            if (a.v[i] != b.v[i]) { return false; }
        }
        return true;
    }
    std::string str() const
    {
        std::string s = "(";
        for (int i = 0; i < n; ++i) {
            if (i) { s += ","; }
            s += std::to_string(v[i]);
        }
        return s + ")";
    }
    std::uint64_t hash() const { return mc::fnv1a(v, sizeof(long long) * std::size_t(n)); }
};

// ---- field extraction (same member names in both libraries) -----------------------------------
template <typename T>
concept HasCEnc = requires(T t) { t.c_encoding(); };

inline V f_day(auto const& d) { return V{(long long)unsigned(d), d.ok()}; }
inline V f_month(auto const& m) { return V{(long long)unsigned(m), m.ok()}; }
inline V f_year(auto const& y) { return V{(long long)int(y), y.ok()}; }
inline V f_wd(auto const& w) { return V{(long long)w.c_encoding(), (long long)w.iso_encoding(), w.ok()}; }
inline V f_ym(auto const& x) { return V{(long long)int(x.year()), (long long)unsigned(x.month()), x.ok()}; }
inline V f_ymd(auto const& x)
{
    return V{(long long)int(x.year()), (long long)unsigned(x.month()), (long long)unsigned(x.day()), x.ok()};
}
/// year_month_day_last: day() is specified only when ok()
inline V f_ymdl(auto const& x)
{
    V v{(long long)int(x.year()), (long long)unsigned(x.month()), x.ok()};
    if (x.ok()) { v.add((long long)unsigned(x.day())); }
    return v;
}
inline V f_ymw(auto const& x)
{
    return V{(long long)int(x.year()), (long long)unsigned(x.month()), (long long)x.weekday().c_encoding(), (long long)x.index(),
        x.ok()};
}

// ---- independent calendar walker (no formula shared with Hinnant's algorithms) ---------------
struct Walker {
    int y{1970};
    unsigned m{1};
    unsigned d{1};
    unsigned wd{4}; // 1970-01-01 was a Thursday
    long long n{0}; // days since 1970-01-01

    static bool leap(int y) { return y % 4 == 0 && (y % 100 != 0 || y % 400 == 0); }
    static unsigned mlen(int y, unsigned m)
    {
        static unsigned const t[12] = {31, 28, 31, 30, 31, 30, 31, 31, 30, 31, 30, 31};
        return (m == 2 && leap(y)) ? 29U : t[m - 1];
    }
    void next()
    {
        ++n;
        wd = (wd == 6) ? 0 : wd + 1;
        if (d < mlen(y, m)) {
            ++d;
        } else {
            d = 1;
            if (m < 12) {
                ++m;
            } else {
                m = 1;
                ++y;
            }
        }
    }
    /// January 1st of `year`, reached from the epoch in whole-year steps of 365/366 days
    static Walker jan1(int year)
    {
        Walker w;
        while (w.y < year) {
            int const len = leap(w.y) ? 366 : 365;
            w.n += len;
            w.wd = (w.wd + unsigned(len)) % 7;
            ++w.y;
        }
        while (w.y > year) {
            --w.y;
            int const len = leap(w.y) ? 366 : 365;
            w.n -= len;
            w.wd = (w.wd + 7U * 53U - unsigned(len)) % 7;
        }
        return w;
    }
};

/// Lock-step comparison helper with lazy case/class strings and the sanitizer hook.
struct Ctx {
    mc::Reporter& r;
    std::uint64_t evals{0};
    std::uint64_t san{mc::san_hits()};
    char const* subject{""}; // the running call (for trap attribution)
    std::string cur_case;    // filled lazily by the caller before risky batches (cheap jobs only)
    std::string cur_cls{"general"};
    struct Recent {
        char const* subj;
        std::string cls;
        mc::Violation* v;
    };
    std::vector<Recent> recent;

    explicit Ctx(mc::Reporter& rr) : r(rr) { }

    template <typename Cls, typename Kase>
    void check(char const* subj, V const& got, V const& want, Cls&& cls, Kase&& kase)
    {
        ++evals;
        if (!(got == want)) {
            // only the first witness of a (subject, class) needs its case/detail text; the rest is counted
            // through a small cache (the tree with the known defects produces millions of repeats)
            auto k = cls();
            mc::Violation* hit = nullptr;
            for (auto& e : recent) {
                if (e.subj == subj && e.cls == k) {
                    hit = e.v;
                    break;
                }
            }
            if (hit == nullptr) {
                auto it = r.viols.find(std::make_tuple(std::string("C11"), std::string(subj), k));
                if (it == r.viols.end()) {
                    r.violation("C11", subj, k, kase(), cat("tetl=", got.str(), " std=", want.str()));
                    it = r.viols.find(std::make_tuple(std::string("C11"), std::string(subj), k));
                    if (it != r.viols.end()) { it->second.count -= 1; } // counted below
                }
                if (it != r.viols.end()) {
                    hit = &it->second; // std::map nodes do not move
                    if (recent.size() >= 8) { recent.erase(recent.begin()); }
                    recent.push_back(Recent{subj, k, hit});
                }
            }
            if (hit != nullptr) { hit->count += 1; }
        }
        auto const now = mc::san_hits();
        if (now != san) {
            san = now;
            r.violation("C02", subj, cls(), kase(), "ASan/UBSan report during the tetl call (see job log)");
        }
    }

    /// a trap that ended a guarded batch of VALID calls
    void trapped(mc::Trap t, std::string const& cls, std::string const& kase)
    {
        if (t == mc::Trap::none) { return; }
        bool const contract = (t == mc::Trap::assert_fired);
        r.violation(contract ? "C05" : "C02", subject, contract ? "handler-on-valid-call/" + cls : cls + "/" + mc::trap_name(t), kase,
            mc::describe_trap(t));
    }
};

inline int floor_div(long long a, long long b) { return int((a >= 0 ? a : a - (b - 1)) / b); }

} // namespace c11
