// C01 (and the container half of C02, C03, C05-complement):
// static_vector / inplace_vector / stack explored to a fixed point in lock-step with
// std::vector<int> (the model always holds plain ints; Tracked elements map to their value).
#include "explore.hpp"
#include "tracked.hpp"

#include <etl/inplace_vector.hpp>
#include <etl/stack.hpp>
#include <etl/vector.hpp>

#include <stack>
#include <type_traits>
#include <vector>

using mc::cat;
using mc::Cx;
using mc::registry;
using mc::value_of;

namespace {

template <typename T>
constexpr bool copyable = std::is_copy_constructible_v<T>;
// static_vector's move assignment is constrained on is_assignable_v<T&, T&> and swap() is written in
// terms of it, so neither exists for a move-only T (API gap, not behaviour - DESIGN section 8 rule 3)
template <typename T>
constexpr bool sv_move_assignable = std::is_copy_assignable_v<T>;

// ---- round 2: further element types (directions 1 and 3) -------------------------------------------------------
// Arg2: non-trivial element with constructors of 0, 1 and 2 arguments (emplace/emplace_back arities); lifetimes are
// tracked through its base.  Agg2: trivial aggregate with two members, T(a) and T(a,b) are C++20 parenthesised
// aggregate initialisation (the trivial-storage twin).  ThrowMove: move constructor declared noexcept(false), never
// throws.  OverT / OverN: alignas(32) elements, trivial and non-trivial storage.
using mc::value_of; // the overloads declared below would otherwise hide the ones of mc:: inside this namespace
struct Arg2 : mc::Tracked<mc::copy_move> {
    using Base = mc::Tracked<mc::copy_move>;
    Arg2() = default;
    explicit(false) Arg2(int a) : Base(a) { }
    Arg2(int a, int b) : Base(a + 4 * b) { }
};
struct Agg2 {
    int v;
    int w;
    friend bool operator==(Agg2 const& a, Agg2 const& b) { return a.v + 4 * a.w == b.v + 4 * b.w; }
    friend bool operator<(Agg2 const& a, Agg2 const& b) { return a.v + 4 * a.w < b.v + 4 * b.w; }
};
inline int value_of(Agg2 const& x) { return x.v + 4 * x.w; }
struct ThrowMove : mc::Tracked<mc::copy_move> {
    using Base = mc::Tracked<mc::copy_move>;
    ThrowMove() = default;
    explicit(false) ThrowMove(int a) : Base(a) { }
    ThrowMove(ThrowMove const&) = default;
    ThrowMove(ThrowMove&& o) noexcept(false) : Base(static_cast<Base&&>(o)) { }
    auto operator=(ThrowMove const&) -> ThrowMove& = default;
    auto operator=(ThrowMove&& o) noexcept(false) -> ThrowMove&
    {
        Base::operator=(static_cast<Base&&>(o));
        return *this;
    }
};
struct alignas(32) OverT {
    int v;
    friend bool operator==(OverT const& a, OverT const& b) { return a.v == b.v; }
    friend bool operator<(OverT const& a, OverT const& b) { return a.v < b.v; }
};
inline int value_of(OverT const& x) { return x.v; }
struct alignas(32) OverN : mc::Tracked<mc::copy_move> {
    using Base = mc::Tracked<mc::copy_move>;
    OverN() = default;
    explicit(false) OverN(int a) : Base(a) { }
};
static_assert(std::is_trivial_v<Agg2> && std::is_trivial_v<OverT> && !std::is_trivial_v<Arg2> && !std::is_trivial_v<OverN>);
static_assert(alignof(OverT) == 32 && alignof(OverN) == 32 && sizeof(OverN) == 32);
static_assert(!std::is_nothrow_move_constructible_v<ThrowMove> && std::is_move_constructible_v<ThrowMove>);

} // namespace
namespace mc {
template <>
inline constexpr bool is_tracked_v<Arg2> = true;
template <>
inline constexpr bool is_tracked_v<ThrowMove> = true;
template <>
inline constexpr bool is_tracked_v<OverN> = true;
} // namespace mc
namespace {

template <typename T>
std::string tname()
{
    if constexpr (std::is_same_v<T, int>) {
        return "int";
    } else if constexpr (std::is_same_v<T, unsigned char>) {
        return "unsigned char";
    } else if constexpr (std::is_same_v<T, bool>) {
        return "bool";
    } else if constexpr (std::is_same_v<T, Arg2>) {
        return "Arg2<ctor 0/1/2 args>";
    } else if constexpr (std::is_same_v<T, Agg2>) {
        return "Agg2<trivial aggregate>";
    } else if constexpr (std::is_same_v<T, ThrowMove>) {
        return "ThrowMove<noexcept(false) move>";
    } else if constexpr (std::is_same_v<T, OverT>) {
        return "OverT<alignas(32) trivial>";
    } else if constexpr (std::is_same_v<T, OverN>) {
        return "OverN<alignas(32) non-trivial>";
    } else if constexpr (std::is_same_v<T, mc::Tracked<mc::rule3>>) {
        return "Tracked<rule3>";
    } else if constexpr (std::is_same_v<T, mc::Tracked<mc::copy_move>>) {
        return "Tracked<copy+move>";
    } else if constexpr (std::is_same_v<T, mc::Tracked<mc::move_only>>) {
        return "Tracked<move-only>";
    } else if constexpr (std::is_same_v<T, mc::Tracked<mc::trivial_default>>) {
        return "Tracked<trivial-default-ctor>";
    } else {
        return "Tracked<copy-only>";
    }
}

// exact-size source block for external ranges: mc::GuardedBlock, except for over-aligned element types (malloc only
// guarantees 16 bytes; a misaligned SOURCE would be the harness' own undefined behaviour) - those get an aligned
// allocation of exactly n elements (ASan still traps the first byte behind it; no canaries in the other flavours)
template <typename T, bool Over = (alignof(T) > 16)>
struct SourceBlock : mc::GuardedBlock<T> {
    using mc::GuardedBlock<T>::GuardedBlock;
};
template <typename T>
struct SourceBlock<T, true> {
    T* p{nullptr};
    std::size_t n{0};
    explicit SourceBlock(std::size_t count) : n(count)
    {
        p = static_cast<T*>(std::aligned_alloc(alignof(T), (count == 0 ? 1 : count) * sizeof(T)));
        std::memset(static_cast<void*>(p), 0xCD, (count == 0 ? 1 : count) * sizeof(T));
    }
    SourceBlock(SourceBlock const&)            = delete;
    SourceBlock& operator=(SourceBlock const&) = delete;
    ~SourceBlock() { std::free(p); }
    T* data() { return p; }
    std::size_t size() const { return n; }
    bool intact() const { return true; }
};

// element type of the external source range of the *converting* range forms (insert/assign/ctor from pointers to
// another type): long for the arithmetic elements, int for the class types (every one is constructible from int)
template <typename T>
using conv_source_t = std::conditional_t<std::is_same_v<T, int>, long, int>;

// two-argument construction exists (Arg2, Agg2)
template <typename T>
constexpr bool two_arg = std::is_constructible_v<T, int, int> && !std::is_arithmetic_v<T>;

// drains the lifetime registry into C03 violations and compares the live count inside the
// owner's storage with the model's element count
template <typename T>
void check_lifetimes(Cx& cx, std::string const& subject, void const* lo, void const* hi, std::size_t expected_live)
{
    if constexpr (mc::is_tracked_v<T>) {
        for (auto const& e : registry().take_errors()) { cx.fail("C03", subject, "lifetime:" + e, e); }
        auto const live = registry().live_in(lo, hi);
        if (live != expected_live) {
            cx.fail("C03", subject, "live-count", cat("live objects inside the owner: ", live, ", elements in the model: ", expected_live));
        }
    }
}

enum Kind : int {
    push_back_l,
    push_back_r,
    push_back_own,   // v.push_back(v[a])
    emplace_back_k,
    pop_back_k,
    insert_l,        // insert(pos, T const&)
    insert_r,        // insert(pos, T&&)
    insert_own,      // insert(pos, v[b])  (aliasing lvalue)
    emplace_k,       // emplace(pos, value)
    insert_n,        // insert(pos, n, v)
    insert_n_own,    // insert(pos, n, v[c])
    insert_range,    // insert(pos, first, last) from an external exact-size block
    erase_1,
    erase_range,
    resize_k,
    resize_v,
    assign_n,
    assign_range,
    clear_k,
    self_copy_assign,
    self_swap,
    self_swap_free,
    free_erase,
    free_erase_if,
    copy_construct,  // copy, compare, mutate the copy, source unchanged; then adopt the copy
    move_construct,  // moved-to equals model; source stays valid; adopt the moved-to object
    ctor_n,
    ctor_n_v,
    ctor_range,
    ctor_c_array,
    try_push_back_l, // inplace_vector
    try_push_back_r,
    try_emplace_back_k,
    unchecked_push_back_l,
    unchecked_push_back_r,
    unchecked_emplace_back_k,
    reinit_value,    // replace the object by a value-initialised one: V{}
    // ---- round 2 ----
    emplace_back_0,        // emplace_back()
    emplace_back_2,        // emplace_back(x, y)
    emplace_back_own,      // emplace_back(v[a])
    emplace_0,             // emplace(pos)
    emplace_2,             // emplace(pos, x, y)
    emplace_own,           // emplace(pos, v[b])
    resize_v_own,          // resize(n, v[b])
    insert_range_mut,      // insert(pos, T*, T*)  (pointers to non-const)
    insert_range_conv,     // insert(pos, U const*, U const*), U != T convertible
    assign_range_conv,
    ctor_range_conv,
    move_insert_k,         // move_insert(pos, T*, T*) (tetl extension: the rvalue twin of insert(pos,first,last))
    ctor_c_array_n,        // static_vector(c_array<T,S>&&), S = 1, N;  a = S
    ctor_empty_c_array,    // static_vector(empty_c_array{})
    write_k,               // assignment through front()/back()/operator[]/iterator/reverse iterator/data(): a = accessor, b = index, c = value
    try_push_back_own,     // inplace_vector: try_push_back(v[a])
    try_emplace_back_own,
    try_emplace_back_0,
    try_emplace_back_2,
    unchecked_push_back_own,
    unchecked_emplace_back_own,
    unchecked_emplace_back_0,
    unchecked_emplace_back_2,
    stack_ctor_copy,       // stack(Container const&): a = pool index
    stack_ctor_move,       // stack(Container&&)
    stack_push_top,        // push(top())
    stack_emplace_top,     // emplace(top())
    bulk_fill,             // seed helper for capacity 65535/65536: a x unchecked_emplace_back(1 + i % 2), compared once at the end
    // binary
    swap_member,
    swap_free,
    copy_assign,
    move_assign,
    relational,
};

char const* kind_name(int k)
{
    static char const* names[] = {"push_back(const&)", "push_back(&&)", "push_back(own element)", "emplace_back", "pop_back",
        "insert(pos,const&)", "insert(pos,&&)", "insert(pos,own element)", "emplace(pos,v)", "insert(pos,n,v)",
        "insert(pos,n,own element)", "insert(pos,first,last)", "erase(pos)", "erase(first,last)", "resize(n)", "resize(n,v)",
        "assign(n,v)", "assign(first,last)", "clear", "operator=(const&) self", "swap(self)", "etl::swap(self)", "etl::erase",
        "etl::erase_if", "copy-construct", "move-construct", "ctor(n)", "ctor(n,v)", "ctor(first,last)", "ctor(c_array)",
        "try_push_back(const&)", "try_push_back(&&)", "try_emplace_back", "unchecked_push_back(const&)", "unchecked_push_back(&&)",
        "unchecked_emplace_back", "value-initialise V{}",
        "emplace_back()", "emplace_back(x,y)", "emplace_back(own element)", "emplace(pos)", "emplace(pos,x,y)", "emplace(pos,own element)",
        "resize(n,own element)", "insert(pos,T*,T*)", "insert(pos,U const*,U const*)", "assign(U const*,U const*)", "ctor(U const*,U const*)",
        "move_insert(pos,first,last)", "ctor(c_array<S>)", "ctor(empty_c_array)", "write through reference",
        "try_push_back(own element)", "try_emplace_back(own element)", "try_emplace_back()", "try_emplace_back(x,y)",
        "unchecked_push_back(own element)", "unchecked_emplace_back(own element)", "unchecked_emplace_back()", "unchecked_emplace_back(x,y)",
        "stack(Container const&)", "stack(Container&&)", "push(top())", "emplace(top())", "n x unchecked_emplace_back", "swap(other)", "etl::swap(a,b)", "operator=(const&)", "operator=(&&)", "relational operators"};
    static_assert(sizeof names / sizeof names[0] == relational + 1);
    return names[k];
}

struct Action {
    int k, a, b, c;
};

// accessors of the write-through action (write_k): a = accessor
inline char const* accessor_name(int acc)
{
    static char const* names[] = {"front()", "back()", "operator[]", "begin()+i", "rbegin()+i", "data()+i"};
    return names[acc];
}

std::string show_action(Action const& x) { return cat(kind_name(x.k), "(", x.a, ",", x.b, ",", x.c, ")"); }

// position / count menus: everything for small capacities, the boundary set for large ones
inline std::vector<int> span_of(int lo, int hi, bool sparse)
{
    std::vector<int> v;
    if (!sparse || hi - lo <= 6) {
        for (int i = lo; i <= hi; ++i) { v.push_back(i); }
        return v;
    }
    for (int i : {lo, lo + 1, (lo + hi) / 2, hi - 1, hi}) {
        if (v.empty() || v.back() != i) { v.push_back(i); }
    }
    return v;
}

// the pool of external source ranges: all sequences of length <= L over {1..K}
inline std::vector<std::vector<int>> const& pool(int K, int L)
{
    static std::map<std::pair<int, int>, std::vector<std::vector<int>>> cache;
    auto& p = cache[{K, L}];
    if (p.empty()) {
        p.push_back({});
        std::size_t lo = 0;
        for (int len = 1; len <= L; ++len) {
            std::size_t hi = p.size();
            for (std::size_t i = lo; i < hi; ++i) {
                for (int v = 1; v <= K; ++v) {
                    auto s = p[i];
                    s.push_back(v);
                    p.push_back(s);
                }
            }
            lo = hi;
        }
    }
    return p;
}

// =======================================================================================
// static_vector
// =======================================================================================
template <typename T, std::size_t N, int K>
struct StaticVectorSys {
    using V = etl::static_vector<T, N>;
    using M = std::vector<int>;
    using Action = ::Action;
    static constexpr bool trivial = std::is_trivially_copyable_v<T>;
    // the raw object bytes are part of the state key only if the element type has no padding (padding bytes of
    // temporaries are indeterminate and would make the state space nondeterministic)
    static constexpr bool raw_key = trivial && std::has_unique_object_representations_v<T>;

    struct State {
        alignas(alignof(V) > 16 ? alignof(V) : 16) unsigned char buf[sizeof(V) + 32];
        V* v;
        M m;
        bool dead{false};
        explicit State(unsigned char poison)
        {
            std::memset(buf, poison, sizeof buf);
            v = ::new (static_cast<void*>(buf)) V; // default-initialisation (not V{})
            m.reserve(N + 2);
        }
        State(State const&)            = delete;
        State& operator=(State const&) = delete;
        ~State()
        {
            if (!dead) { v->~V(); }
        }
        void const* lo() const { return buf; }
        void const* hi() const { return buf + sizeof buf; }
    };

    int pool_len;
    bool thin{false}; // round 2 (direction 4): reduced argument sets, for longer histories from the boundary seeds
    explicit StaticVectorSys(int poolLen, bool thinMenu = false) : pool_len(poolLen), thin(thinMenu) { }

    // thin menu: positions/counts {0, size, N-size, N}, indices and inner counts additionally 1, element value 1 only,
    // source ranges {} and {1}; every action kind stays in the menu
    static bool thin_keep(Action const& x, int s, int n)
    {
        auto in0 = [&](int v) { return v == 0 || v == s || v == n - s || v == n; };
        auto in1 = [&](int v) { return in0(v) || v == 1; };
        switch (x.k) {
        case push_back_l:
        case push_back_r:
        case emplace_back_k:
        case free_erase:
        case free_erase_if:
        case emplace_back_2: return x.a == 1;
        case ctor_c_array: return x.a == 1 && x.b == 2;
        case ctor_c_array_n: return in1(x.b);
        case write_k: return (x.b == 0 || x.b == s - 1) && x.c == 1;
        case resize_k:
        case resize_v: return (in0(x.a) || x.a == s - 1 || x.a == s + 1) && in1(x.b);
        default: return in0(x.a) && in1(x.b) && in1(x.c);
        }
    }

    std::string name() const { return cat("static_vector<", tname<T>(), ",", N, ">", thin ? " (thin menu)" : ""); }
    std::string family() const { return "static_vector"; }
    std::string show(Action const& a) const { return show_action(a); }
    std::string subject(Action const& a) const
    {
        if (a.k == write_k) { return cat("static_vector::", accessor_name(a.a), " (written through)"); }
        return cat("static_vector::", kind_name(a.k));
    }

    void unary(State const& st, std::vector<Action>& out) const
    {
        int const s       = int(st.m.size());
        int const n       = int(N);
        bool const sparse = N > 8;
        for (int v = 1; v <= K; ++v) {
            if (s < n) {
                if constexpr (copyable<T>) { out.push_back({push_back_l, v, 0, 0}); }
                out.push_back({push_back_r, v, 0, 0});
                out.push_back({emplace_back_k, v, 0, 0});
            }
        }
        if (s > 0) { out.push_back({pop_back_k, 0, 0, 0}); }
        auto const elems = s > 0 ? span_of(0, s - 1, sparse) : std::vector<int>{};
        if constexpr (copyable<T>) {
            if (s < n) {
                for (int i : elems) { out.push_back({push_back_own, i, 0, 0}); }
            }
        }
        for (int p : span_of(0, s, sparse)) {
            if (s < n) {
                for (int v = 1; v <= K; ++v) {
                    if constexpr (copyable<T>) { out.push_back({insert_l, p, v, 0}); }
                    out.push_back({insert_r, p, v, 0});
                    out.push_back({emplace_k, p, v, 0});
                }
                if constexpr (copyable<T>) {
                    for (int i : elems) { out.push_back({insert_own, p, i, 0}); }
                }
            }
            if constexpr (copyable<T>) {
                for (int cnt : span_of(0, n - s, sparse)) {
                    for (int v = 1; v <= K; ++v) { out.push_back({insert_n, p, cnt, v}); }
                    for (int i : elems) { out.push_back({insert_n_own, p, cnt, i}); }
                }
                auto const& pl = pool(K, pool_len);
                for (int i = 0; i < int(pl.size()); ++i) {
                    if (int(pl[std::size_t(i)].size()) <= n - s) { out.push_back({insert_range, p, i, 0}); }
                }
            }
        }
        for (int p : elems) { out.push_back({erase_1, p, 0, 0}); }
        for (int f : span_of(0, s, sparse)) {
            for (int l : span_of(f, s, sparse)) { out.push_back({erase_range, f, l, 0}); }
        }
        for (int cnt : span_of(0, n, sparse)) {
            out.push_back({resize_k, cnt, 0, 0});
            if constexpr (copyable<T>) {
                for (int v = 1; v <= K; ++v) {
                    out.push_back({resize_v, cnt, v, 0});
                    out.push_back({assign_n, cnt, v, 0});
                    out.push_back({ctor_n_v, cnt, v, 0});
                }
            }
            out.push_back({ctor_n, cnt, 0, 0});
        }
        if (sparse && s > 0 && s < n) {
            // around the current size as well (the size-type boundary sits next to it)
            for (int cnt : {s - 1, s + 1}) {
                out.push_back({resize_k, cnt, 0, 0});
                if constexpr (copyable<T>) { out.push_back({resize_v, cnt, 1, 0}); }
            }
        }
        if constexpr (copyable<T>) {
            auto const& pl = pool(K, pool_len);
            for (int i = 0; i < int(pl.size()); ++i) {
                if (int(pl[std::size_t(i)].size()) <= n) {
                    out.push_back({assign_range, i, 0, 0});
                    out.push_back({ctor_range, i, 0, 0});
                }
            }
            out.push_back({self_copy_assign, 0, 0, 0});
            out.push_back({copy_construct, 0, 0, 0});
        }
        out.push_back({clear_k, 0, 0, 0});
        if constexpr (sv_move_assignable<T>) {
            out.push_back({self_swap, 0, 0, 0});
            out.push_back({self_swap_free, 0, 0, 0});
        }
        for (int v = 1; v <= K; ++v) {
            out.push_back({free_erase, v, 0, 0});
            out.push_back({free_erase_if, v, 0, 0});
        }
        out.push_back({move_construct, 0, 0, 0});
        if constexpr (N >= 2) {
            for (int x = 1; x <= K; ++x) {
                for (int y = 1; y <= K; ++y) { out.push_back({ctor_c_array, x, y, 0}); }
            }
        }
        unary_round2(st, out);
        if (thin) {
            std::vector<Action> kept;
            for (auto const& x : out) {
                if (thin_keep(x, s, n)) { kept.push_back(x); }
            }
            out.swap(kept);
        }
    }

    // round 2: overloads, arities, aliasing arguments and write-through accessors that the first menu did not contain
    void unary_round2(State const& st, std::vector<Action>& out) const
    {
        int const s       = int(st.m.size());
        int const n       = int(N);
        bool const sparse = N > 8;
        // boundary capacities (sparse menus): three-point sets {first, middle, last} for the round-2 actions
        auto const pts = [&](int lo, int hi) {
            if (!sparse || hi - lo <= 6) { return span_of(lo, hi, sparse); }
            return std::vector<int>{lo, (lo + hi) / 2, hi};
        };
        auto const elems  = s > 0 ? pts(0, s - 1) : std::vector<int>{};
        auto const& pl    = pool(K, pool_len);
        if (s < n) {
            out.push_back({emplace_back_0, 0, 0, 0});
            if constexpr (two_arg<T>) {
                for (int x = 1; x <= K; ++x) { out.push_back({emplace_back_2, x, 1, 0}); }
            }
            if constexpr (copyable<T>) {
                for (int i : elems) { out.push_back({emplace_back_own, i, 0, 0}); }
            }
            for (int p : pts(0, s)) {
                out.push_back({emplace_0, p, 0, 0});
                if constexpr (two_arg<T>) {
                    for (int x = 1; x <= K; ++x) { out.push_back({emplace_2, p, x, 1}); }
                }
                if constexpr (copyable<T>) {
                    for (int i : elems) { out.push_back({emplace_own, p, i, 0}); }
                }
            }
        }
        if constexpr (copyable<T>) {
            for (int cnt : pts(0, n)) {
                for (int i : elems) { out.push_back({resize_v_own, cnt, i, 0}); }
            }
        }
        for (int p : pts(0, s)) {
            for (int i = 0; i < int(pl.size()); ++i) {
                if (int(pl[std::size_t(i)].size()) > n - s) { continue; }
                if constexpr (copyable<T>) { out.push_back({insert_range_mut, p, i, 0}); }
                out.push_back({insert_range_conv, p, i, 0});
                out.push_back({move_insert_k, p, i, 0});
            }
        }
        for (int i = 0; i < int(pl.size()); ++i) {
            if (int(pl[std::size_t(i)].size()) <= n) {
                out.push_back({assign_range_conv, i, 0, 0});
                out.push_back({ctor_range_conv, i, 0, 0});
            }
        }
        out.push_back({ctor_empty_c_array, 0, 0, 0});
        if constexpr (N >= 1) {
            for (int x = 1; x <= K; ++x) { out.push_back({ctor_c_array_n, 1, x, 0}); }
            if constexpr (N >= 3 && N <= 8) {
                for (int x = 0; x < K; ++x) { out.push_back({ctor_c_array_n, n, x, 0}); }
            }
        }
        if (s > 0) {
            for (int val = 1; val <= K; ++val) {
                out.push_back({write_k, 0, 0, val});
                out.push_back({write_k, 1, s - 1, val});
                for (int acc = 2; acc <= 5; ++acc) {
                    for (int i : elems) { out.push_back({write_k, acc, i, val}); }
                }
            }
        }
    }

    template <std::size_t... I>
    static V* construct_from_c_array(void* where, int shift, std::index_sequence<I...>)
    {
        return ::new (where) V(etl::c_array<T, sizeof...(I)>{T(1 + int((I + std::size_t(shift)) % std::size_t(K)))...});
    }

    void binary(std::vector<Action>& out) const
    {
        if constexpr (sv_move_assignable<T>) {
            out.push_back({swap_member, 0, 0, 0});
            out.push_back({swap_free, 0, 0, 0});
            out.push_back({move_assign, 0, 0, 0});
        }
        if constexpr (copyable<T>) { out.push_back({copy_assign, 0, 0, 0}); }
        out.push_back({relational, 0, 0, 0});
    }

    // content + size of the implementation equals the model
    bool same(Cx& cx, std::string const& subj, V const& v, M const& m, char const* what) const
    {
        if (v.size() != m.size()) {
            cx.fail("C01", subj, "size", cat(what, ": size tetl=", v.size(), " model=", m.size()));
            return false;
        }
        for (std::size_t i = 0; i < m.size(); ++i) {
            int const got = value_of(v.data()[i]);
            if (got != m[i]) {
                cx.fail("C01", subj, "content", cat(what, ": element ", i, " tetl=", got, " model=", m[i], " (model ", mc::show_seq(m), ")"));
                return false;
            }
        }
        return true;
    }

    void replace_with(State& s, V* fresh_in_place_builder) = delete;

    void apply(State& s, Action const& a, State* p, Cx& cx)
    {
        V& v             = *s.v;
        M& m             = s.m;
        auto const subj  = subject(a);
        long ri          = -2;
        long rm          = -2;
        bool check_other = false;
        switch (a.k) {
        case push_back_l: {
            if constexpr (copyable<T>) {
                T const x(a.a);
                v.push_back(x);
                m.push_back(a.a);
            }
            break;
        }
        case push_back_r: {
            T x(a.a);
            v.push_back(std::move(x));
            m.push_back(a.a);
            break;
        }
        case push_back_own: {
            if constexpr (copyable<T>) {
                v.push_back(v[std::size_t(a.a)]);
                int const val = m[std::size_t(a.a)];
                m.push_back(val);
            }
            break;
        }
        case emplace_back_k: {
            v.emplace_back(a.a);
            m.emplace_back(a.a);
            break;
        }
        case pop_back_k: {
            v.pop_back();
            m.pop_back();
            break;
        }
        case insert_l: {
            if constexpr (copyable<T>) {
                T const x(a.b);
                auto it  = v.insert(v.begin() + a.a, x);
                ri       = it - v.begin();
                auto mit = m.insert(m.begin() + a.a, a.b);
                rm       = mit - m.begin();
            }
            break;
        }
        case insert_r: {
            T x(a.b);
            auto it  = v.insert(v.begin() + a.a, std::move(x));
            ri       = it - v.begin();
            auto mit = m.insert(m.begin() + a.a, a.b);
            rm       = mit - m.begin();
            break;
        }
        case insert_own: {
            if constexpr (copyable<T>) {
                auto it       = v.insert(v.begin() + a.a, v[std::size_t(a.b)]);
                ri            = it - v.begin();
                int const val = m[std::size_t(a.b)];
                auto mit      = m.insert(m.begin() + a.a, val);
                rm            = mit - m.begin();
            }
            break;
        }
        case emplace_k: {
            auto it  = v.emplace(v.begin() + a.a, a.b);
            ri       = it - v.begin();
            auto mit = m.emplace(m.begin() + a.a, a.b);
            rm       = mit - m.begin();
            break;
        }
        case insert_n: {
            if constexpr (copyable<T>) {
                T const x(a.c);
                auto it  = v.insert(v.begin() + a.a, std::size_t(a.b), x);
                ri       = it - v.begin();
                auto mit = m.insert(m.begin() + a.a, std::size_t(a.b), a.c);
                rm       = mit - m.begin();
            }
            break;
        }
        case insert_n_own: {
            if constexpr (copyable<T>) {
                auto it       = v.insert(v.begin() + a.a, std::size_t(a.b), v[std::size_t(a.c)]);
                ri            = it - v.begin();
                int const val = m[std::size_t(a.c)];
                auto mit      = m.insert(m.begin() + a.a, std::size_t(a.b), val);
                rm            = mit - m.begin();
            }
            break;
        }
        case insert_range: {
            if constexpr (copyable<T>) {
                auto const& src = pool(K, pool_len)[std::size_t(a.b)];
                {
                    SourceBlock<T> blk(src.size());
                    for (std::size_t i = 0; i < src.size(); ++i) { ::new (static_cast<void*>(blk.data() + i)) T(src[i]); }
                    T const* f = blk.data();
                    T const* l = blk.data() + src.size();
                    auto it    = v.insert(v.begin() + a.a, f, l);
                    ri         = it - v.begin();
                    for (std::size_t i = 0; i < src.size(); ++i) {
                        if (value_of(blk.data()[i]) != src[i]) { cx.fail("C01", subj, "source-modified", "insert(pos,first,last) changed its source range"); }
                        blk.data()[i].~T();
                    }
                    if (!blk.intact()) { cx.fail("C02", subj, "canary", "wrote outside the source range"); }
                }
                auto mit = m.insert(m.begin() + a.a, src.begin(), src.end());
                rm       = mit - m.begin();
            }
            break;
        }
        case erase_1: {
            auto it  = v.erase(v.begin() + a.a);
            ri       = it - v.begin();
            auto mit = m.erase(m.begin() + a.a);
            rm       = mit - m.begin();
            break;
        }
        case erase_range: {
            auto it  = v.erase(v.begin() + a.a, v.begin() + a.b);
            ri       = it - v.begin();
            auto mit = m.erase(m.begin() + a.a, m.begin() + a.b);
            rm       = mit - m.begin();
            break;
        }
        case resize_k: {
            v.resize(std::size_t(a.a));
            m.resize(std::size_t(a.a));
            break;
        }
        case resize_v: {
            if constexpr (copyable<T>) {
                T const x(a.b);
                v.resize(std::size_t(a.a), x);
                m.resize(std::size_t(a.a), a.b);
            }
            break;
        }
        case assign_n: {
            if constexpr (copyable<T>) {
                T const x(a.b);
                v.assign(std::size_t(a.a), x);
                m.assign(std::size_t(a.a), a.b);
            }
            break;
        }
        case assign_range: {
            if constexpr (copyable<T>) {
                auto const& src = pool(K, pool_len)[std::size_t(a.a)];
                {
                    SourceBlock<T> blk(src.size());
                    for (std::size_t i = 0; i < src.size(); ++i) { ::new (static_cast<void*>(blk.data() + i)) T(src[i]); }
                    T const* f = blk.data();
                    T const* l = blk.data() + src.size();
                    v.assign(f, l);
                    for (std::size_t i = 0; i < src.size(); ++i) { blk.data()[i].~T(); }
                }
                m.assign(src.begin(), src.end());
            }
            break;
        }
        case clear_k: {
            v.clear();
            m.clear();
            break;
        }
        case self_copy_assign: {
            if constexpr (copyable<T>) {
                V& alias = v;
                v        = alias;
                // model: unchanged ("self-assignment leaves the value unchanged", C03)
                if (v.size() != m.size()) {
                    cx.fail("C03", subj, "self-assignment-changes-value", cat("size after v = v: tetl=", v.size(), " before=", m.size()));
                    return;
                }
            }
            break;
        }
        case self_swap:
        case self_swap_free: {
            if constexpr (sv_move_assignable<T>) {
                if (a.k == self_swap) {
                    v.swap(v);
                } else {
                    using etl::swap;
                    swap(v, v);
                }
            }
            bool okv = v.size() == m.size();
            for (std::size_t i = 0; okv && i < m.size(); ++i) { okv = value_of(v.data()[i]) == m[i]; }
            if (!okv) {
                cx.fail("C03", subj, "self-swap-changes-value", cat("after swapping v with itself: size tetl=", v.size(), " before=", m.size()));
                check_lifetimes<T>(cx, subj, s.lo(), s.hi(), v.size());
                return;
            }
            break;
        }
        case free_erase: {
            // the value may have another type than the elements: std::erase compares elem == value in the value's own
            // type (added after seeded breakage c01_free_erase_converts_value: the parameter became
            // type_identity_t<T> const&, so 300 erased every (unsigned char)44 and 2.5 every 2); probed on a copy
            if constexpr (std::is_arithmetic_v<T> && !std::is_same_v<T, bool>) {
                auto probe = [&](auto value, char const* what) {
                    V copy(v);
                    std::vector<T> mt;
                    for (int e : m) { mt.push_back(static_cast<T>(e)); }
                    long const re = long(etl::erase(copy, value));
                    long const rs = long(std::erase(mt, value));
                    bool ok = re == rs && copy.size() == mt.size();
                    for (std::size_t i = 0; ok && i < mt.size(); ++i) { ok = copy.data()[i] == mt[i]; }
                    if (!ok) {
                        cx.fail("C01", "etl::erase(c, value of another type)", what,
                            cat("erase(c, ", what, " ", static_cast<long double>(value), "): tetl removed ", re, ", std::erase removed ", rs, " (elements ", mc::show_seq(m), ")"));
                    }
                };
                probe(static_cast<double>(a.a) + 0.5, "fractional_double");
                probe(static_cast<double>(a.a), "integral_double");
                if constexpr (sizeof(T) < 8) { probe(static_cast<long long>(a.a) + (1LL << (8 * sizeof(T))), "wider_integer_congruent_modulo_2^N"); }
                probe(static_cast<long long>(a.a), "wider_integer_same_value");
            }
            if constexpr (copyable<T>) {
                T const x(a.a);
                ri = long(etl::erase(v, x));
            } else {
                ri = long(etl::erase_if(v, [&](T const& e) { return value_of(e) == a.a; }));
            }
            rm = long(std::erase(m, a.a));
            break;
        }
        case free_erase_if: {
            ri = long(etl::erase_if(v, [&](T const& e) { return value_of(e) != a.a; }));
            rm = long(std::erase_if(m, [&](int e) { return e != a.a; }));
            break;
        }
        case copy_construct: {
            if constexpr (copyable<T>) {
                {
                    V copy(v);
                    M mcopy(m);
                    same(cx, subj, copy, mcopy, "copy");
                    // independence: mutate the copy, the source must not change
                    if (!copy.empty()) { copy.pop_back(); }
                    if (!copy.full()) { copy.emplace_back(K); }
                    if (!copy.empty()) { copy.erase(copy.begin()); }
                    if (!same(cx, subj, v, m, "source after mutating its copy")) { return; }
                    // adopt a second, untouched copy as the new state (copy-constructed objects are states too)
                }
                V* fresh = nullptr;
                {
                    alignas(V) unsigned char tmp[sizeof(V)];
                    std::memset(tmp, 0x5A, sizeof tmp);
                    V* t = ::new (static_cast<void*>(tmp)) V(v);
                    v.~V();
                    std::memset(s.buf, 0xAA, sizeof s.buf);
                    fresh = ::new (static_cast<void*>(s.buf)) V(*t);
                    t->~V();
                }
                s.v = fresh;
            }
            break;
        }
        case move_construct: {
            alignas(V) unsigned char tmp[sizeof(V)];
            std::memset(tmp, 0x5A, sizeof tmp);
            V* t = ::new (static_cast<void*>(tmp)) V(std::move(v));
            same(cx, subj, *t, m, "moved-to object");
            // the source must stay a valid object: size() <= N, clear()-able, destructible
            if (v.size() > N) { cx.fail("C03", subj, "moved-from-invalid", cat("moved-from size ", v.size())); }
            v.clear();
            v.~V();
            std::memset(s.buf, 0xAA, sizeof s.buf);
            s.v = ::new (static_cast<void*>(s.buf)) V(std::move(*t));
            t->clear();
            t->~V();
            break;
        }
        case ctor_n: {
            v.~V();
            std::memset(s.buf, 0xAA, sizeof s.buf);
            s.v = ::new (static_cast<void*>(s.buf)) V(std::size_t(a.a));
            m   = M(std::size_t(a.a));
            break;
        }
        case ctor_n_v: {
            if constexpr (copyable<T>) {
                T const x(a.b);
                v.~V();
                std::memset(s.buf, 0xAA, sizeof s.buf);
                s.v = ::new (static_cast<void*>(s.buf)) V(std::size_t(a.a), x);
                m   = M(std::size_t(a.a), a.b);
            }
            break;
        }
        case ctor_range: {
            if constexpr (copyable<T>) {
                auto const& src = pool(K, pool_len)[std::size_t(a.a)];
                SourceBlock<T> blk(src.size());
                for (std::size_t i = 0; i < src.size(); ++i) { ::new (static_cast<void*>(blk.data() + i)) T(src[i]); }
                T const* f = blk.data();
                T const* l = blk.data() + src.size();
                v.~V();
                std::memset(s.buf, 0xAA, sizeof s.buf);
                s.v = ::new (static_cast<void*>(s.buf)) V(f, l);
                for (std::size_t i = 0; i < src.size(); ++i) { blk.data()[i].~T(); }
                m = M(src.begin(), src.end());
            }
            break;
        }
        case ctor_c_array: {
            if constexpr (N >= 2) {
                v.~V();
                std::memset(s.buf, 0xAA, sizeof s.buf);
                s.v = ::new (static_cast<void*>(s.buf)) V(etl::c_array<T, 2>{T(a.a), T(a.b)});
                m   = M{a.a, a.b};
            }
            break;
        }
        // ---------------- round 2 ----------------
        case emplace_back_0: {
            v.emplace_back();
            m.emplace_back();
            break;
        }
        case emplace_back_2: {
            if constexpr (two_arg<T>) {
                v.emplace_back(a.a, a.b);
                m.push_back(a.a + 4 * a.b);
            }
            break;
        }
        case emplace_back_own: {
            if constexpr (copyable<T>) {
                int const val = m[std::size_t(a.a)]; // copy of the aliased value, taken before the call
                v.emplace_back(v[std::size_t(a.a)]);
                m.push_back(val);
            }
            break;
        }
        case emplace_0: {
            auto it  = v.emplace(v.begin() + a.a);
            ri       = it - v.begin();
            auto mit = m.emplace(m.begin() + a.a);
            rm       = mit - m.begin();
            break;
        }
        case emplace_2: {
            if constexpr (two_arg<T>) {
                auto it  = v.emplace(v.begin() + a.a, a.b, a.c);
                ri       = it - v.begin();
                auto mit = m.insert(m.begin() + a.a, a.b + 4 * a.c);
                rm       = mit - m.begin();
            }
            break;
        }
        case emplace_own: {
            if constexpr (copyable<T>) {
                int const val = m[std::size_t(a.b)];
                auto it       = v.emplace(v.begin() + a.a, v[std::size_t(a.b)]);
                ri            = it - v.begin();
                auto mit      = m.insert(m.begin() + a.a, val);
                rm            = mit - m.begin();
            }
            break;
        }
        case resize_v_own: {
            if constexpr (copyable<T>) {
                int const val = m[std::size_t(a.b)];
                v.resize(std::size_t(a.a), v[std::size_t(a.b)]);
                m.resize(std::size_t(a.a), val);
            }
            break;
        }
        case insert_range_mut:
        case move_insert_k: {
            {
                auto const& src = pool(K, pool_len)[std::size_t(a.b)];
                {
                    SourceBlock<T> blk(src.size());
                    for (std::size_t i = 0; i < src.size(); ++i) { ::new (static_cast<void*>(blk.data() + i)) T(src[i]); }
                    T* f = blk.data();
                    T* l = blk.data() + src.size();
                    if (a.k == move_insert_k) {
                        auto it = v.move_insert(v.begin() + a.a, f, l);
                        ri      = it - v.begin();
                        // the source elements are moved-from: valid but unspecified, only destroyed here
                        for (std::size_t i = 0; i < src.size(); ++i) { blk.data()[i].~T(); }
                    } else {
                        if constexpr (copyable<T>) {
                            auto it = v.insert(v.begin() + a.a, f, l);
                            ri      = it - v.begin();
                        }
                        for (std::size_t i = 0; i < src.size(); ++i) {
                            if (value_of(blk.data()[i]) != src[i]) { cx.fail("C01", subj, "source-modified", "insert(pos,first,last) changed its source range"); }
                            blk.data()[i].~T();
                        }
                    }
                    if (!blk.intact()) { cx.fail("C02", subj, "canary", "wrote outside the source range"); }
                }
                auto mit = m.insert(m.begin() + a.a, src.begin(), src.end());
                rm       = mit - m.begin();
            }
            break;
        }
        case insert_range_conv:
        case assign_range_conv:
        case ctor_range_conv: {
            using S = conv_source_t<T>;
            if constexpr (etl::is_constructible_v<T, S const&>) {
                auto const& src = pool(K, pool_len)[std::size_t(a.k == insert_range_conv ? a.b : a.a)];
                {
                    mc::GuardedBlock<S> blk(src.size());
                    for (std::size_t i = 0; i < src.size(); ++i) { blk.data()[i] = S(src[i]); }
                    S const* f = blk.data();
                    S const* l = blk.data() + src.size();
                    if (a.k == insert_range_conv) {
                        auto it = v.insert(v.begin() + a.a, f, l);
                        ri      = it - v.begin();
                    } else if (a.k == assign_range_conv) {
                        v.assign(f, l);
                    } else {
                        v.~V();
                        std::memset(s.buf, 0xAA, sizeof s.buf);
                        s.v = ::new (static_cast<void*>(s.buf)) V(f, l);
                    }
                    for (std::size_t i = 0; i < src.size(); ++i) {
                        if (blk.data()[i] != S(src[i])) { cx.fail("C01", subj, "source-modified", "the source range was changed"); }
                    }
                    if (!blk.intact()) { cx.fail("C02", subj, "canary", "wrote outside the source range"); }
                }
                if (a.k == insert_range_conv) {
                    auto mit = m.insert(m.begin() + a.a, src.begin(), src.end());
                    rm       = mit - m.begin();
                } else if (a.k == assign_range_conv) {
                    m.assign(src.begin(), src.end());
                } else {
                    m = M(src.begin(), src.end());
                }
            }
            break;
        }
        case ctor_empty_c_array: {
            v.~V();
            std::memset(s.buf, 0xAA, sizeof s.buf);
            s.v = ::new (static_cast<void*>(s.buf)) V(etl::empty_c_array{});
            m.clear();
            break;
        }
        case ctor_c_array_n: {
            if constexpr (N >= 1) {
                v.~V();
                std::memset(s.buf, 0xAA, sizeof s.buf);
                if (a.a == 1) {
                    s.v = ::new (static_cast<void*>(s.buf)) V(etl::c_array<T, 1>{T(a.b)});
                    m   = M{a.b};
                } else {
                    if constexpr (N >= 3 && N <= 8) {
                        s.v = construct_from_c_array(static_cast<void*>(s.buf), a.b, std::make_index_sequence<N>{});
                        m.clear();
                        for (std::size_t i = 0; i < N; ++i) { m.push_back(1 + int((i + std::size_t(a.b)) % std::size_t(K))); }
                    }
                }
            }
            break;
        }
        case write_k: {
            std::size_t const i = std::size_t(a.b);
            T* target           = nullptr;
            switch (a.a) {
            case 0: target = &v.front(); break;
            case 1: target = &v.back(); break;
            case 2: target = &v[i]; break;
            case 3: {
                auto it = v.begin();
                it += a.b;
                target = &*it;
                break;
            }
            case 4: {
                auto it = v.rbegin();
                for (std::size_t j = i + 1; j < m.size(); ++j) { ++it; }
                target = &*it;
                break;
            }
            default: target = v.data() + i; break;
            }
            // the reference must name element i (nothing is written through a reference that points elsewhere)
            if (target != v.data() + i) {
                cx.fail("C01", subj, "reference", cat("the returned reference is not element ", i, " of ", m.size()));
                return;
            }
            *target = T(a.c);
            m[i]    = a.c;
            break;
        }
        case swap_member:
        case swap_free: {
            if constexpr (sv_move_assignable<T>) {
                if (a.k == swap_member) {
                    v.swap(*p->v);
                } else {
                    using etl::swap;
                    swap(v, *p->v);
                }
                m.swap(p->m);
                check_other = true;
            }
            break;
        }
        case copy_assign: {
            if constexpr (copyable<T>) {
                V& ret = (v = static_cast<V const&>(*p->v));
                if (&ret != &v) { cx.fail("C01", subj, "return", "operator= did not return *this"); }
                m           = p->m;
                check_other = true;
            }
            break;
        }
        case move_assign: {
            if constexpr (sv_move_assignable<T>) {
                v = std::move(*p->v);
                m = p->m;
                if (p->v->size() > N) { cx.fail("C03", subj, "moved-from-invalid", cat("moved-from size ", p->v->size())); }
                // moved-from source: only required to be valid; normalise it
                p->v->clear();
                p->m.clear();
                check_other = true;
            }
            break;
        }
        case relational: {
            V const& x = v;
            V const& y = *p->v;
            if constexpr (requires { x == y; }) {
                cx.eq("C01", subj, "==", "==", x == y, m == p->m);
                cx.eq("C01", subj, "!=", "!=", x != y, m != p->m);
            }
            if constexpr (requires { x < y; }) {
                cx.eq("C01", subj, "<", "<", x < y, m < p->m);
                cx.eq("C01", subj, "<=", "<=", x <= y, m <= p->m);
                cx.eq("C01", subj, ">", ">", x > y, m > p->m);
                cx.eq("C01", subj, ">=", ">=", x >= y, m >= p->m);
            }
            break;
        }
        default: break;
        }
        if (ri != rm) { cx.fail("C01", subj, "return", cat("returned position/count tetl=", ri, " model=", rm)); }
        same(cx, subj, *s.v, s.m, "after the operation");
        if (s.v->capacity() != N) { cx.fail("C01", subj, "capacity", cat("capacity() = ", s.v->capacity())); }
        check_lifetimes<T>(cx, subj, s.lo(), s.hi(), s.m.size());
        if (check_other && p != nullptr) {
            same(cx, subj, *p->v, p->m, "other operand after the operation");
            check_lifetimes<T>(cx, subj, p->lo(), p->hi(), p->m.size());
        }
    }

    void observe(State const& st, Cx& cx) const
    {
        auto const subj = std::string("static_vector::<observers>");
        V& v            = *st.v;
        V const& cv     = *st.v;
        M const& m      = st.m;
        cx.eq("C01", subj, "size", "size()", cv.size(), m.size());
        cx.eq("C01", subj, "empty", "empty()", cv.empty(), m.empty());
        cx.eq("C01", subj, "full", "full()", cv.full(), m.size() == N);
        cx.eq("C01", subj, "capacity", "capacity()", cv.capacity(), N);
        cx.eq("C01", subj, "max_size", "max_size()", cv.max_size(), N);
        cx.eq("C01", subj, "iterators", "end()-begin()", std::size_t(cv.end() - cv.begin()), m.size());
        cx.eq("C01", subj, "iterators", "cend()-cbegin()", std::size_t(cv.cend() - cv.cbegin()), m.size());
        cx.eq("C01", subj, "iterators", "nonconst end()-begin()", std::size_t(v.end() - v.begin()), m.size());
        // round 2: the remaining iterator/pointer observers (non-const overloads of cbegin/cend, data() const, begin()==data())
        cx.eq("C01", subj, "iterators", "nonconst cend()-cbegin()", std::size_t(v.cend() - v.cbegin()), m.size());
        cx.eq("C01", subj, "iterators", "begin()==data()", static_cast<void const*>(v.begin()) == static_cast<void const*>(v.data()), true);
        cx.eq("C01", subj, "iterators", "const begin()==const data()", static_cast<void const*>(cv.begin()) == static_cast<void const*>(cv.data()), true);
        cx.eq("C01", subj, "iterators", "cbegin()==data()", static_cast<void const*>(v.cbegin()) == static_cast<void const*>(cv.data()), true);
        cx.eq("C01", subj, "iterators", "rbegin().base()==end()", static_cast<void const*>(v.rbegin().base()) == static_cast<void const*>(v.end()), true);
        cx.eq("C01", subj, "iterators", "rend().base()==begin()", static_cast<void const*>(v.rend().base()) == static_cast<void const*>(v.begin()), true);
        cx.eq("C01", subj, "iterators", "rbegin()==rend() iff empty", v.rbegin() == v.rend(), m.empty());
        observe_alignment(st, cx, subj);
        if (m.empty()) { return; }
        cx.eq("C01", subj, "front", "front()", value_of(cv.front()), m.front());
        cx.eq("C01", subj, "back", "back()", value_of(cv.back()), m.back());
        cx.eq("C01", subj, "front", "&front()==data()", static_cast<void const*>(&v.front()), static_cast<void const*>(v.data()));
        cx.eq("C01", subj, "back", "&back()==data()+size-1", static_cast<void const*>(&v.back()), static_cast<void const*>(v.data() + m.size() - 1));
        cx.eq("C01", subj, "front", "&const front()==data()", static_cast<void const*>(&cv.front()) == static_cast<void const*>(cv.data()), true);
        cx.eq("C01", subj, "back", "&const back()==data()+size-1", static_cast<void const*>(&cv.back()) == static_cast<void const*>(cv.data() + m.size() - 1), true);
        {
            // non-const reverse iteration (the const overloads follow below)
            auto mi       = m.rbegin();
            std::size_t k = 0;
            for (auto it = v.rbegin(); it != v.rend(); ++it, ++mi, ++k) {
                if (k >= m.size() || value_of(*it) != *mi || static_cast<void const*>(&*it) != static_cast<void const*>(v.data() + (m.size() - 1 - k))) {
                    cx.fail("C01", subj, "reverse-iteration", "non-const rbegin..rend differs from the reversed model");
                    break;
                }
            }
            if (k != m.size()) { cx.fail("C01", subj, "reverse-iteration", cat("non-const rbegin..rend visited ", k, " elements, model has ", m.size())); }
        }
        for (std::size_t i = 0; i < m.size(); ++i) {
            cx.eq("C01", subj, "operator[]", "operator[]", value_of(cv[i]), m[i]);
            cx.eq("C01", subj, "operator[]", "&operator[]", static_cast<void const*>(&v[i]), static_cast<void const*>(v.data() + i));
        }
        {
            auto mi = m.rbegin();
            for (auto it = cv.rbegin(); it != cv.rend(); ++it, ++mi) {
                if (mi == m.rend() || value_of(*it) != *mi) {
                    cx.fail("C01", subj, "reverse-iteration", "rbegin..rend differs from the reversed model");
                    break;
                }
            }
            auto mj = m.rbegin();
            for (auto it = cv.crbegin(); it != cv.crend(); ++it, ++mj) {
                if (mj == m.rend() || value_of(*it) != *mj) {
                    cx.fail("C01", subj, "reverse-iteration", "crbegin..crend differs from the reversed model");
                    break;
                }
            }
        }
        if constexpr (mc::is_tracked_v<T>) {
            for (auto const& e : registry().take_errors()) { cx.fail("C03", subj, "lifetime:" + e, e); }
        }
    }

    // round 2: address alignment of the element storage.  A second object with the same content is built at the LEAST
    // aligned address its type admits (offset alignof(V) inside a 64-byte aligned block): if the container's own alignment
    // requirement is weaker than its element's, data() is misaligned there (std::vector's storage is always aligned for T)
    void observe_alignment(State const& st, Cx& cx, std::string const& subj) const
    {
        static_assert(alignof(V) <= 64);
        if constexpr (N > 0) {
            alignas(64) unsigned char scratch[sizeof(V) + 64];
            std::memset(scratch, 0x5A, sizeof scratch);
            V* w = ::new (static_cast<void*>(scratch + alignof(V))) V;
            for (int x : st.m) { w->emplace_back(x); }
            auto const mis = reinterpret_cast<std::uintptr_t>(w->data()) % alignof(T);
            if (mis != 0) { cx.fail("C01", subj, "alignment", cat("data() is not aligned for the element type: address % ", alignof(T), " = ", mis, " (alignof(container) = ", alignof(V), ")")); }
            if (sizeof(T) % alignof(T) != 0) { cx.fail("C01", subj, "alignment", "element stride is not a multiple of the alignment"); }
            if (mis == 0) { same(cx, subj, *w, st.m, "second object at the least aligned address"); }
            w->~V();
        }
    }

    std::string key(State const& st) const
    {
        std::string k;
        for (int x : st.m) { k += char('0' + x); }
        k += '|';
        if constexpr (raw_key) {
            k.append(reinterpret_cast<char const*>(st.v), sizeof(V));
        } else {
            k += obs(st);
        }
        return k;
    }
    std::string obs(State const& st) const
    {
        std::string o = cat(st.v->size(), ":");
        auto const n  = std::min<std::size_t>(st.v->size(), N);
        for (std::size_t i = 0; i < n; ++i) { o += cat(value_of(st.v->data()[i]), ","); }
        return o;
    }
    void retire(State& st, Cx& cx) const
    {
        if (st.dead) { return; }
        st.v->~V();
        st.dead = true;
        if constexpr (mc::is_tracked_v<T>) {
            for (auto const& e : registry().take_errors()) { cx.fail("C03", "static_vector::~static_vector", "lifetime:" + e, e); }
            auto const live = registry().live_in(st.lo(), st.hi());
            if (live != 0) {
                cx.fail("C03", "static_vector::~static_vector", "leak", cat(live, " element(s) still alive after the owner was destroyed"));
                registry().forget_range(st.lo(), st.hi());
            }
        }
    }
};

// =======================================================================================
// inplace_vector
// =======================================================================================
template <typename T, std::size_t N, int K>
struct InplaceVectorSys {
    using V      = etl::inplace_vector<T, N>;
    using M      = std::vector<int>;
    using Action = ::Action;
    static constexpr bool trivial = std::is_trivially_copyable_v<T>;
    static constexpr bool raw_key = trivial && std::has_unique_object_representations_v<T>;

    struct State {
        alignas(alignof(V) > 16 ? alignof(V) : 16) unsigned char buf[sizeof(V) + 32];
        V* v;
        M m;
        bool dead{false};
        bool broken{false}; // default-initialisation left a non-empty object (known finding): only reinit_value is offered
        explicit State(unsigned char poison)
        {
            std::memset(buf, poison, sizeof buf);
            v = ::new (static_cast<void*>(buf)) V; // default-initialisation
            m.reserve(N + 2);
            broken = v->size() != 0;
        }
        State(State const&)            = delete;
        State& operator=(State const&) = delete;
        ~State()
        {
            if (!dead && !broken) { v->~V(); }
        }
        void const* lo() const { return buf; }
        void const* hi() const { return buf + sizeof buf; }
    };

    std::string name() const { return cat("inplace_vector<", tname<T>(), ",", N, ">"); }
    std::string family() const { return "inplace_vector"; }
    std::string show(Action const& a) const { return show_action(a); }
    std::string subject(Action const& a) const
    {
        if (a.k == write_k) { return cat("inplace_vector::", accessor_name(a.a), " (written through)"); }
        return cat("inplace_vector::", kind_name(a.k));
    }

    void unary(State const& st, std::vector<Action>& out) const
    {
        if (st.broken) {
            out.push_back({reinit_value, 0, 0, 0});
            return;
        }
        out.push_back({reinit_value, 0, 0, 0});
        int const s = int(st.m.size());
        int const n = int(N);
        for (int v = 1; v <= K; ++v) {
            // try_* are valid in every state (full: must return null and change nothing)
            if constexpr (copyable<T>) { out.push_back({try_push_back_l, v, 0, 0}); }
            out.push_back({try_push_back_r, v, 0, 0});
            out.push_back({try_emplace_back_k, v, 0, 0});
            if (s < n) {
                if constexpr (copyable<T>) { out.push_back({unchecked_push_back_l, v, 0, 0}); }
                out.push_back({unchecked_push_back_r, v, 0, 0});
                out.push_back({unchecked_emplace_back_k, v, 0, 0});
            }
        }
        if constexpr (N > 0) {
            if (s > 0) { out.push_back({pop_back_k, 0, 0, 0}); }
        }
        out.push_back({clear_k, 0, 0, 0});
        if constexpr (N > 0) {
            if constexpr (copyable<T>) { out.push_back({copy_construct, 0, 0, 0}); }
            out.push_back({move_construct, 0, 0, 0});
        }
        // ---- round 2: arities 0 and 2, aliasing arguments, write-through accessors ----
        bool const sparse = N > 8;
        auto const elems  = s > 0 ? span_of(0, s - 1, sparse) : std::vector<int>{};
        out.push_back({try_emplace_back_0, 0, 0, 0});
        if (s < n) { out.push_back({unchecked_emplace_back_0, 0, 0, 0}); }
        if constexpr (two_arg<T>) {
            for (int x = 1; x <= K; ++x) {
                out.push_back({try_emplace_back_2, x, 1, 0});
                if (s < n) { out.push_back({unchecked_emplace_back_2, x, 1, 0}); }
            }
        }
        if constexpr (copyable<T> && N > 0) {
            for (int i : elems) {
                // valid in every state: on a full vector the try_ forms return null and leave everything (incl. the argument) alone
                out.push_back({try_push_back_own, i, 0, 0});
                out.push_back({try_emplace_back_own, i, 0, 0});
                if (s < n) {
                    out.push_back({unchecked_push_back_own, i, 0, 0});
                    out.push_back({unchecked_emplace_back_own, i, 0, 0});
                }
            }
        }
        if constexpr (N > 0) {
            if (s > 0) {
                for (int val = 1; val <= K; ++val) {
                    out.push_back({write_k, 0, 0, val});
                    out.push_back({write_k, 1, s - 1, val});
                    for (int acc : {2, 3, 5}) {
                        for (int i : elems) { out.push_back({write_k, acc, i, val}); }
                    }
                }
            }
        }
    }
    void binary(std::vector<Action>&) const { }

    bool same(Cx& cx, std::string const& subj, V const& v, M const& m, char const* what) const
    {
        if (v.size() != m.size()) {
            cx.fail("C01", subj, "size", cat(what, ": size tetl=", v.size(), " model=", m.size()));
            return false;
        }
        for (std::size_t i = 0; i < m.size(); ++i) {
            int const got = value_of(v.data()[i]);
            if (got != m[i]) {
                cx.fail("C01", subj, "content", cat(what, ": element ", i, " tetl=", got, " model=", m[i]));
                return false;
            }
        }
        return true;
    }

    void apply(State& s, Action const& a, State*, Cx& cx)
    {
        V& v            = *s.v;
        M& m            = s.m;
        auto const subj = subject(a);
        bool const full = m.size() == N;
        int pushed      = a.a; // value the model appends when the call succeeds
        auto check_try  = [&](T* r) {
            if (full) {
                if (r != nullptr) { cx.fail("C01", subj, "try-on-full", "returned non-null on a full vector"); }
            } else {
                if (r != v.data() + m.size()) {
                    cx.fail("C01", subj, "return", "returned pointer is not the address of the new last element");
                }
                m.push_back(pushed);
            }
        };
        auto check_ref = [&](T& r) {
            if (&r != v.data() + m.size()) { cx.fail("C01", subj, "return", "reference is not the new last element"); }
            m.push_back(pushed);
        };
        if (s.broken && a.k != reinit_value) { return; }
        switch (a.k) {
        case reinit_value: {
            // value-initialisation: V{} must be empty whatever the storage held before
            if (!s.broken) { v.~V(); }
            s.v      = ::new (static_cast<void*>(s.buf)) V{};
            s.broken = false;
            m.clear();
            break;
        }
        case try_push_back_l: {
            if constexpr (copyable<T>) {
                T const x(a.a);
                T* r = v.try_push_back(x);
                check_try(r);
            }
            break;
        }
        case try_push_back_r: {
            T x(a.a);
            T* r = v.try_push_back(std::move(x));
            check_try(r);
            if (full && value_of(x) != a.a) { cx.fail("C01", subj, "try-on-full", "argument was moved-from although nothing was inserted"); }
            break;
        }
        case try_emplace_back_k: {
            T* r = v.try_emplace_back(a.a);
            check_try(r);
            break;
        }
        case unchecked_push_back_l: {
            if constexpr (copyable<T>) {
                T const x(a.a);
                T& r = v.unchecked_push_back(x);
                if (&r != v.data() + m.size()) { cx.fail("C01", subj, "return", "reference is not the new last element"); }
                m.push_back(a.a);
            }
            break;
        }
        case unchecked_push_back_r: {
            T x(a.a);
            T& r = v.unchecked_push_back(std::move(x));
            if (&r != v.data() + m.size()) { cx.fail("C01", subj, "return", "reference is not the new last element"); }
            m.push_back(a.a);
            break;
        }
        case unchecked_emplace_back_k: {
            T& r = v.unchecked_emplace_back(a.a);
            if (&r != v.data() + m.size()) { cx.fail("C01", subj, "return", "reference is not the new last element"); }
            m.push_back(a.a);
            break;
        }
        case pop_back_k: {
            if constexpr (N > 0) {
                v.pop_back();
                m.pop_back();
            }
            break;
        }
        // ---------------- round 2 ----------------
        case bulk_fill: {
            if constexpr (N > 0) {
                for (int i = 0; i < a.a; ++i) {
                    (void)v.unchecked_emplace_back(1 + i % 2);
                    m.push_back(1 + i % 2);
                }
            }
            break;
        }
        case try_emplace_back_0: {
            pushed = 0;
            T* r   = v.try_emplace_back();
            check_try(r);
            break;
        }
        case try_emplace_back_2: {
            if constexpr (two_arg<T>) {
                pushed = a.a + 4 * a.b;
                T* r   = v.try_emplace_back(a.a, a.b);
                check_try(r);
            }
            break;
        }
        case unchecked_emplace_back_0: {
            if constexpr (N > 0) {
                pushed = 0;
                T& r   = v.unchecked_emplace_back();
                check_ref(r);
            }
            break;
        }
        case unchecked_emplace_back_2: {
            if constexpr (two_arg<T> && N > 0) {
                pushed = a.a + 4 * a.b;
                T& r   = v.unchecked_emplace_back(a.a, a.b);
                check_ref(r);
            }
            break;
        }
        case try_push_back_own:
        case try_emplace_back_own:
        case unchecked_push_back_own:
        case unchecked_emplace_back_own: {
            if constexpr (copyable<T> && N > 0) {
                pushed       = m[std::size_t(a.a)]; // copy of the aliased value, taken before the call
                T const& own = v[std::size_t(a.a)];
                if (a.k == try_push_back_own) {
                    T* r = v.try_push_back(own);
                    check_try(r);
                } else if (a.k == try_emplace_back_own) {
                    T* r = v.try_emplace_back(own);
                    check_try(r);
                } else if (a.k == unchecked_push_back_own) {
                    T& r = v.unchecked_push_back(own);
                    check_ref(r);
                } else {
                    T& r = v.unchecked_emplace_back(own);
                    check_ref(r);
                }
            }
            break;
        }
        case write_k: {
            if constexpr (N > 0) {
                std::size_t const i = std::size_t(a.b);
                T* target           = nullptr;
                switch (a.a) {
                case 0: target = &v.front(); break;
                case 1: target = &v.back(); break;
                case 2: target = &v[i]; break;
                case 3: {
                    auto it = v.begin();
                    it += a.b;
                    target = &*it;
                    break;
                }
                default: target = v.data() + i; break;
                }
                if (target != v.data() + i) {
                    cx.fail("C01", subj, "reference", cat("the returned reference is not element ", i, " of ", m.size()));
                    return;
                }
                *target = T(a.c);
                m[i]    = a.c;
            }
            break;
        }
        case clear_k: {
            v.clear();
            m.clear();
            break;
        }
        case copy_construct: {
            if constexpr (copyable<T> && N > 0) {
                {
                    V copy(v);
                    same(cx, subj, copy, m, "copy");
                    if (!copy.empty()) { copy.pop_back(); }
                    (void)copy.try_emplace_back(K);
                    copy.clear();
                    if (!same(cx, subj, v, m, "source after mutating its copy")) { return; }
                    check_lifetimes<T>(cx, subj, s.lo(), s.hi(), m.size());
                }
                alignas(V) unsigned char tmp[sizeof(V)];
                std::memset(tmp, 0x5A, sizeof tmp);
                V* t = ::new (static_cast<void*>(tmp)) V(v);
                v.~V();
                std::memset(s.buf, 0xAA, sizeof s.buf);
                s.v = ::new (static_cast<void*>(s.buf)) V(*t);
                t->~V();
                if constexpr (mc::is_tracked_v<T>) {
                    auto const stray = registry().live_in(tmp, tmp + sizeof tmp);
                    if (stray != 0) {
                        cx.fail("C03", subj, "leak", cat(stray, " element(s) alive in a destroyed copy"));
                        registry().forget_range(tmp, tmp + sizeof tmp);
                    }
                }
            }
            break;
        }
        case move_construct: {
            if constexpr (N > 0) {
                alignas(V) unsigned char tmp[sizeof(V)];
                std::memset(tmp, 0x5A, sizeof tmp);
                V* t = ::new (static_cast<void*>(tmp)) V(std::move(v));
                same(cx, subj, *t, m, "moved-to object");
                if (v.size() > N) { cx.fail("C03", subj, "moved-from-invalid", cat("moved-from size ", v.size())); }
                v.clear();
                v.~V();
                std::memset(s.buf, 0xAA, sizeof s.buf);
                s.v = ::new (static_cast<void*>(s.buf)) V(std::move(*t));
                t->clear();
                t->~V();
                if constexpr (mc::is_tracked_v<T>) {
                    auto const stray = registry().live_in(tmp, tmp + sizeof tmp);
                    if (stray != 0) {
                        cx.fail("C03", subj, "leak", cat(stray, " element(s) alive in a destroyed moved-from object"));
                        registry().forget_range(tmp, tmp + sizeof tmp);
                    }
                }
            }
            break;
        }
        default: break;
        }
        same(cx, subj, *s.v, s.m, "after the operation");
        if (V::capacity() != N || V::max_size() != N) { cx.fail("C01", subj, "capacity", "capacity()/max_size() != N"); }
        check_lifetimes<T>(cx, subj, s.lo(), s.hi(), s.m.size());
    }

    void observe(State const& st, Cx& cx) const
    {
        auto const subj = std::string("inplace_vector::<observers>");
        V& v            = *st.v;
        V const& cv     = *st.v;
        M const& m      = st.m;
        if (st.broken) {
            cx.fail("C02", "inplace_vector::<default-init>", "indeterminate-size",
                cat("`inplace_vector<T,N> v;` (default-initialisation) reads an indeterminate size: size()=", cv.size()));
            return;
        }
        cx.eq("C01", subj, "size", "size()", cv.size(), m.size());
        cx.eq("C01", subj, "empty", "empty()", cv.empty(), m.empty());
        cx.eq("C01", subj, "iterators", "end()-begin()", std::size_t(cv.end() - cv.begin()), m.size());
        // round 2: non-const begin/end, data() const, capacity observers, alignment
        cx.eq("C01", subj, "iterators", "nonconst end()-begin()", std::size_t(v.end() - v.begin()), m.size());
        cx.eq("C01", subj, "iterators", "begin()==data()", static_cast<void const*>(v.begin()) == static_cast<void const*>(v.data()), true);
        cx.eq("C01", subj, "iterators", "const begin()==const data()", static_cast<void const*>(cv.begin()) == static_cast<void const*>(cv.data()), true);
        cx.eq("C01", subj, "capacity", "capacity()", cv.capacity(), N);
        cx.eq("C01", subj, "max_size", "max_size()", cv.max_size(), N);
        if constexpr (N > 0) {
            static_assert(alignof(V) <= 64);
            alignas(64) unsigned char scratch[sizeof(V) + 64];
            std::memset(scratch, 0x5A, sizeof scratch);
            V* w = ::new (static_cast<void*>(scratch + alignof(V))) V{};
            for (int x : m) { (void)w->try_emplace_back(x); }
            auto const mis = reinterpret_cast<std::uintptr_t>(w->data()) % alignof(T);
            if (mis != 0) { cx.fail("C01", subj, "alignment", cat("data() is not aligned for the element type: address % ", alignof(T), " = ", mis, " (alignof(container) = ", alignof(V), ")")); }
            if (mis == 0) { same(cx, subj, *w, m, "second object at the least aligned address"); }
            w->~V();
        }
        if constexpr (N > 0) {
            if (m.empty()) { return; }
            cx.eq("C01", subj, "front", "front()", value_of(cv.front()), m.front());
            cx.eq("C01", subj, "back", "back()", value_of(cv.back()), m.back());
            cx.eq("C01", subj, "front", "&front()==data()", static_cast<void const*>(&v.front()), static_cast<void const*>(v.data()));
            cx.eq("C01", subj, "back", "&back()==data()+size-1", static_cast<void const*>(&v.back()) == static_cast<void const*>(v.data() + m.size() - 1), true);
            cx.eq("C01", subj, "front", "&const front()==data()", static_cast<void const*>(&cv.front()) == static_cast<void const*>(cv.data()), true);
            cx.eq("C01", subj, "back", "&const back()==data()+size-1", static_cast<void const*>(&cv.back()) == static_cast<void const*>(cv.data() + m.size() - 1), true);
            {
                std::size_t k = 0;
                for (auto it = cv.begin(); it != cv.end(); ++it, ++k) {
                    if (k >= m.size() || value_of(*it) != m[k]) {
                        cx.fail("C01", subj, "iteration", "begin..end differs from the model");
                        break;
                    }
                }
            }
            for (std::size_t i = 0; i < m.size(); ++i) {
                cx.eq("C01", subj, "operator[]", "operator[]", value_of(cv[i]), m[i]);
                cx.eq("C01", subj, "operator[]", "&operator[]", static_cast<void const*>(&v[i]), static_cast<void const*>(v.data() + i));
            }
        }
        if constexpr (mc::is_tracked_v<T>) {
            for (auto const& e : registry().take_errors()) { cx.fail("C03", subj, "lifetime:" + e, e); }
        }
    }
    std::string key(State const& st) const
    {
        if (st.broken) { return "broken-default-init"; }
        std::string k;
        for (int x : st.m) { k += char('0' + x); }
        k += '|';
        if constexpr (raw_key) {
            k.append(reinterpret_cast<char const*>(st.v), sizeof(V));
        } else {
            k += obs(st);
        }
        return k;
    }
    std::string obs(State const& st) const
    {
        // the default-initialised size is reported once, by observe() (class indeterminate-size);
        // the poison differential then covers everything else
        if (st.broken) { return "0:"; }
        std::string o = cat(st.v->size(), ":");
        auto const n  = std::min<std::size_t>(st.v->size(), N);
        for (std::size_t i = 0; i < n; ++i) { o += cat(value_of(st.v->data()[i]), ","); }
        return o;
    }
    void retire(State& st, Cx& cx) const
    {
        if (st.dead) { return; }
        if (!st.broken) { st.v->~V(); }
        st.dead = true;
        if constexpr (mc::is_tracked_v<T>) {
            for (auto const& e : registry().take_errors()) { cx.fail("C03", "inplace_vector::~inplace_vector", "lifetime:" + e, e); }
            auto const live = registry().live_in(st.lo(), st.hi());
            if (live != 0) {
                cx.fail("C03", "inplace_vector::~inplace_vector", "leak", cat(live, " element(s) still alive after the owner was destroyed"));
                registry().forget_range(st.lo(), st.hi());
            }
        }
    }
};

// =======================================================================================
// stack<T, static_vector<T,N>>
// =======================================================================================
template <typename T, std::size_t N, int K, bool OnInplace = false>
struct StackSys {
    // round 2: the second container the adaptor accepts is inplace_vector - it has back/pop_back/size/empty but no
    // push_back/emplace_back, no assignment (so no swap) and no comparison operators: such a stack can be constructed
    // from a container, observed, written through top() and popped; push/emplace/swap/relational operators are API gaps
    using C      = std::conditional_t<OnInplace, etl::inplace_vector<T, N>, etl::static_vector<T, N>>;
    using V      = etl::stack<T, C>;
    using M      = std::vector<int>; // top = back
    using Action = ::Action;
    static_assert(std::is_same_v<decltype(etl::stack(std::declval<C>())), V>, "deduction guide stack(Container)");

    struct State {
        alignas(alignof(V) > 16 ? alignof(V) : 16) unsigned char buf[sizeof(V) + 32];
        V* v;
        M m;
        bool dead{false};
        explicit State(unsigned char poison)
        {
            std::memset(buf, poison, sizeof buf);
            v = ::new (static_cast<void*>(buf)) V;
            m.reserve(N + 2);
        }
        State(State const&)            = delete;
        State& operator=(State const&) = delete;
        ~State()
        {
            if (!dead) { v->~V(); }
        }
        void const* lo() const { return buf; }
        void const* hi() const { return buf + sizeof buf; }
    };

    std::string name() const { return cat("stack<", tname<T>(), OnInplace ? ",inplace_vector<" : ",static_vector<", N, ">>"); }
    std::string family() const { return "stack"; }
    std::string show(Action const& a) const { return show_action(a); }
    std::string subject(Action const& a) const
    {
        switch (a.k) {
        case push_back_l: return "stack::push(const&)";
        case push_back_r: return "stack::push(&&)";
        case emplace_back_k: return "stack::emplace";
        case emplace_back_0: return "stack::emplace()";
        case pop_back_k: return "stack::pop";
        case write_k: return "stack::top() (written through)";
        default: return cat("stack::", kind_name(a.k));
        }
    }
    static constexpr int ctor_pool_len = N < 3 ? int(N) : 3;
    void unary(State const& st, std::vector<Action>& out) const
    {
        int const s = int(st.m.size());
        if constexpr (!OnInplace) {
            for (int v = 1; v <= K; ++v) {
                if (s < int(N)) {
                    if constexpr (copyable<T>) { out.push_back({push_back_l, v, 0, 0}); }
                    out.push_back({push_back_r, v, 0, 0});
                    out.push_back({emplace_back_k, v, 0, 0});
                }
            }
        }
        if constexpr (N > 0) {
            if (s > 0) { out.push_back({pop_back_k, 0, 0, 0}); }
        }
        if constexpr (copyable<T>) { out.push_back({copy_construct, 0, 0, 0}); }
        out.push_back({move_construct, 0, 0, 0});
        if constexpr (!OnInplace) {
            if constexpr (sv_move_assignable<T>) {
                out.push_back({self_swap, 0, 0, 0});
                out.push_back({self_swap_free, 0, 0, 0});
            }
            // round 2: arity 0, aliasing arguments
            if (s < int(N)) {
                out.push_back({emplace_back_0, 0, 0, 0});
                if constexpr (copyable<T>) {
                    if (s > 0) {
                        out.push_back({stack_push_top, 0, 0, 0});
                        out.push_back({stack_emplace_top, 0, 0, 0});
                    }
                }
            }
        }
        // round 2: construction from a container (copy and move), assignment through top()
        auto const& pl = pool(K, ctor_pool_len);
        for (int i = 0; i < int(pl.size()); ++i) {
            if constexpr (copyable<T>) { out.push_back({stack_ctor_copy, i, 0, 0}); }
            out.push_back({stack_ctor_move, i, 0, 0});
        }
        if constexpr (N > 0) {
            if (s > 0) {
                for (int v = 1; v <= K; ++v) { out.push_back({write_k, 0, 0, v}); }
            }
        }
    }
    void binary(std::vector<Action>& out) const
    {
        if constexpr (!OnInplace) {
            if constexpr (sv_move_assignable<T>) {
                out.push_back({swap_member, 0, 0, 0});
                out.push_back({swap_free, 0, 0, 0});
            }
            out.push_back({relational, 0, 0, 0});
        }
    }
    static void fill_container(C& c, std::vector<int> const& src)
    {
        for (int x : src) {
            if constexpr (OnInplace) {
                (void)c.try_emplace_back(x);
            } else {
                c.emplace_back(x);
            }
        }
    }
    // drains a copy (copyable T) to compare the whole content; otherwise top/size only
    void same(Cx& cx, std::string const& subj, V const& v, M const& m, char const* what) const
    {
        if (v.size() != m.size() || v.empty() != m.empty()) {
            cx.fail("C01", subj, "size", cat(what, ": size tetl=", v.size(), " model=", m.size()));
            return;
        }
        if (!m.empty() && value_of(v.top()) != m.back()) {
            cx.fail("C01", subj, "top", cat(what, ": top tetl=", value_of(v.top()), " model=", m.back()));
            return;
        }
        if constexpr (copyable<T>) {
            V c(v);
            for (std::size_t i = m.size(); i-- > 0;) {
                if (value_of(c.top()) != m[i]) {
                    cx.fail("C01", subj, "content", cat(what, ": element ", i, " tetl=", value_of(c.top()), " model=", m[i]));
                    return;
                }
                c.pop();
            }
        }
    }
    void apply(State& s, Action const& a, State* p, Cx& cx)
    {
        V& v             = *s.v;
        M& m             = s.m;
        auto const subj  = subject(a);
        bool check_other = false;
        switch (a.k) {
        case push_back_l: {
            if constexpr (copyable<T> && !OnInplace) {
                T const x(a.a);
                v.push(x);
                m.push_back(a.a);
            }
            break;
        }
        case push_back_r: {
            if constexpr (!OnInplace) {
                T x(a.a);
                v.push(std::move(x));
                m.push_back(a.a);
            }
            break;
        }
        case emplace_back_k: {
            if constexpr (!OnInplace) {
                v.emplace(a.a);
                m.push_back(a.a);
            }
            break;
        }
        case pop_back_k: {
            if constexpr (N > 0) {
                v.pop();
                m.pop_back();
            }
            break;
        }
        // ---------------- round 2 ----------------
        case emplace_back_0: {
            if constexpr (!OnInplace) {
                v.emplace();
                m.push_back(0);
            }
            break;
        }
        case stack_push_top:
        case stack_emplace_top: {
            if constexpr (!OnInplace && copyable<T>) {
                int const val = m.back();
                if (a.k == stack_push_top) {
                    v.push(v.top());
                } else {
                    v.emplace(v.top());
                }
                m.push_back(val);
            }
            break;
        }
        case stack_ctor_copy:
        case stack_ctor_move: {
            auto const& src = pool(K, ctor_pool_len)[std::size_t(a.a)];
            if (a.k == stack_ctor_copy && !copyable<T>) { break; }
            {
                C cont{};
                fill_container(cont, src);
                v.~V();
                std::memset(s.buf, 0xAA, sizeof s.buf);
                if (a.k == stack_ctor_copy) {
                    if constexpr (copyable<T>) {
                        s.v = ::new (static_cast<void*>(s.buf)) V(static_cast<C const&>(cont));
                        // the source container keeps its content
                        bool ok = cont.size() == src.size();
                        for (std::size_t i = 0; ok && i < src.size(); ++i) { ok = value_of(cont.data()[i]) == src[i]; }
                        if (!ok) { cx.fail("C01", subj, "source-modified", "stack(Container const&) changed the source container"); }
                    }
                } else {
                    s.v = ::new (static_cast<void*>(s.buf)) V(std::move(cont));
                    if (cont.size() > N) { cx.fail("C03", subj, "moved-from-invalid", cat("moved-from container size ", cont.size())); }
                }
            }
            m = src;
            break;
        }
        case write_k: {
            if constexpr (N > 0) {
                v.top() = T(a.c);
                m.back() = a.c;
            }
            break;
        }
        case copy_construct: {
            if constexpr (copyable<T>) {
                V copy(v);
                same(cx, subj, copy, m, "copy");
                if constexpr (N > 0) {
                    if (!copy.empty()) { copy.pop(); }
                }
                same(cx, subj, v, m, "source after mutating its copy");
            }
            break;
        }
        case move_construct: {
            alignas(V) unsigned char tmp[sizeof(V)];
            std::memset(tmp, 0x5A, sizeof tmp);
            V* t = ::new (static_cast<void*>(tmp)) V(std::move(v));
            same(cx, subj, *t, m, "moved-to object");
            if (v.size() > N) { cx.fail("C03", subj, "moved-from-invalid", cat("moved-from size ", v.size())); }
            while (!v.empty()) { v.pop(); }
            v.~V();
            std::memset(s.buf, 0xAA, sizeof s.buf);
            s.v = ::new (static_cast<void*>(s.buf)) V(std::move(*t));
            while (!t->empty()) { t->pop(); }
            t->~V();
            break;
        }
        case self_swap:
        case self_swap_free: {
            if constexpr (sv_move_assignable<T> && !OnInplace) {
                if (a.k == self_swap) {
                    v.swap(v);
                } else {
                    using etl::swap;
                    swap(v, v);
                }
            }
            if (v.size() != m.size() || (!m.empty() && value_of(v.top()) != m.back())) {
                cx.fail("C03", subj, "self-swap-changes-value", cat("after swapping a stack with itself: size tetl=", v.size(), " before=", m.size()));
                check_lifetimes<T>(cx, subj, s.lo(), s.hi(), v.size());
                return;
            }
            break;
        }
        case swap_member:
        case swap_free: {
            if constexpr (sv_move_assignable<T> && !OnInplace) {
                if (a.k == swap_member) {
                    v.swap(*p->v);
                } else {
                    using etl::swap;
                    swap(v, *p->v);
                }
                m.swap(p->m);
                check_other = true;
            }
            break;
        }
        case relational: {
            if constexpr (!OnInplace) {
                V const& x = v;
                V const& y = *p->v;
                cx.eq("C01", subj, "==", "==", x == y, m == p->m);
                cx.eq("C01", subj, "!=", "!=", x != y, m != p->m);
                cx.eq("C01", subj, "<", "<", x < y, m < p->m);
                cx.eq("C01", subj, "<=", "<=", x <= y, m <= p->m);
                cx.eq("C01", subj, ">", ">", x > y, m > p->m);
                cx.eq("C01", subj, ">=", ">=", x >= y, m >= p->m);
            }
            break;
        }
        default: break;
        }
        same(cx, subj, *s.v, s.m, "after the operation");
        check_lifetimes<T>(cx, subj, s.lo(), s.hi(), s.m.size());
        if (check_other && p != nullptr) {
            same(cx, subj, *p->v, p->m, "other operand after the operation");
            check_lifetimes<T>(cx, subj, p->lo(), p->hi(), p->m.size());
        }
    }
    void observe(State const& st, Cx& cx) const
    {
        auto const subj = std::string("stack::<observers>");
        cx.eq("C01", subj, "size", "size()", st.v->size(), st.m.size());
        cx.eq("C01", subj, "empty", "empty()", st.v->empty(), st.m.empty());
        if (!st.m.empty()) { cx.eq("C01", subj, "top", "top()", value_of(static_cast<V const&>(*st.v).top()), st.m.back()); }
    }
    std::string key(State const& st) const
    {
        std::string k;
        for (int x : st.m) { k += char('0' + x); }
        k += '|';
        if constexpr (std::is_trivially_copyable_v<T> && std::has_unique_object_representations_v<T>) {
            k.append(reinterpret_cast<char const*>(st.v), sizeof(V));
        } else {
            k += obs(st);
        }
        return k;
    }
    std::string obs(State const& st) const
    {
        std::string o = cat(st.v->size(), ":");
        if (!st.v->empty() && st.v->size() <= N) { o += cat(value_of(static_cast<V const&>(*st.v).top())); }
        return o;
    }
    void retire(State& st, Cx& cx) const
    {
        if (st.dead) { return; }
        st.v->~V();
        st.dead = true;
        if constexpr (mc::is_tracked_v<T>) {
            for (auto const& e : registry().take_errors()) { cx.fail("C03", "stack::~stack", "lifetime:" + e, e); }
            auto const live = registry().live_in(st.lo(), st.hi());
            if (live != 0) {
                cx.fail("C03", "stack::~stack", "leak", cat(live, " element(s) still alive after the owner was destroyed"));
                registry().forget_range(st.lo(), st.hi());
            }
        }
    }
};

// binary actions (swap, assignment, relational operators) use partner states with id < g_partner_cap; the big thorough
// configurations lower it (BFS order: the first ids are the shortest histories, all sizes 0..N are among them)
std::size_t g_partner_cap = 100000;

template <typename Sys, typename... A>
void explore(mc::Reporter& r, std::size_t maxStates, std::size_t maxDepth, A... args)
{
    Sys sys{args...};
    mc::ExploreLimits lim;
    lim.max_states   = maxStates;
    lim.max_depth    = maxDepth;
    lim.max_partners = g_partner_cap;
    if (g_partner_cap < 100000) { r.note(cat("binary actions restricted to partner states #0..#", g_partner_cap - 1)); }
    mc::Explorer<Sys> ex(sys, r, lim);
    ex.run();
}

// capacity at the size-type boundary (254/255/256): depth-bounded exploration from the seed
// states {N-2, N-1, N elements} (element i has value 1 + i % 2); closure is out of reach here,
// the evidence says so (exhaustive:false)
template <typename Sys>
void explore_boundary(mc::Reporter& r, std::size_t n, int fillKind, std::size_t depth, Sys sys)
{
    mc::ExploreLimits lim;
    lim.max_states          = 200000;
    lim.max_depth           = depth;
    lim.max_partners        = r.thorough() ? 40 : 12; // round 2: 12 -> 40 partner states in the thorough tier
    lim.poison_differential = false;
    mc::Explorer<Sys> ex(sys, r, lim);
    for (std::size_t fill : {n - 2, n - 1, n}) {
        std::vector<Action> h;
        for (std::size_t i = 0; i < fill; ++i) { h.push_back(Action{fillKind, int(1 + i % 2), 0, 0}); }
        ex.seeds.push_back(std::move(h));
    }
    ex.run();
    r.not_exhaustive("capacity at the size-type boundary: depth-bounded from seed states, not a closure");
}

using TCM = mc::Tracked<mc::copy_move>;
using TMO = mc::Tracked<mc::move_only>;
using TCO = mc::Tracked<mc::copy_only>;
using TTD = mc::Tracked<mc::trivial_default>;
using TR3 = mc::Tracked<mc::rule3>;

template <typename T, std::size_t N, int K>
void add_sv(mc::Main& m, std::vector<std::string> tiers, int poolLen, std::size_t partners = 100000)
{
    m.job(cat("static_vector<", tname<T>(), ",", N, ">/k", K), tiers, [=](mc::Reporter& r) {
        g_partner_cap = partners;
        explore<StaticVectorSys<T, N, K>>(r, 3000000, 1000, poolLen);
    });
}
template <typename T, std::size_t N, int K>
void add_iv(mc::Main& m, std::vector<std::string> tiers)
{
    m.job(cat("inplace_vector<", tname<T>(), ",", N, ">/k", K), tiers,
        [=](mc::Reporter& r) { explore<InplaceVectorSys<T, N, K>>(r, 3000000, 1000); });
}
template <typename T, std::size_t N>
void add_boundary(mc::Main& m, bool thoroughOnly = false)
{
    std::vector<std::string> const tiers = thoroughOnly ? std::vector<std::string>{"thorough"} : std::vector<std::string>{"quick", "thorough"};
    constexpr bool huge                  = N > 1000; // 65535/65536: histories of N single steps per state do not fit; compact seeds
    m.job(cat("static_vector<", tname<T>(), ",", N, ">/boundary"), tiers, [=](mc::Reporter& r) {
        if constexpr (huge) {
            // seed states built by three calls: N-2 / N-1 / N copies of 1, first and last element overwritten with 2
            mc::ExploreLimits lim;
            lim.max_states          = 200000;
            lim.max_depth           = 1;
            lim.max_partners        = 6;
            lim.poison_differential = false;
            StaticVectorSys<T, N, 2> sys{1};
            mc::Explorer<StaticVectorSys<T, N, 2>> ex(sys, r, lim);
            for (std::size_t fill : {N - 2, N - 1, N}) {
                ex.seeds.push_back({Action{ctor_n_v, int(fill), 1, 0}, Action{write_k, 0, 0, 2}, Action{write_k, 2, int(fill - 1), 2}});
            }
            ex.run();
            r.not_exhaustive("capacity at the size-type boundary: depth-bounded from seed states, not a closure");
        } else {
            explore_boundary(r, N, emplace_back_k, r.thorough() ? 2 : 1, StaticVectorSys<T, N, 2>{1});
        }
    });
    m.job(cat("inplace_vector<", tname<T>(), ",", N, ">/boundary"), tiers, [=](mc::Reporter& r) {
        std::vector<Action> pre{Action{reinit_value, 0, 0, 0}};
        mc::ExploreLimits lim;
        lim.max_states          = 200000;
        lim.max_depth           = huge ? 2 : (r.thorough() ? 3 : 2);
        lim.poison_differential = false;
        InplaceVectorSys<T, N, 2> sys;
        mc::Explorer<InplaceVectorSys<T, N, 2>> ex(sys, r, lim);
        for (std::size_t fill : {N - 2, N - 1, N}) {
            std::vector<Action> h = pre;
            if constexpr (huge) {
                h.push_back(Action{bulk_fill, int(fill), 0, 0});
            } else {
                for (std::size_t i = 0; i < fill; ++i) { h.push_back(Action{unchecked_emplace_back_k, int(1 + i % 2), 0, 0}); }
            }
            ex.seeds.push_back(std::move(h));
        }
        ex.run();
        r.not_exhaustive("capacity at the size-type boundary: depth-bounded from seed states, not a closure");
    });
}
// round 2 (direction 4): longer histories from the boundary seed states over the thin menu (thorough only)
template <typename T, std::size_t N>
void add_boundary_deep(mc::Main& m, std::size_t depth)
{
    m.job(cat("static_vector<", tname<T>(), ",", N, ">/boundary-deep"), {"thorough"}, [=](mc::Reporter& r) {
        r.note(cat("thin menu (positions/counts {0,size,N-size,N}, value 1, sources {} and {1}), all histories of length <= ", depth, " from the seeds N-2, N-1, N"));
        explore_boundary(r, N, emplace_back_k, depth, StaticVectorSys<T, N, 2>{1, true});
    });
}
template <typename T, std::size_t N, int K>
void add_st(mc::Main& m, std::vector<std::string> tiers, std::size_t partners = 100000)
{
    m.job(cat("stack<", tname<T>(), ",", N, ">/k", K), tiers, [=](mc::Reporter& r) {
        g_partner_cap = partners;
        explore<StackSys<T, N, K>>(r, 3000000, 1000);
    });
}
template <typename T, std::size_t N, int K>
void add_st_iv(mc::Main& m, std::vector<std::string> tiers)
{
    m.job(cat("stack<", tname<T>(), ",inplace_vector<", N, ">>/k", K), tiers, [=](mc::Reporter& r) {
        r.note("stack on inplace_vector: push/emplace/swap/relational operators do not compile (API gap); explored: construction from a container, top, pop, copy/move");
        explore<StackSys<T, N, K, true>>(r, 3000000, 1000);
    });
}

} // namespace

int main(int argc, char** argv)
{
    mc::Main m(argc, argv);
    std::vector<std::string> const both{"quick", "thorough"};
    std::vector<std::string> const th{"thorough"};
    // closure configurations: capacity 0..4 (quick), 5 (thorough); alphabet 2 (quick) / 3 (thorough)
    // (MC_PART splits the instantiations over several binaries so that they compile in parallel)
#if !defined(MC_PART) || MC_PART == 1
    add_sv<int, 0, 2>(m, both, 2);
    add_sv<int, 1, 2>(m, both, 2);
    add_sv<int, 2, 2>(m, both, 2);
    add_sv<int, 3, 2>(m, both, 2);
    add_sv<int, 4, 2>(m, both, 2);
    add_sv<int, 3, 3>(m, th, 3);
    add_sv<int, 5, 2>(m, th, 3);
    add_sv<int, 4, 3>(m, th, 2);          // round 2: binary actions over ALL pairs of the 1280 states (was: first 400)
    add_sv<int, 6, 2>(m, th, 2, 1200);    // round 2: partner cap 300 -> 1200 (of 5103 states)
#endif
#if !defined(MC_PART) || MC_PART == 2
    add_sv<TCM, 0, 2>(m, both, 2);
    add_sv<TCM, 1, 2>(m, both, 2);
    add_sv<TCM, 2, 2>(m, both, 2);
    add_sv<TCM, 3, 2>(m, both, 2);
    add_sv<TCM, 4, 2>(m, both, 2);
    add_sv<TCM, 3, 3>(m, th, 3);
    add_sv<TCM, 5, 2>(m, th, 3);
    add_sv<TCM, 4, 3>(m, th, 2);
    add_sv<TCM, 6, 2>(m, th, 2);          // round 2: all pairs of the 1093 states (was: first 400)
#endif
#if !defined(MC_PART) || MC_PART == 3
    add_sv<TMO, 1, 2>(m, both, 2);
    add_sv<TMO, 3, 2>(m, both, 2);
    add_sv<TCO, 1, 2>(m, both, 2);
    add_sv<TCO, 3, 2>(m, both, 2);
    add_sv<TMO, 4, 2>(m, th, 2);
    add_sv<TCO, 4, 2>(m, th, 2);
#endif
#if !defined(MC_PART) || MC_PART == 4

    add_iv<int, 0, 2>(m, both);
    add_iv<int, 1, 2>(m, both);
    add_iv<int, 3, 2>(m, both);
    add_iv<int, 4, 2>(m, both);
    add_iv<TCM, 0, 2>(m, both);
    add_iv<TCM, 1, 2>(m, both);
    add_iv<TCM, 3, 2>(m, both);
    add_iv<TMO, 3, 2>(m, both);
    add_iv<TCO, 3, 2>(m, both);
    add_iv<int, 6, 3>(m, th);
    add_iv<TCM, 5, 3>(m, th);
    add_iv<int, 7, 3>(m, th); // round 2: was <int,8>/k3 - the widened menu (value 0, writes) takes that to 589825 states / 10 min
    add_iv<TMO, 5, 3>(m, th);
    add_iv<TCO, 5, 3>(m, th);

    add_st<int, 1, 2>(m, both);
    add_st<int, 3, 2>(m, both);
    add_st<TCM, 3, 2>(m, both);
    add_st<TMO, 3, 2>(m, both);
    add_st<int, 4, 3>(m, th);       // round 2: all pairs
    add_st<int, 5, 3>(m, th, 1500); // round 2: the widened menu (value 0, container constructors) gives 11343 states; binary actions over the first 1500
    add_st<TCM, 4, 3>(m, th);
#endif
#if !defined(MC_PART) || MC_PART == 5
    add_boundary<int, 254>(m);
    add_boundary<int, 255>(m);
    add_boundary<int, 256>(m);
    add_boundary<TCM, 255>(m);
    add_boundary<TCM, 256>(m);
#endif
    // ---- round 2: sizeof(T) == 1 at the size-type boundary (quick pair; the rest is in part 9) ----
#if !defined(MC_PART) || MC_PART == 5
    add_boundary<unsigned char, 255>(m);
    add_boundary<unsigned char, 256>(m);
#endif
    // ---- round 2: further element types (static_vector, inplace_vector), stack on inplace_vector ----
#if !defined(MC_PART) || MC_PART == 6
    add_sv<Arg2, 3, 2>(m, both, 2);
    add_sv<Agg2, 2, 2>(m, both, 2);
    add_sv<TR3, 3, 2>(m, both, 2);
    add_sv<bool, 4, 1>(m, both, 3);
    add_sv<unsigned char, 3, 2>(m, both, 2);
    add_sv<ThrowMove, 3, 2>(m, both, 2);
    add_sv<OverT, 3, 2>(m, both, 2);
    add_sv<OverN, 3, 2>(m, both, 2);
    add_sv<OverN, 1, 2>(m, both, 2);
#endif
#if !defined(MC_PART) || MC_PART == 7
    add_iv<Arg2, 3, 2>(m, both);
    add_iv<Agg2, 3, 2>(m, both);
    add_iv<TR3, 3, 2>(m, both);
    add_iv<ThrowMove, 3, 2>(m, both);
    add_iv<OverT, 3, 2>(m, both);
    add_iv<OverN, 3, 2>(m, both);
    add_iv<OverN, 1, 2>(m, both);
    add_iv<bool, 4, 1>(m, both);
    add_iv<unsigned char, 3, 2>(m, both);

    add_st_iv<int, 3, 2>(m, both);
    add_st_iv<TCM, 3, 2>(m, both);
    add_st_iv<TMO, 3, 2>(m, both);
    add_st_iv<int, 0, 2>(m, both);
    add_st<TR3, 3, 2>(m, both);
    add_st<TCO, 3, 2>(m, both);
    add_st<int, 0, 2>(m, both);
#endif
    // ---- round 2, thorough only: the new element types at the next capacity ----
#if !defined(MC_PART) || MC_PART == 8
    add_sv<Agg2, 3, 2>(m, th, 2);
    add_sv<Arg2, 4, 2>(m, th, 2);
    add_sv<TR3, 4, 2>(m, th, 2);
    add_sv<bool, 6, 1>(m, th, 3);
    add_sv<ThrowMove, 4, 2>(m, th, 2);
    add_sv<OverN, 4, 2>(m, th, 2);
    add_iv<Arg2, 5, 2>(m, th);
    add_iv<TR3, 5, 3>(m, th);
    add_iv<OverN, 5, 2>(m, th);
    add_st_iv<TCM, 5, 3>(m, th);
#endif
    // ---- round 2, thorough only: sizeof(T) == 1 at the remaining size-type boundaries ----
#if !defined(MC_PART) || MC_PART == 9
    add_boundary<unsigned char, 254>(m, true);
    add_boundary<unsigned char, 257>(m, true);
    add_boundary<unsigned char, 65535>(m, true);
    add_boundary<unsigned char, 65536>(m, true);
#endif
    // ---- round 2, thorough only: longer histories from the boundary seeds (thin menu) ----
#if !defined(MC_PART) || MC_PART == 10
    add_boundary_deep<int, 255>(m, 4);
    add_boundary_deep<int, 256>(m, 4);
    add_boundary_deep<unsigned char, 254>(m, 4);
    add_boundary_deep<unsigned char, 257>(m, 4);
    add_boundary_deep<TCM, 255>(m, 4);
    add_boundary_deep<TCM, 256>(m, 4);
#endif
    // (Tracked<trivial_default> is not explored here: its default constructor is trivial, so T{} - resize(n), emplace_back() -
    //  creates objects the lifetime registry never sees; every report would be an artefact of the instrumented type)
    return m.run();
}
