// C01 (and the container half of C02, C03, C05-complement):
// static_vector / inplace_vector / stack explored to a fixed point in lock-step with
// std::vector<int> (the model always holds plain ints; Tracked elements map to their value).
#include "explore.hpp"
#include "tracked.hpp"

#include <etl/inplace_vector.hpp>
#include <etl/stack.hpp>
#include <etl/vector.hpp>

#include <stack>
#include <type_traits>
#include <vector>

using mc::cat;
using mc::Cx;
using mc::registry;
using mc::value_of;

namespace {

template <typename T>
constexpr bool copyable = std::is_copy_constructible_v<T>;
// static_vector's move assignment is constrained on is_assignable_v<T&, T&> and swap() is written in
// terms of it, so neither exists for a move-only T (API gap, not behaviour - DESIGN section 8 rule 3)
template <typename T>
constexpr bool sv_move_assignable = std::is_copy_assignable_v<T>;

template <typename T>
std::string tname()
{
    if constexpr (std::is_same_v<T, int>) {
        return "int";
    } else if constexpr (std::is_same_v<T, mc::Tracked<mc::copy_move>>) {
        return "Tracked<copy+move>";
    } else if constexpr (std::is_same_v<T, mc::Tracked<mc::move_only>>) {
        return "Tracked<move-only>";
    } else if constexpr (std::is_same_v<T, mc::Tracked<mc::trivial_default>>) {
        return "Tracked<trivial-default-ctor>";
    } else {
        return "Tracked<copy-only>";
    }
}

// drains the lifetime registry into C03 violations and compares the live count inside the
// owner's storage with the model's element count
template <typename T>
void check_lifetimes(Cx& cx, std::string const& subject, void const* lo, void const* hi, std::size_t expected_live)
{
    if constexpr (mc::is_tracked_v<T>) {
        for (auto const& e : registry().take_errors()) { cx.fail("C03", subject, "lifetime:" + e, e); }
        auto const live = registry().live_in(lo, hi);
        if (live != expected_live) {
            cx.fail("C03", subject, "live-count", cat("live objects inside the owner: ", live, ", elements in the model: ", expected_live));
        }
    }
}

enum Kind : int {
    push_back_l,
    push_back_r,
    push_back_own,   // v.push_back(v[a])
    emplace_back_k,
    pop_back_k,
    insert_l,        // insert(pos, T const&)
    insert_r,        // insert(pos, T&&)
    insert_own,      // insert(pos, v[b])  (aliasing lvalue)
    emplace_k,       // emplace(pos, value)
    insert_n,        // insert(pos, n, v)
    insert_n_own,    // insert(pos, n, v[c])
    insert_range,    // insert(pos, first, last) from an external exact-size block
    erase_1,
    erase_range,
    resize_k,
    resize_v,
    assign_n,
    assign_range,
    clear_k,
    self_copy_assign,
    self_swap,
    self_swap_free,
    free_erase,
    free_erase_if,
    copy_construct,  // copy, compare, mutate the copy, source unchanged; then adopt the copy
    move_construct,  // moved-to equals model; source stays valid; adopt the moved-to object
    ctor_n,
    ctor_n_v,
    ctor_range,
    ctor_c_array,
    try_push_back_l, // inplace_vector
    try_push_back_r,
    try_emplace_back_k,
    unchecked_push_back_l,
    unchecked_push_back_r,
    unchecked_emplace_back_k,
    reinit_value,    // replace the object by a value-initialised one: V{}
    // binary
    swap_member,
    swap_free,
    copy_assign,
    move_assign,
    relational,
};

char const* kind_name(int k)
{
    static char const* names[] = {"push_back(const&)", "push_back(&&)", "push_back(own element)", "emplace_back", "pop_back",
        "insert(pos,const&)", "insert(pos,&&)", "insert(pos,own element)", "emplace(pos,v)", "insert(pos,n,v)",
        "insert(pos,n,own element)", "insert(pos,first,last)", "erase(pos)", "erase(first,last)", "resize(n)", "resize(n,v)",
        "assign(n,v)", "assign(first,last)", "clear", "operator=(const&) self", "swap(self)", "etl::swap(self)", "etl::erase",
        "etl::erase_if", "copy-construct", "move-construct", "ctor(n)", "ctor(n,v)", "ctor(first,last)", "ctor(c_array)",
        "try_push_back(const&)", "try_push_back(&&)", "try_emplace_back", "unchecked_push_back(const&)", "unchecked_push_back(&&)",
        "unchecked_emplace_back", "value-initialise V{}", "swap(other)", "etl::swap(a,b)", "operator=(const&)", "operator=(&&)", "relational operators"};
    return names[k];
}

struct Action {
    int k, a, b, c;
};

std::string show_action(Action const& x) { return cat(kind_name(x.k), "(", x.a, ",", x.b, ",", x.c, ")"); }

// position / count menus: everything for small capacities, the boundary set for large ones
inline std::vector<int> span_of(int lo, int hi, bool sparse)
{
    std::vector<int> v;
    if (!sparse || hi - lo <= 6) {
        for (int i = lo; i <= hi; ++i) { v.push_back(i); }
        return v;
    }
    for (int i : {lo, lo + 1, (lo + hi) / 2, hi - 1, hi}) {
        if (v.empty() || v.back() != i) { v.push_back(i); }
    }
    return v;
}

// the pool of external source ranges: all sequences of length <= L over {1..K}
inline std::vector<std::vector<int>> const& pool(int K, int L)
{
    static std::map<std::pair<int, int>, std::vector<std::vector<int>>> cache;
    auto& p = cache[{K, L}];
    if (p.empty()) {
        p.push_back({});
        std::size_t lo = 0;
        for (int len = 1; len <= L; ++len) {
            std::size_t hi = p.size();
            for (std::size_t i = lo; i < hi; ++i) {
                for (int v = 1; v <= K; ++v) {
                    auto s = p[i];
                    s.push_back(v);
                    p.push_back(s);
                }
            }
            lo = hi;
        }
    }
    return p;
}

// =======================================================================================
// static_vector
// =======================================================================================
template <typename T, std::size_t N, int K>
struct StaticVectorSys {
    using V = etl::static_vector<T, N>;
    using M = std::vector<int>;
    using Action = ::Action;
    static constexpr bool trivial = std::is_trivially_copyable_v<T>;

    struct State {
        alignas(alignof(V) > 16 ? alignof(V) : 16) unsigned char buf[sizeof(V) + 32];
        V* v;
        M m;
        bool dead{false};
        explicit State(unsigned char poison)
        {
            std::memset(buf, poison, sizeof buf);
            v = ::new (static_cast<void*>(buf)) V; // default-initialisation (not V{})
            m.reserve(N + 2);
        }
        State(State const&)            = delete;
        State& operator=(State const&) = delete;
        ~State()
        {
            if (!dead) { v->~V(); }
        }
        void const* lo() const { return buf; }
        void const* hi() const { return buf + sizeof buf; }
    };

    int pool_len;
    explicit StaticVectorSys(int poolLen) : pool_len(poolLen) { }

    std::string name() const { return cat("static_vector<", tname<T>(), ",", N, ">"); }
    std::string family() const { return "static_vector"; }
    std::string show(Action const& a) const { return show_action(a); }
    std::string subject(Action const& a) const { return cat("static_vector::", kind_name(a.k)); }

    void unary(State const& st, std::vector<Action>& out) const
    {
        int const s       = int(st.m.size());
        int const n       = int(N);
        bool const sparse = N > 8;
        for (int v = 1; v <= K; ++v) {
            if (s < n) {
                if constexpr (copyable<T>) { out.push_back({push_back_l, v, 0, 0}); }
                out.push_back({push_back_r, v, 0, 0});
                out.push_back({emplace_back_k, v, 0, 0});
            }
        }
        if (s > 0) { out.push_back({pop_back_k, 0, 0, 0}); }
        auto const elems = s > 0 ? span_of(0, s - 1, sparse) : std::vector<int>{};
        if constexpr (copyable<T>) {
            if (s < n) {
                for (int i : elems) { out.push_back({push_back_own, i, 0, 0}); }
            }
        }
        for (int p : span_of(0, s, sparse)) {
            if (s < n) {
                for (int v = 1; v <= K; ++v) {
                    if constexpr (copyable<T>) { out.push_back({insert_l, p, v, 0}); }
                    out.push_back({insert_r, p, v, 0});
                    out.push_back({emplace_k, p, v, 0});
                }
                if constexpr (copyable<T>) {
                    for (int i : elems) { out.push_back({insert_own, p, i, 0}); }
                }
            }
            if constexpr (copyable<T>) {
                for (int cnt : span_of(0, n - s, sparse)) {
                    for (int v = 1; v <= K; ++v) { out.push_back({insert_n, p, cnt, v}); }
                    for (int i : elems) { out.push_back({insert_n_own, p, cnt, i}); }
                }
                auto const& pl = pool(K, pool_len);
                for (int i = 0; i < int(pl.size()); ++i) {
                    if (int(pl[std::size_t(i)].size()) <= n - s) { out.push_back({insert_range, p, i, 0}); }
                }
            }
        }
        for (int p : elems) { out.push_back({erase_1, p, 0, 0}); }
        for (int f : span_of(0, s, sparse)) {
            for (int l : span_of(f, s, sparse)) { out.push_back({erase_range, f, l, 0}); }
        }
        for (int cnt : span_of(0, n, sparse)) {
            out.push_back({resize_k, cnt, 0, 0});
            if constexpr (copyable<T>) {
                for (int v = 1; v <= K; ++v) {
                    out.push_back({resize_v, cnt, v, 0});
                    out.push_back({assign_n, cnt, v, 0});
                    out.push_back({ctor_n_v, cnt, v, 0});
                }
            }
            out.push_back({ctor_n, cnt, 0, 0});
        }
        if (sparse && s > 0 && s < n) {
            // around the current size as well (the size-type boundary sits next to it)
            for (int cnt : {s - 1, s + 1}) {
                out.push_back({resize_k, cnt, 0, 0});
                if constexpr (copyable<T>) { out.push_back({resize_v, cnt, 1, 0}); }
            }
        }
        if constexpr (copyable<T>) {
            auto const& pl = pool(K, pool_len);
            for (int i = 0; i < int(pl.size()); ++i) {
                if (int(pl[std::size_t(i)].size()) <= n) {
                    out.push_back({assign_range, i, 0, 0});
                    out.push_back({ctor_range, i, 0, 0});
                }
            }
            out.push_back({self_copy_assign, 0, 0, 0});
            out.push_back({copy_construct, 0, 0, 0});
        }
        out.push_back({clear_k, 0, 0, 0});
        if constexpr (sv_move_assignable<T>) {
            out.push_back({self_swap, 0, 0, 0});
            out.push_back({self_swap_free, 0, 0, 0});
        }
        for (int v = 1; v <= K; ++v) {
            out.push_back({free_erase, v, 0, 0});
            out.push_back({free_erase_if, v, 0, 0});
        }
        out.push_back({move_construct, 0, 0, 0});
        if constexpr (N >= 2) {
            for (int x = 1; x <= K; ++x) {
                for (int y = 1; y <= K; ++y) { out.push_back({ctor_c_array, x, y, 0}); }
            }
        }
    }

    void binary(std::vector<Action>& out) const
    {
        if constexpr (sv_move_assignable<T>) {
            out.push_back({swap_member, 0, 0, 0});
            out.push_back({swap_free, 0, 0, 0});
            out.push_back({move_assign, 0, 0, 0});
        }
        if constexpr (copyable<T>) { out.push_back({copy_assign, 0, 0, 0}); }
        out.push_back({relational, 0, 0, 0});
    }

    // content + size of the implementation equals the model
    bool same(Cx& cx, std::string const& subj, V const& v, M const& m, char const* what) const
    {
        if (v.size() != m.size()) {
            cx.fail("C01", subj, "size", cat(what, ": size tetl=", v.size(), " model=", m.size()));
            return false;
        }
        for (std::size_t i = 0; i < m.size(); ++i) {
            int const got = value_of(v.data()[i]);
            if (got != m[i]) {
                cx.fail("C01", subj, "content", cat(what, ": element ", i, " tetl=", got, " model=", m[i], " (model ", mc::show_seq(m), ")"));
                return false;
            }
        }
        return true;
    }

    void replace_with(State& s, V* fresh_in_place_builder) = delete;

    void apply(State& s, Action const& a, State* p, Cx& cx)
    {
        V& v             = *s.v;
        M& m             = s.m;
        auto const subj  = subject(a);
        long ri          = -2;
        long rm          = -2;
        bool check_other = false;
        switch (a.k) {
        case push_back_l: {
            if constexpr (copyable<T>) {
                T const x(a.a);
                v.push_back(x);
                m.push_back(a.a);
            }
            break;
        }
        case push_back_r: {
            T x(a.a);
            v.push_back(std::move(x));
            m.push_back(a.a);
            break;
        }
        case push_back_own: {
            if constexpr (copyable<T>) {
                v.push_back(v[std::size_t(a.a)]);
                int const val = m[std::size_t(a.a)];
                m.push_back(val);
            }
            break;
        }
        case emplace_back_k: {
            v.emplace_back(a.a);
            m.emplace_back(a.a);
            break;
        }
        case pop_back_k: {
            v.pop_back();
            m.pop_back();
            break;
        }
        case insert_l: {
            if constexpr (copyable<T>) {
                T const x(a.b);
                auto it  = v.insert(v.begin() + a.a, x);
                ri       = it - v.begin();
                auto mit = m.insert(m.begin() + a.a, a.b);
                rm       = mit - m.begin();
            }
            break;
        }
        case insert_r: {
            T x(a.b);
            auto it  = v.insert(v.begin() + a.a, std::move(x));
            ri       = it - v.begin();
            auto mit = m.insert(m.begin() + a.a, a.b);
            rm       = mit - m.begin();
            break;
        }
        case insert_own: {
            if constexpr (copyable<T>) {
                auto it       = v.insert(v.begin() + a.a, v[std::size_t(a.b)]);
                ri            = it - v.begin();
                int const val = m[std::size_t(a.b)];
                auto mit      = m.insert(m.begin() + a.a, val);
                rm            = mit - m.begin();
            }
            break;
        }
        case emplace_k: {
            auto it  = v.emplace(v.begin() + a.a, a.b);
            ri       = it - v.begin();
            auto mit = m.emplace(m.begin() + a.a, a.b);
            rm       = mit - m.begin();
            break;
        }
        case insert_n: {
            if constexpr (copyable<T>) {
                T const x(a.c);
                auto it  = v.insert(v.begin() + a.a, std::size_t(a.b), x);
                ri       = it - v.begin();
                auto mit = m.insert(m.begin() + a.a, std::size_t(a.b), a.c);
                rm       = mit - m.begin();
            }
            break;
        }
        case insert_n_own: {
            if constexpr (copyable<T>) {
                auto it       = v.insert(v.begin() + a.a, std::size_t(a.b), v[std::size_t(a.c)]);
                ri            = it - v.begin();
                int const val = m[std::size_t(a.c)];
                auto mit      = m.insert(m.begin() + a.a, std::size_t(a.b), val);
                rm            = mit - m.begin();
            }
            break;
        }
        case insert_range: {
            if constexpr (copyable<T>) {
                auto const& src = pool(K, pool_len)[std::size_t(a.b)];
                {
                    mc::GuardedBlock<T> blk(src.size());
                    for (std::size_t i = 0; i < src.size(); ++i) { ::new (static_cast<void*>(blk.data() + i)) T(src[i]); }
                    T const* f = blk.data();
                    T const* l = blk.data() + src.size();
                    auto it    = v.insert(v.begin() + a.a, f, l);
                    ri         = it - v.begin();
                    for (std::size_t i = 0; i < src.size(); ++i) {
                        if (value_of(blk.data()[i]) != src[i]) { cx.fail("C01", subj, "source-modified", "insert(pos,first,last) changed its source range"); }
                        blk.data()[i].~T();
                    }
                    if (!blk.intact()) { cx.fail("C02", subj, "canary", "wrote outside the source range"); }
                }
                auto mit = m.insert(m.begin() + a.a, src.begin(), src.end());
                rm       = mit - m.begin();
            }
            break;
        }
        case erase_1: {
            auto it  = v.erase(v.begin() + a.a);
            ri       = it - v.begin();
            auto mit = m.erase(m.begin() + a.a);
            rm       = mit - m.begin();
            break;
        }
        case erase_range: {
            auto it  = v.erase(v.begin() + a.a, v.begin() + a.b);
            ri       = it - v.begin();
            auto mit = m.erase(m.begin() + a.a, m.begin() + a.b);
            rm       = mit - m.begin();
            break;
        }
        case resize_k: {
            v.resize(std::size_t(a.a));
            m.resize(std::size_t(a.a));
            break;
        }
        case resize_v: {
            if constexpr (copyable<T>) {
                T const x(a.b);
                v.resize(std::size_t(a.a), x);
                m.resize(std::size_t(a.a), a.b);
            }
            break;
        }
        case assign_n: {
            if constexpr (copyable<T>) {
                T const x(a.b);
                v.assign(std::size_t(a.a), x);
                m.assign(std::size_t(a.a), a.b);
            }
            break;
        }
        case assign_range: {
            if constexpr (copyable<T>) {
                auto const& src = pool(K, pool_len)[std::size_t(a.a)];
                {
                    mc::GuardedBlock<T> blk(src.size());
                    for (std::size_t i = 0; i < src.size(); ++i) { ::new (static_cast<void*>(blk.data() + i)) T(src[i]); }
                    T const* f = blk.data();
                    T const* l = blk.data() + src.size();
                    v.assign(f, l);
                    for (std::size_t i = 0; i < src.size(); ++i) { blk.data()[i].~T(); }
                }
                m.assign(src.begin(), src.end());
            }
            break;
        }
        case clear_k: {
            v.clear();
            m.clear();
            break;
        }
        case self_copy_assign: {
            if constexpr (copyable<T>) {
                V& alias = v;
                v        = alias;
                // model: unchanged ("self-assignment leaves the value unchanged", C03)
                if (v.size() != m.size()) {
                    cx.fail("C03", subj, "self-assignment-changes-value", cat("size after v = v: tetl=", v.size(), " before=", m.size()));
                    return;
                }
            }
            break;
        }
        case self_swap:
        case self_swap_free: {
            if constexpr (sv_move_assignable<T>) {
                if (a.k == self_swap) {
                    v.swap(v);
                } else {
                    using etl::swap;
                    swap(v, v);
                }
            }
            bool okv = v.size() == m.size();
            for (std::size_t i = 0; okv && i < m.size(); ++i) { okv = value_of(v.data()[i]) == m[i]; }
            if (!okv) {
                cx.fail("C03", subj, "self-swap-changes-value", cat("after swapping v with itself: size tetl=", v.size(), " before=", m.size()));
                check_lifetimes<T>(cx, subj, s.lo(), s.hi(), v.size());
                return;
            }
            break;
        }
        case free_erase: {
            if constexpr (copyable<T>) {
                T const x(a.a);
                ri = long(etl::erase(v, x));
            } else {
                ri = long(etl::erase_if(v, [&](T const& e) { return value_of(e) == a.a; }));
            }
            rm = long(std::erase(m, a.a));
            break;
        }
        case free_erase_if: {
            ri = long(etl::erase_if(v, [&](T const& e) { return value_of(e) != a.a; }));
            rm = long(std::erase_if(m, [&](int e) { return e != a.a; }));
            break;
        }
        case copy_construct: {
            if constexpr (copyable<T>) {
                {
                    V copy(v);
                    M mcopy(m);
                    same(cx, subj, copy, mcopy, "copy");
                    // independence: mutate the copy, the source must not change
                    if (!copy.empty()) { copy.pop_back(); }
                    if (!copy.full()) { copy.emplace_back(K); }
                    if (!copy.empty()) { copy.erase(copy.begin()); }
                    if (!same(cx, subj, v, m, "source after mutating its copy")) { return; }
                    // adopt a second, untouched copy as the new state (copy-constructed objects are states too)
                }
                V* fresh = nullptr;
                {
                    alignas(V) unsigned char tmp[sizeof(V)];
                    std::memset(tmp, 0x5A, sizeof tmp);
                    V* t = ::new (static_cast<void*>(tmp)) V(v);
                    v.~V();
                    std::memset(s.buf, 0xAA, sizeof s.buf);
                    fresh = ::new (static_cast<void*>(s.buf)) V(*t);
                    t->~V();
                }
                s.v = fresh;
            }
            break;
        }
        case move_construct: {
            alignas(V) unsigned char tmp[sizeof(V)];
            std::memset(tmp, 0x5A, sizeof tmp);
            V* t = ::new (static_cast<void*>(tmp)) V(std::move(v));
            same(cx, subj, *t, m, "moved-to object");
            // the source must stay a valid object: size() <= N, clear()-able, destructible
            if (v.size() > N) { cx.fail("C03", subj, "moved-from-invalid", cat("moved-from size ", v.size())); }
            v.clear();
            v.~V();
            std::memset(s.buf, 0xAA, sizeof s.buf);
            s.v = ::new (static_cast<void*>(s.buf)) V(std::move(*t));
            t->clear();
            t->~V();
            break;
        }
        case ctor_n: {
            v.~V();
            std::memset(s.buf, 0xAA, sizeof s.buf);
            s.v = ::new (static_cast<void*>(s.buf)) V(std::size_t(a.a));
            m   = M(std::size_t(a.a));
            break;
        }
        case ctor_n_v: {
            if constexpr (copyable<T>) {
                T const x(a.b);
                v.~V();
                std::memset(s.buf, 0xAA, sizeof s.buf);
                s.v = ::new (static_cast<void*>(s.buf)) V(std::size_t(a.a), x);
                m   = M(std::size_t(a.a), a.b);
            }
            break;
        }
        case ctor_range: {
            if constexpr (copyable<T>) {
                auto const& src = pool(K, pool_len)[std::size_t(a.a)];
                mc::GuardedBlock<T> blk(src.size());
                for (std::size_t i = 0; i < src.size(); ++i) { ::new (static_cast<void*>(blk.data() + i)) T(src[i]); }
                T const* f = blk.data();
                T const* l = blk.data() + src.size();
                v.~V();
                std::memset(s.buf, 0xAA, sizeof s.buf);
                s.v = ::new (static_cast<void*>(s.buf)) V(f, l);
                for (std::size_t i = 0; i < src.size(); ++i) { blk.data()[i].~T(); }
                m = M(src.begin(), src.end());
            }
            break;
        }
        case ctor_c_array: {
            if constexpr (N >= 2) {
                v.~V();
                std::memset(s.buf, 0xAA, sizeof s.buf);
                s.v = ::new (static_cast<void*>(s.buf)) V(etl::c_array<T, 2>{T(a.a), T(a.b)});
                m   = M{a.a, a.b};
            }
            break;
        }
        case swap_member:
        case swap_free: {
            if constexpr (sv_move_assignable<T>) {
                if (a.k == swap_member) {
                    v.swap(*p->v);
                } else {
                    using etl::swap;
                    swap(v, *p->v);
                }
                m.swap(p->m);
                check_other = true;
            }
            break;
        }
        case copy_assign: {
            if constexpr (copyable<T>) {
                V& ret = (v = static_cast<V const&>(*p->v));
                if (&ret != &v) { cx.fail("C01", subj, "return", "operator= did not return *this"); }
                m           = p->m;
                check_other = true;
            }
            break;
        }
        case move_assign: {
            if constexpr (sv_move_assignable<T>) {
                v = std::move(*p->v);
                m = p->m;
                if (p->v->size() > N) { cx.fail("C03", subj, "moved-from-invalid", cat("moved-from size ", p->v->size())); }
                // moved-from source: only required to be valid; normalise it
                p->v->clear();
                p->m.clear();
                check_other = true;
            }
            break;
        }
        case relational: {
            V const& x = v;
            V const& y = *p->v;
            if constexpr (requires { x == y; }) {
                cx.eq("C01", subj, "==", "==", x == y, m == p->m);
                cx.eq("C01", subj, "!=", "!=", x != y, m != p->m);
            }
            if constexpr (requires { x < y; }) {
                cx.eq("C01", subj, "<", "<", x < y, m < p->m);
                cx.eq("C01", subj, "<=", "<=", x <= y, m <= p->m);
                cx.eq("C01", subj, ">", ">", x > y, m > p->m);
                cx.eq("C01", subj, ">=", ">=", x >= y, m >= p->m);
            }
            break;
        }
        default: break;
        }
        if (ri != rm) { cx.fail("C01", subj, "return", cat("returned position/count tetl=", ri, " model=", rm)); }
        same(cx, subj, *s.v, s.m, "after the operation");
        if (s.v->capacity() != N) { cx.fail("C01", subj, "capacity", cat("capacity() = ", s.v->capacity())); }
        check_lifetimes<T>(cx, subj, s.lo(), s.hi(), s.m.size());
        if (check_other && p != nullptr) {
            same(cx, subj, *p->v, p->m, "other operand after the operation");
            check_lifetimes<T>(cx, subj, p->lo(), p->hi(), p->m.size());
        }
    }

    void observe(State const& st, Cx& cx) const
    {
        auto const subj = std::string("static_vector::<observers>");
        V& v            = *st.v;
        V const& cv     = *st.v;
        M const& m      = st.m;
        cx.eq("C01", subj, "size", "size()", cv.size(), m.size());
        cx.eq("C01", subj, "empty", "empty()", cv.empty(), m.empty());
        cx.eq("C01", subj, "full", "full()", cv.full(), m.size() == N);
        cx.eq("C01", subj, "capacity", "capacity()", cv.capacity(), N);
        cx.eq("C01", subj, "max_size", "max_size()", cv.max_size(), N);
        cx.eq("C01", subj, "iterators", "end()-begin()", std::size_t(cv.end() - cv.begin()), m.size());
        cx.eq("C01", subj, "iterators", "cend()-cbegin()", std::size_t(cv.cend() - cv.cbegin()), m.size());
        cx.eq("C01", subj, "iterators", "nonconst end()-begin()", std::size_t(v.end() - v.begin()), m.size());
        if (m.empty()) { return; }
        cx.eq("C01", subj, "front", "front()", value_of(cv.front()), m.front());
        cx.eq("C01", subj, "back", "back()", value_of(cv.back()), m.back());
        cx.eq("C01", subj, "front", "&front()==data()", static_cast<void const*>(&v.front()), static_cast<void const*>(v.data()));
        cx.eq("C01", subj, "back", "&back()==data()+size-1", static_cast<void const*>(&v.back()), static_cast<void const*>(v.data() + m.size() - 1));
        for (std::size_t i = 0; i < m.size(); ++i) {
            cx.eq("C01", subj, "operator[]", "operator[]", value_of(cv[i]), m[i]);
            cx.eq("C01", subj, "operator[]", "&operator[]", static_cast<void const*>(&v[i]), static_cast<void const*>(v.data() + i));
        }
        {
            auto mi = m.rbegin();
            for (auto it = cv.rbegin(); it != cv.rend(); ++it, ++mi) {
                if (mi == m.rend() || value_of(*it) != *mi) {
                    cx.fail("C01", subj, "reverse-iteration", "rbegin..rend differs from the reversed model");
                    break;
                }
            }
            auto mj = m.rbegin();
            for (auto it = cv.crbegin(); it != cv.crend(); ++it, ++mj) {
                if (mj == m.rend() || value_of(*it) != *mj) {
                    cx.fail("C01", subj, "reverse-iteration", "crbegin..crend differs from the reversed model");
                    break;
                }
            }
        }
        if constexpr (mc::is_tracked_v<T>) {
            for (auto const& e : registry().take_errors()) { cx.fail("C03", subj, "lifetime:" + e, e); }
        }
    }

    std::string key(State const& st) const
    {
        std::string k;
        for (int x : st.m) { k += char('0' + x); }
        k += '|';
        if constexpr (trivial) {
            k.append(reinterpret_cast<char const*>(st.v), sizeof(V));
        } else {
            k += obs(st);
        }
        return k;
    }
    std::string obs(State const& st) const
    {
        std::string o = cat(st.v->size(), ":");
        auto const n  = std::min<std::size_t>(st.v->size(), N);
        for (std::size_t i = 0; i < n; ++i) { o += cat(value_of(st.v->data()[i]), ","); }
        return o;
    }
    void retire(State& st, Cx& cx) const
    {
        if (st.dead) { return; }
        st.v->~V();
        st.dead = true;
        if constexpr (mc::is_tracked_v<T>) {
            for (auto const& e : registry().take_errors()) { cx.fail("C03", "static_vector::~static_vector", "lifetime:" + e, e); }
            auto const live = registry().live_in(st.lo(), st.hi());
            if (live != 0) {
                cx.fail("C03", "static_vector::~static_vector", "leak", cat(live, " element(s) still alive after the owner was destroyed"));
                registry().forget_range(st.lo(), st.hi());
            }
        }
    }
};

// =======================================================================================
// inplace_vector
// =======================================================================================
template <typename T, std::size_t N, int K>
struct InplaceVectorSys {
    using V      = etl::inplace_vector<T, N>;
    using M      = std::vector<int>;
    using Action = ::Action;
    static constexpr bool trivial = std::is_trivially_copyable_v<T>;

    struct State {
        alignas(16) unsigned char buf[sizeof(V) + 32];
        V* v;
        M m;
        bool dead{false};
        bool broken{false}; // default-initialisation left a non-empty object (known finding): only reinit_value is offered
        explicit State(unsigned char poison)
        {
            std::memset(buf, poison, sizeof buf);
            v = ::new (static_cast<void*>(buf)) V; // default-initialisation
            m.reserve(N + 2);
            broken = v->size() != 0;
        }
        State(State const&)            = delete;
        State& operator=(State const&) = delete;
        ~State()
        {
            if (!dead && !broken) { v->~V(); }
        }
        void const* lo() const { return buf; }
        void const* hi() const { return buf + sizeof buf; }
    };

    std::string name() const { return cat("inplace_vector<", tname<T>(), ",", N, ">"); }
    std::string family() const { return "inplace_vector"; }
    std::string show(Action const& a) const { return show_action(a); }
    std::string subject(Action const& a) const { return cat("inplace_vector::", kind_name(a.k)); }

    void unary(State const& st, std::vector<Action>& out) const
    {
        if (st.broken) {
            out.push_back({reinit_value, 0, 0, 0});
            return;
        }
        out.push_back({reinit_value, 0, 0, 0});
        int const s = int(st.m.size());
        int const n = int(N);
        for (int v = 1; v <= K; ++v) {
            // try_* are valid in every state (full: must return null and change nothing)
            if constexpr (copyable<T>) { out.push_back({try_push_back_l, v, 0, 0}); }
            out.push_back({try_push_back_r, v, 0, 0});
            out.push_back({try_emplace_back_k, v, 0, 0});
            if (s < n) {
                if constexpr (copyable<T>) { out.push_back({unchecked_push_back_l, v, 0, 0}); }
                out.push_back({unchecked_push_back_r, v, 0, 0});
                out.push_back({unchecked_emplace_back_k, v, 0, 0});
            }
        }
        if constexpr (N > 0) {
            if (s > 0) { out.push_back({pop_back_k, 0, 0, 0}); }
        }
        out.push_back({clear_k, 0, 0, 0});
        if constexpr (N > 0) {
            if constexpr (copyable<T>) { out.push_back({copy_construct, 0, 0, 0}); }
            out.push_back({move_construct, 0, 0, 0});
        }
    }
    void binary(std::vector<Action>&) const { }

    bool same(Cx& cx, std::string const& subj, V const& v, M const& m, char const* what) const
    {
        if (v.size() != m.size()) {
            cx.fail("C01", subj, "size", cat(what, ": size tetl=", v.size(), " model=", m.size()));
            return false;
        }
        for (std::size_t i = 0; i < m.size(); ++i) {
            int const got = value_of(v.data()[i]);
            if (got != m[i]) {
                cx.fail("C01", subj, "content", cat(what, ": element ", i, " tetl=", got, " model=", m[i]));
                return false;
            }
        }
        return true;
    }

    void apply(State& s, Action const& a, State*, Cx& cx)
    {
        V& v            = *s.v;
        M& m            = s.m;
        auto const subj = subject(a);
        bool const full = m.size() == N;
        auto check_try  = [&](T* r) {
            if (full) {
                if (r != nullptr) { cx.fail("C01", subj, "try-on-full", "returned non-null on a full vector"); }
            } else {
                if (r != v.data() + m.size()) {
                    cx.fail("C01", subj, "return", "returned pointer is not the address of the new last element");
                }
                m.push_back(a.a);
            }
        };
        if (s.broken && a.k != reinit_value) { return; }
        switch (a.k) {
        case reinit_value: {
            // value-initialisation: V{} must be empty whatever the storage held before
            if (!s.broken) { v.~V(); }
            s.v      = ::new (static_cast<void*>(s.buf)) V{};
            s.broken = false;
            m.clear();
            break;
        }
        case try_push_back_l: {
            if constexpr (copyable<T>) {
                T const x(a.a);
                T* r = v.try_push_back(x);
                check_try(r);
            }
            break;
        }
        case try_push_back_r: {
            T x(a.a);
            T* r = v.try_push_back(std::move(x));
            check_try(r);
            if (full && value_of(x) != a.a) { cx.fail("C01", subj, "try-on-full", "argument was moved-from although nothing was inserted"); }
            break;
        }
        case try_emplace_back_k: {
            T* r = v.try_emplace_back(a.a);
            check_try(r);
            break;
        }
        case unchecked_push_back_l: {
            if constexpr (copyable<T>) {
                T const x(a.a);
                T& r = v.unchecked_push_back(x);
                if (&r != v.data() + m.size()) { cx.fail("C01", subj, "return", "reference is not the new last element"); }
                m.push_back(a.a);
            }
            break;
        }
        case unchecked_push_back_r: {
            T x(a.a);
            T& r = v.unchecked_push_back(std::move(x));
            if (&r != v.data() + m.size()) { cx.fail("C01", subj, "return", "reference is not the new last element"); }
            m.push_back(a.a);
            break;
        }
        case unchecked_emplace_back_k: {
            T& r = v.unchecked_emplace_back(a.a);
            if (&r != v.data() + m.size()) { cx.fail("C01", subj, "return", "reference is not the new last element"); }
            m.push_back(a.a);
            break;
        }
        case pop_back_k: {
            if constexpr (N > 0) {
                v.pop_back();
                m.pop_back();
            }
            break;
        }
        case clear_k: {
            v.clear();
            m.clear();
            break;
        }
        case copy_construct: {
            if constexpr (copyable<T> && N > 0) {
                {
                    V copy(v);
                    same(cx, subj, copy, m, "copy");
                    if (!copy.empty()) { copy.pop_back(); }
                    (void)copy.try_emplace_back(K);
                    copy.clear();
                    if (!same(cx, subj, v, m, "source after mutating its copy")) { return; }
                    check_lifetimes<T>(cx, subj, s.lo(), s.hi(), m.size());
                }
                alignas(V) unsigned char tmp[sizeof(V)];
                std::memset(tmp, 0x5A, sizeof tmp);
                V* t = ::new (static_cast<void*>(tmp)) V(v);
                v.~V();
                std::memset(s.buf, 0xAA, sizeof s.buf);
                s.v = ::new (static_cast<void*>(s.buf)) V(*t);
                t->~V();
                if constexpr (mc::is_tracked_v<T>) {
                    auto const stray = registry().live_in(tmp, tmp + sizeof tmp);
                    if (stray != 0) {
                        cx.fail("C03", subj, "leak", cat(stray, " element(s) alive in a destroyed copy"));
                        registry().forget_range(tmp, tmp + sizeof tmp);
                    }
                }
            }
            break;
        }
        case move_construct: {
            if constexpr (N > 0) {
                alignas(V) unsigned char tmp[sizeof(V)];
                std::memset(tmp, 0x5A, sizeof tmp);
                V* t = ::new (static_cast<void*>(tmp)) V(std::move(v));
                same(cx, subj, *t, m, "moved-to object");
                if (v.size() > N) { cx.fail("C03", subj, "moved-from-invalid", cat("moved-from size ", v.size())); }
                v.clear();
                v.~V();
                std::memset(s.buf, 0xAA, sizeof s.buf);
                s.v = ::new (static_cast<void*>(s.buf)) V(std::move(*t));
                t->clear();
                t->~V();
                if constexpr (mc::is_tracked_v<T>) {
                    auto const stray = registry().live_in(tmp, tmp + sizeof tmp);
                    if (stray != 0) {
                        cx.fail("C03", subj, "leak", cat(stray, " element(s) alive in a destroyed moved-from object"));
                        registry().forget_range(tmp, tmp + sizeof tmp);
                    }
                }
            }
            break;
        }
        default: break;
        }
        same(cx, subj, *s.v, s.m, "after the operation");
        if (V::capacity() != N || V::max_size() != N) { cx.fail("C01", subj, "capacity", "capacity()/max_size() != N"); }
        check_lifetimes<T>(cx, subj, s.lo(), s.hi(), s.m.size());
    }

    void observe(State const& st, Cx& cx) const
    {
        auto const subj = std::string("inplace_vector::<observers>");
        V& v            = *st.v;
        V const& cv     = *st.v;
        M const& m      = st.m;
        if (st.broken) {
            cx.fail("C02", "inplace_vector::<default-init>", "indeterminate-size",
                cat("`inplace_vector<T,N> v;` (default-initialisation) reads an indeterminate size: size()=", cv.size()));
            return;
        }
        cx.eq("C01", subj, "size", "size()", cv.size(), m.size());
        cx.eq("C01", subj, "empty", "empty()", cv.empty(), m.empty());
        cx.eq("C01", subj, "iterators", "end()-begin()", std::size_t(cv.end() - cv.begin()), m.size());
        if constexpr (N > 0) {
            if (m.empty()) { return; }
            cx.eq("C01", subj, "front", "front()", value_of(cv.front()), m.front());
            cx.eq("C01", subj, "back", "back()", value_of(cv.back()), m.back());
            cx.eq("C01", subj, "front", "&front()==data()", static_cast<void const*>(&v.front()), static_cast<void const*>(v.data()));
            for (std::size_t i = 0; i < m.size(); ++i) {
                cx.eq("C01", subj, "operator[]", "operator[]", value_of(cv[i]), m[i]);
                cx.eq("C01", subj, "operator[]", "&operator[]", static_cast<void const*>(&v[i]), static_cast<void const*>(v.data() + i));
            }
        }
        if constexpr (mc::is_tracked_v<T>) {
            for (auto const& e : registry().take_errors()) { cx.fail("C03", subj, "lifetime:" + e, e); }
        }
    }
    std::string key(State const& st) const
    {
        if (st.broken) { return "broken-default-init"; }
        std::string k;
        for (int x : st.m) { k += char('0' + x); }
        k += '|';
        if constexpr (trivial) {
            k.append(reinterpret_cast<char const*>(st.v), sizeof(V));
        } else {
            k += obs(st);
        }
        return k;
    }
    std::string obs(State const& st) const
    {
        // the default-initialised size is reported once, by observe() (class indeterminate-size);
        // the poison differential then covers everything else
        if (st.broken) { return "0:"; }
        std::string o = cat(st.v->size(), ":");
        auto const n  = std::min<std::size_t>(st.v->size(), N);
        for (std::size_t i = 0; i < n; ++i) { o += cat(value_of(st.v->data()[i]), ","); }
        return o;
    }
    void retire(State& st, Cx& cx) const
    {
        if (st.dead) { return; }
        if (!st.broken) { st.v->~V(); }
        st.dead = true;
        if constexpr (mc::is_tracked_v<T>) {
            for (auto const& e : registry().take_errors()) { cx.fail("C03", "inplace_vector::~inplace_vector", "lifetime:" + e, e); }
            auto const live = registry().live_in(st.lo(), st.hi());
            if (live != 0) {
                cx.fail("C03", "inplace_vector::~inplace_vector", "leak", cat(live, " element(s) still alive after the owner was destroyed"));
                registry().forget_range(st.lo(), st.hi());
            }
        }
    }
};

// =======================================================================================
// stack<T, static_vector<T,N>>
// =======================================================================================
template <typename T, std::size_t N, int K>
struct StackSys {
    using V      = etl::stack<T, etl::static_vector<T, N>>;
    using M      = std::vector<int>; // top = back
    using Action = ::Action;

    struct State {
        alignas(16) unsigned char buf[sizeof(V) + 32];
        V* v;
        M m;
        bool dead{false};
        explicit State(unsigned char poison)
        {
            std::memset(buf, poison, sizeof buf);
            v = ::new (static_cast<void*>(buf)) V;
            m.reserve(N + 2);
        }
        State(State const&)            = delete;
        State& operator=(State const&) = delete;
        ~State()
        {
            if (!dead) { v->~V(); }
        }
        void const* lo() const { return buf; }
        void const* hi() const { return buf + sizeof buf; }
    };

    std::string name() const { return cat("stack<", tname<T>(), ",static_vector<", N, ">>"); }
    std::string family() const { return "stack"; }
    std::string show(Action const& a) const { return show_action(a); }
    std::string subject(Action const& a) const
    {
        switch (a.k) {
        case push_back_l: return "stack::push(const&)";
        case push_back_r: return "stack::push(&&)";
        case emplace_back_k: return "stack::emplace";
        case pop_back_k: return "stack::pop";
        default: return cat("stack::", kind_name(a.k));
        }
    }
    void unary(State const& st, std::vector<Action>& out) const
    {
        int const s = int(st.m.size());
        for (int v = 1; v <= K; ++v) {
            if (s < int(N)) {
                if constexpr (copyable<T>) { out.push_back({push_back_l, v, 0, 0}); }
                out.push_back({push_back_r, v, 0, 0});
                out.push_back({emplace_back_k, v, 0, 0});
            }
        }
        if (s > 0) { out.push_back({pop_back_k, 0, 0, 0}); }
        if constexpr (copyable<T>) { out.push_back({copy_construct, 0, 0, 0}); }
        out.push_back({move_construct, 0, 0, 0});
        if constexpr (sv_move_assignable<T>) { out.push_back({self_swap, 0, 0, 0}); }
    }
    void binary(std::vector<Action>& out) const
    {
        if constexpr (sv_move_assignable<T>) {
            out.push_back({swap_member, 0, 0, 0});
            out.push_back({swap_free, 0, 0, 0});
        }
        out.push_back({relational, 0, 0, 0});
    }
    // drains a copy (copyable T) to compare the whole content; otherwise top/size only
    void same(Cx& cx, std::string const& subj, V const& v, M const& m, char const* what) const
    {
        if (v.size() != m.size() || v.empty() != m.empty()) {
            cx.fail("C01", subj, "size", cat(what, ": size tetl=", v.size(), " model=", m.size()));
            return;
        }
        if (!m.empty() && value_of(v.top()) != m.back()) {
            cx.fail("C01", subj, "top", cat(what, ": top tetl=", value_of(v.top()), " model=", m.back()));
            return;
        }
        if constexpr (copyable<T>) {
            V c(v);
            for (std::size_t i = m.size(); i-- > 0;) {
                if (value_of(c.top()) != m[i]) {
                    cx.fail("C01", subj, "content", cat(what, ": element ", i, " tetl=", value_of(c.top()), " model=", m[i]));
                    return;
                }
                c.pop();
            }
        }
    }
    void apply(State& s, Action const& a, State* p, Cx& cx)
    {
        V& v             = *s.v;
        M& m             = s.m;
        auto const subj  = subject(a);
        bool check_other = false;
        switch (a.k) {
        case push_back_l: {
            if constexpr (copyable<T>) {
                T const x(a.a);
                v.push(x);
                m.push_back(a.a);
            }
            break;
        }
        case push_back_r: {
            T x(a.a);
            v.push(std::move(x));
            m.push_back(a.a);
            break;
        }
        case emplace_back_k: {
            v.emplace(a.a);
            m.push_back(a.a);
            break;
        }
        case pop_back_k: {
            v.pop();
            m.pop_back();
            break;
        }
        case copy_construct: {
            if constexpr (copyable<T>) {
                V copy(v);
                same(cx, subj, copy, m, "copy");
                if (!copy.empty()) { copy.pop(); }
                same(cx, subj, v, m, "source after mutating its copy");
            }
            break;
        }
        case move_construct: {
            alignas(V) unsigned char tmp[sizeof(V)];
            std::memset(tmp, 0x5A, sizeof tmp);
            V* t = ::new (static_cast<void*>(tmp)) V(std::move(v));
            same(cx, subj, *t, m, "moved-to object");
            if (v.size() > N) { cx.fail("C03", subj, "moved-from-invalid", cat("moved-from size ", v.size())); }
            while (!v.empty()) { v.pop(); }
            v.~V();
            std::memset(s.buf, 0xAA, sizeof s.buf);
            s.v = ::new (static_cast<void*>(s.buf)) V(std::move(*t));
            while (!t->empty()) { t->pop(); }
            t->~V();
            break;
        }
        case self_swap: {
            if constexpr (sv_move_assignable<T>) { v.swap(v); }
            if (v.size() != m.size() || (!m.empty() && value_of(v.top()) != m.back())) {
                cx.fail("C03", subj, "self-swap-changes-value", cat("after swapping a stack with itself: size tetl=", v.size(), " before=", m.size()));
                check_lifetimes<T>(cx, subj, s.lo(), s.hi(), v.size());
                return;
            }
            break;
        }
        case swap_member:
        case swap_free: {
            if constexpr (sv_move_assignable<T>) {
                if (a.k == swap_member) {
                    v.swap(*p->v);
                } else {
                    using etl::swap;
                    swap(v, *p->v);
                }
                m.swap(p->m);
                check_other = true;
            }
            break;
        }
        case relational: {
            V const& x = v;
            V const& y = *p->v;
            cx.eq("C01", subj, "==", "==", x == y, m == p->m);
            cx.eq("C01", subj, "!=", "!=", x != y, m != p->m);
            cx.eq("C01", subj, "<", "<", x < y, m < p->m);
            cx.eq("C01", subj, "<=", "<=", x <= y, m <= p->m);
            cx.eq("C01", subj, ">", ">", x > y, m > p->m);
            cx.eq("C01", subj, ">=", ">=", x >= y, m >= p->m);
            break;
        }
        default: break;
        }
        same(cx, subj, *s.v, s.m, "after the operation");
        check_lifetimes<T>(cx, subj, s.lo(), s.hi(), s.m.size());
        if (check_other && p != nullptr) {
            same(cx, subj, *p->v, p->m, "other operand after the operation");
            check_lifetimes<T>(cx, subj, p->lo(), p->hi(), p->m.size());
        }
    }
    void observe(State const& st, Cx& cx) const
    {
        auto const subj = std::string("stack::<observers>");
        cx.eq("C01", subj, "size", "size()", st.v->size(), st.m.size());
        cx.eq("C01", subj, "empty", "empty()", st.v->empty(), st.m.empty());
        if (!st.m.empty()) { cx.eq("C01", subj, "top", "top()", value_of(static_cast<V const&>(*st.v).top()), st.m.back()); }
    }
    std::string key(State const& st) const
    {
        std::string k;
        for (int x : st.m) { k += char('0' + x); }
        k += '|';
        if constexpr (std::is_trivially_copyable_v<T>) {
            k.append(reinterpret_cast<char const*>(st.v), sizeof(V));
        } else {
            k += obs(st);
        }
        return k;
    }
    std::string obs(State const& st) const
    {
        std::string o = cat(st.v->size(), ":");
        if (!st.v->empty() && st.v->size() <= N) { o += cat(value_of(static_cast<V const&>(*st.v).top())); }
        return o;
    }
    void retire(State& st, Cx& cx) const
    {
        if (st.dead) { return; }
        st.v->~V();
        st.dead = true;
        if constexpr (mc::is_tracked_v<T>) {
            for (auto const& e : registry().take_errors()) { cx.fail("C03", "stack::~stack", "lifetime:" + e, e); }
            auto const live = registry().live_in(st.lo(), st.hi());
            if (live != 0) {
                cx.fail("C03", "stack::~stack", "leak", cat(live, " element(s) still alive after the owner was destroyed"));
                registry().forget_range(st.lo(), st.hi());
            }
        }
    }
};

// binary actions (swap, assignment, relational operators) use partner states with id < g_partner_cap; the big thorough
// configurations lower it (BFS order: the first ids are the shortest histories, all sizes 0..N are among them)
std::size_t g_partner_cap = 100000;

template <typename Sys, typename... A>
void explore(mc::Reporter& r, std::size_t maxStates, std::size_t maxDepth, A... args)
{
    Sys sys{args...};
    mc::ExploreLimits lim;
    lim.max_states   = maxStates;
    lim.max_depth    = maxDepth;
    lim.max_partners = g_partner_cap;
    if (g_partner_cap < 100000) { r.note(cat("binary actions restricted to partner states #0..#", g_partner_cap - 1)); }
    mc::Explorer<Sys> ex(sys, r, lim);
    ex.run();
}

// capacity at the size-type boundary (254/255/256): depth-bounded exploration from the seed
// states {N-2, N-1, N elements} (element i has value 1 + i % 2); closure is out of reach here,
// the evidence says so (exhaustive:false)
template <typename Sys>
void explore_boundary(mc::Reporter& r, std::size_t n, int fillKind, std::size_t depth, Sys sys)
{
    mc::ExploreLimits lim;
    lim.max_states          = 200000;
    lim.max_depth           = depth;
    lim.max_partners        = 12;
    lim.poison_differential = false;
    mc::Explorer<Sys> ex(sys, r, lim);
    for (std::size_t fill : {n - 2, n - 1, n}) {
        std::vector<Action> h;
        for (std::size_t i = 0; i < fill; ++i) { h.push_back(Action{fillKind, int(1 + i % 2), 0, 0}); }
        ex.seeds.push_back(std::move(h));
    }
    ex.run();
    r.not_exhaustive("capacity at the size-type boundary: depth-bounded from seed states, not a closure");
}

using TCM = mc::Tracked<mc::copy_move>;
using TMO = mc::Tracked<mc::move_only>;
using TCO = mc::Tracked<mc::copy_only>;
using TTD = mc::Tracked<mc::trivial_default>;

template <typename T, std::size_t N, int K>
void add_sv(mc::Main& m, std::vector<std::string> tiers, int poolLen, std::size_t partners = 100000)
{
    m.job(cat("static_vector<", tname<T>(), ",", N, ">/k", K), tiers, [=](mc::Reporter& r) {
        g_partner_cap = partners;
        explore<StaticVectorSys<T, N, K>>(r, 3000000, 1000, poolLen);
    });
}
template <typename T, std::size_t N, int K>
void add_iv(mc::Main& m, std::vector<std::string> tiers)
{
    m.job(cat("inplace_vector<", tname<T>(), ",", N, ">/k", K), tiers,
        [=](mc::Reporter& r) { explore<InplaceVectorSys<T, N, K>>(r, 3000000, 1000); });
}
template <typename T, std::size_t N>
void add_boundary(mc::Main& m)
{
    m.job(cat("static_vector<", tname<T>(), ",", N, ">/boundary"), {"quick", "thorough"}, [=](mc::Reporter& r) {
        explore_boundary(r, N, emplace_back_k, r.thorough() ? 2 : 1, StaticVectorSys<T, N, 2>{1});
    });
    m.job(cat("inplace_vector<", tname<T>(), ",", N, ">/boundary"), {"quick", "thorough"}, [=](mc::Reporter& r) {
        std::vector<Action> pre{Action{reinit_value, 0, 0, 0}};
        mc::ExploreLimits lim;
        lim.max_states          = 200000;
        lim.max_depth           = r.thorough() ? 3 : 2;
        lim.poison_differential = false;
        InplaceVectorSys<T, N, 2> sys;
        mc::Explorer<InplaceVectorSys<T, N, 2>> ex(sys, r, lim);
        for (std::size_t fill : {N - 2, N - 1, N}) {
            std::vector<Action> h = pre;
            for (std::size_t i = 0; i < fill; ++i) { h.push_back(Action{unchecked_emplace_back_k, int(1 + i % 2), 0, 0}); }
            ex.seeds.push_back(std::move(h));
        }
        ex.run();
        r.not_exhaustive("capacity at the size-type boundary: depth-bounded from seed states, not a closure");
    });
}
template <typename T, std::size_t N, int K>
void add_st(mc::Main& m, std::vector<std::string> tiers)
{
    m.job(cat("stack<", tname<T>(), ",", N, ">/k", K), tiers, [=](mc::Reporter& r) { explore<StackSys<T, N, K>>(r, 3000000, 1000); });
}

} // namespace

int main(int argc, char** argv)
{
    mc::Main m(argc, argv);
    std::vector<std::string> const both{"quick", "thorough"};
    std::vector<std::string> const th{"thorough"};
    // closure configurations: capacity 0..4 (quick), 5 (thorough); alphabet 2 (quick) / 3 (thorough)
    // (MC_PART splits the instantiations over several binaries so that they compile in parallel)
#if !defined(MC_PART) || MC_PART == 1
    add_sv<int, 0, 2>(m, both, 2);
    add_sv<int, 1, 2>(m, both, 2);
    add_sv<int, 2, 2>(m, both, 2);
    add_sv<int, 3, 2>(m, both, 2);
    add_sv<int, 4, 2>(m, both, 2);
    add_sv<int, 3, 3>(m, th, 3);
    add_sv<int, 5, 2>(m, th, 3);
    add_sv<int, 4, 3>(m, th, 2, 400);
    add_sv<int, 6, 2>(m, th, 2, 300);
#endif
#if !defined(MC_PART) || MC_PART == 2
    add_sv<TCM, 0, 2>(m, both, 2);
    add_sv<TCM, 1, 2>(m, both, 2);
    add_sv<TCM, 2, 2>(m, both, 2);
    add_sv<TCM, 3, 2>(m, both, 2);
    add_sv<TCM, 4, 2>(m, both, 2);
    add_sv<TCM, 3, 3>(m, th, 3);
    add_sv<TCM, 5, 2>(m, th, 3);
    add_sv<TCM, 4, 3>(m, th, 2, 400);
    add_sv<TCM, 6, 2>(m, th, 2, 400);
#endif
#if !defined(MC_PART) || MC_PART == 3
    add_sv<TMO, 1, 2>(m, both, 2);
    add_sv<TMO, 3, 2>(m, both, 2);
    add_sv<TCO, 1, 2>(m, both, 2);
    add_sv<TCO, 3, 2>(m, both, 2);
    add_sv<TMO, 4, 2>(m, th, 2);
    add_sv<TCO, 4, 2>(m, th, 2);
#endif
#if !defined(MC_PART) || MC_PART == 4

    add_iv<int, 0, 2>(m, both);
    add_iv<int, 1, 2>(m, both);
    add_iv<int, 3, 2>(m, both);
    add_iv<int, 4, 2>(m, both);
    add_iv<TCM, 0, 2>(m, both);
    add_iv<TCM, 1, 2>(m, both);
    add_iv<TCM, 3, 2>(m, both);
    add_iv<TMO, 3, 2>(m, both);
    add_iv<TCO, 3, 2>(m, both);
    add_iv<int, 6, 3>(m, th);
    add_iv<TCM, 5, 3>(m, th);
    add_iv<int, 8, 3>(m, th);
    add_iv<TMO, 5, 3>(m, th);
    add_iv<TCO, 5, 3>(m, th);

    add_st<int, 1, 2>(m, both);
    add_st<int, 3, 2>(m, both);
    add_st<TCM, 3, 2>(m, both);
    add_st<TMO, 3, 2>(m, both);
    add_st<int, 5, 3>(m, th);
    add_st<TCM, 4, 3>(m, th);
#endif
#if !defined(MC_PART) || MC_PART == 5
    add_boundary<int, 254>(m);
    add_boundary<int, 255>(m);
    add_boundary<int, 256>(m);
    add_boundary<TCM, 255>(m);
    add_boundary<TCM, 256>(m);
#endif
    return m.run();
}
