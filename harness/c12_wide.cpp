// C12, round 2: the same machinery as c12_chrono.cpp (c12_common.hpp) over the rep and period
// combinations that c12_chrono.cpp does not instantiate, plus the traits / literal facts.
//
//   -DMC_PART=0         quick + thorough: 10 rep configurations x the 9 ordered pairs of Q3,
//                       the new reps' self operations, selected extreme period pairs, traits,
//                       compile probes
//   -DMC_PART=1..27     thorough: From rep = reps[(p-1)/3], To reps = reps[3*((p-1)%3) + 0..2]
//                       x the 36 ordered pairs of Q6 (all 81 ordered rep pairs of 9 reps)
//   -DMC_PART=100..116  thorough: From period = RW[p-100] x every To period of RW for which the
//                       pair is inside the standard's domain (conversion factors and the common
//                       period representable in intmax_t) x 5 rep configurations
#include "c12_common.hpp"

#include <array>
#include <utility>

#include <unistd.h>

#ifndef MC_PART
    #define MC_PART 0
#endif

namespace {

using namespace c12;

// ---- type and period lists ----------------------------------------------------------------

template <int K>
struct RepAt;
template <>
struct RepAt<0> {
    using t = i8;
};
template <>
struct RepAt<1> {
    using t = i16;
};
template <>
struct RepAt<2> {
    using t = i32;
};
template <>
struct RepAt<3> {
    using t = i64;
};
template <>
struct RepAt<4> {
    using t = u32;
};
template <>
struct RepAt<5> {
    using t = u64;
};
template <>
struct RepAt<6> {
    using t = float;
};
template <>
struct RepAt<7> {
    using t = double;
};
template <>
struct RepAt<8> {
    using t = long double;
};

struct Q3 { // milli, ratio<1>, ratio<1001,30000>: same / finer / coarser / mixed conversions
    static constexpr int n = 3;
    static constexpr int v[n] = {2, 3, 9};
    static constexpr char const* name = "Q3";
};
struct Q6 { // + ratio<60>, ratio<1,3>
    static constexpr int n = 6;
    static constexpr int v[n] = {2, 3, 4, 7, 8, 9};
    static constexpr char const* name = "Q6";
};
struct RW { // atto .. exa, ratios not in lowest terms, large coprime terms
    static constexpr int n = 17;
    static constexpr int v[n] = {10, 11, 12, 0, 2, 3, 13, 14, 15, 16, 17, 18, 19, 20, 21, 8, 9};
    static constexpr char const* name = "RW";
};

template <typename FR, typename TR, int FI, int TI>
void add_entry(std::vector<PairEntry>& out)
{
    if constexpr (PairValid<FI, TI>::value) { out.push_back(make_pair_entry<FR, TR, FI, TI>()); }
}
template <typename FR, typename TR, typename S, std::size_t... K>
void add_square(std::vector<PairEntry>& out, std::index_sequence<K...>)
{
    (add_entry<FR, TR, S::v[K / S::n], S::v[K % S::n]>(out), ...);
}
template <typename FR, typename TR, typename S>
std::vector<PairEntry> square()
{
    std::vector<PairEntry> out;
    add_square<FR, TR, S>(out, std::make_index_sequence<std::size_t(S::n) * S::n>{});
    return out;
}
template <typename FR, typename TR, int FI, typename S, std::size_t... K>
void add_row(std::vector<PairEntry>& out, std::index_sequence<K...>)
{
    (add_entry<FR, TR, FI, S::v[K]>(out), ...);
}
template <typename FR, typename TR, int FI, typename S>
std::vector<PairEntry> row()
{
    std::vector<PairEntry> out;
    add_row<FR, TR, FI, S>(out, std::make_index_sequence<std::size_t(S::n)>{});
    return out;
}

void run_entries(mc::Reporter& r, std::vector<PairEntry> const& es, Ranges const& rg)
{
    for (auto const& e : es) {
        if (r.deadline_passed()) {
            r.not_exhaustive("deadline");
            return;
        }
        run_pair(r, e, rg);
    }
}

template <typename R>
constexpr int full16()
{
    return std::is_same_v<R, i16> ? 32768 : 0; // int16_t From: the unary operations see every count
}

// ---- part 0 -------------------------------------------------------------------------------

template <typename FR>
Ranges ranges0(mc::Reporter const& r)
{
#if defined(MC_FLAVOUR_SAN)
    return r.thorough() ? Ranges{500, 40, full16<FR>()} : Ranges{100, 3, full16<FR>()};
#else
    return r.thorough() ? Ranges{2000, 40, full16<FR>()} : Ranges{150, 3, full16<FR>()};
#endif
}
template <typename FR, typename TR>
void q3_job(mc::Reporter& r)
{
    run_entries(r, square<FR, TR, Q3>(), ranges0<FR>(r));
}
template <typename R, int I>
void self_job(mc::Reporter& r)
{
    run_self(r, make_self_entry<R, I>(), ranges0<R>(r));
}

// selected extreme period pairs: SI extremes in both directions, a ratio not in lowest terms
// against its reduced neighbours, the large coprime terms against the other mixed ratios
template <typename FR, typename TR>
void extremes_job(mc::Reporter& r)
{
    std::vector<PairEntry> es;
    add_entry<FR, TR, 10, 0>(es);  // atto -> nano
    add_entry<FR, TR, 0, 10>(es);  // nano -> atto
    add_entry<FR, TR, 18, 15>(es); // exa -> giga
    add_entry<FR, TR, 15, 18>(es);
    add_entry<FR, TR, 12, 14>(es); // pico -> mega: factor 10^18
    add_entry<FR, TR, 14, 12>(es);
    add_entry<FR, TR, 19, 7>(es); // ratio<2,4> -> ratio<1,3>
    add_entry<FR, TR, 7, 19>(es);
    add_entry<FR, TR, 19, 3>(es);  // ratio<2,4> -> ratio<1>
    add_entry<FR, TR, 20, 19>(es); // ratio<10,4> -> ratio<2,4>
    add_entry<FR, TR, 19, 20>(es);
    add_entry<FR, TR, 19, 19>(es);
    add_entry<FR, TR, 21, 9>(es); // ratio<1000000007,998244353> <-> ratio<1001,30000>
    add_entry<FR, TR, 9, 21>(es);
    add_entry<FR, TR, 21, 8>(es);
    add_entry<FR, TR, 8, 21>(es);
    run_entries(r, es, ranges0<FR>(r));
}

// ---- parts 1..27: all ordered rep pairs ------------------------------------------------------

template <typename FR>
Ranges ranges_wide(mc::Reporter const&)
{
#if defined(MC_FLAVOUR_SAN)
    return Ranges{60, 3, 0};
#else
    return Ranges{300, 8, full16<FR>()};
#endif
}
template <typename FR, typename TR>
void q6_job(mc::Reporter& r)
{
    run_entries(r, square<FR, TR, Q6>(), ranges_wide<FR>(r));
}
template <typename R, int I>
void self_wide_job(mc::Reporter& r)
{
    run_self(r, make_self_entry<R, I>(), ranges_wide<R>(r));
}

// ---- parts 100..116: period rows ------------------------------------------------------------

template <typename FR, typename TR, int FI>
void row_job(mc::Reporter& r)
{
    run_entries(r, row<FR, TR, FI, RW>(), ranges_wide<FR>(r));
}

// ---- traits, constants, literals (part 0) ---------------------------------------------------

template <typename T>
bool same_bytes(T const& a, T const& b)
{
    if constexpr (std::is_floating_point_v<T>) {
        return bits(f80(a)) == bits(f80(b));
    } else {
        return a == b;
    }
}
template <typename T>
std::string show_val(T v)
{
    if constexpr (std::is_floating_point_v<T>) {
        return show_f(f80(v));
    } else if constexpr (std::is_signed_v<T>) {
        return dec(i128(v));
    } else {
        return dec(i128(std::uint64_t(v)));
    }
}

template <typename R>
void check_duration_values(mc::Reporter& r, char const* name)
{
    using E = etl::chrono::duration_values<R>;
    using S = std::chrono::duration_values<R>;
    struct Row {
        char const* what;
        R e, s;
    };
    Row const rows[] = {{"zero", E::zero(), S::zero()}, {"min", E::min(), S::min()}, {"max", E::max(), S::max()}};
    for (auto const& row : rows) {
        r.count("evaluations");
        r.count("distinct_nontrivial");
        r.outcome(mc::hash_str(mc::cat(name, row.what, show_val(row.e))));
        if (!same_bytes(row.e, row.s)) {
            r.violation("C12", mc::cat("duration_values::", row.what), std::is_floating_point_v<R> ? "fp" : "int", mc::cat("Rep=", name),
                mc::cat("etl ", show_val(row.e), " std ", show_val(row.s)));
        }
    }
}

template <typename R>
void check_treat_as_fp(mc::Reporter& r, char const* name)
{
    bool const e = etl::chrono::treat_as_floating_point_v<R>;
    bool const s = std::chrono::treat_as_floating_point_v<R>;
    bool const e2 = etl::chrono::treat_as_floating_point<R>::value;
    r.count("evaluations");
    if (s) { r.count("distinct_nontrivial"); }
    r.outcome(mc::hash_str(mc::cat("tafp", name, e)));
    if (e != s || e2 != s) {
        r.violation("C12", "chrono::treat_as_floating_point", s ? "floating" : "not_floating", mc::cat("Rep=", name),
            mc::cat("etl ", e, " (::value ", e2, ") std ", s));
    }
}

// user clocks: the same definition over either library's types
template <typename L>
struct GoodClock {
    using rep                       = i64;
    using duration                  = typename L::template dur<i64, P<2>>;
    using period                    = typename duration::period;
    using time_point                = typename L::template tp<duration>; // a time_point of another clock is allowed ([time.clock.req])
    static constexpr bool is_steady = true;
    static time_point now() noexcept { return time_point{}; }
};
template <typename L>
struct NoNowClock {
    using rep                       = i64;
    using duration                  = typename L::template dur<i64, P<2>>;
    using period                    = typename duration::period;
    using time_point                = typename L::template tp<duration>;
    static constexpr bool is_steady = true;
};
template <typename L>
struct NoRepClock {
    using duration                  = typename L::template dur<i64, P<2>>;
    using period                    = typename duration::period;
    using time_point                = typename L::template tp<duration>;
    static constexpr bool is_steady = true;
    static time_point now() noexcept { return time_point{}; }
};
struct Empty { };

// is_clock is a type trait: C12 (arithmetic, casts, rounding) does not speak about it, C15 ("every etl type trait ... yields
// the same value as the std facility of the same name") does - reported for C15, whose props run this job as well
void check_is_clock(mc::Reporter& r)
{
    struct Row {
        char const* name;
        char const* cls;
        bool e, e2, s;
    };
    namespace ec = etl::chrono;
    namespace sc = std::chrono;
    Row const rows[] = {
        {"system_clock", "library_clock", ec::is_clock_v<ec::system_clock>, ec::is_clock<ec::system_clock>::value, sc::is_clock_v<sc::system_clock>},
        {"user clock (rep, period, duration, time_point, is_steady, now())", "conforming_user_clock", ec::is_clock_v<GoodClock<EtlL>>,
            ec::is_clock<GoodClock<EtlL>>::value, sc::is_clock_v<GoodClock<StdL>>},
        {"user clock without now()", "not_a_clock", ec::is_clock_v<NoNowClock<EtlL>>, ec::is_clock<NoNowClock<EtlL>>::value,
            sc::is_clock_v<NoNowClock<StdL>>},
        {"user clock without rep", "not_a_clock", ec::is_clock_v<NoRepClock<EtlL>>, ec::is_clock<NoRepClock<EtlL>>::value,
            sc::is_clock_v<NoRepClock<StdL>>},
        {"local_t", "not_a_clock", ec::is_clock_v<ec::local_t>, ec::is_clock<ec::local_t>::value, sc::is_clock_v<sc::local_t>},
        {"int", "not_a_clock", ec::is_clock_v<int>, ec::is_clock<int>::value, sc::is_clock_v<int>},
        {"empty struct", "not_a_clock", ec::is_clock_v<Empty>, ec::is_clock<Empty>::value, sc::is_clock_v<Empty>},
    };
    for (auto const& row : rows) {
        r.count("evaluations");
        if (row.s) { r.count("distinct_nontrivial"); }
        r.outcome(mc::hash_str(mc::cat("is_clock", row.name, row.e)));
        if (row.e != row.s || row.e2 != row.s) {
            r.violation("C15", "chrono::is_clock", row.cls, row.name, mc::cat("etl ", row.e, " (::value ", row.e2, ") std ", row.s));
        }
    }
}

// named duration types: period equal to std's, rep a signed integer of at least the
// number of bits [time.syn] requires
template <typename E, typename S>
void check_named(mc::Reporter& r, char const* name, int min_bits)
{
    r.count("evaluations");
    r.count("distinct_nontrivial");
    bool const period_ok = E::period::num == S::period::num && E::period::den == S::period::den;
    using R              = typename E::rep;
    bool const rep_ok    = std::is_integral_v<R> && std::is_signed_v<R> && int(sizeof(R) * 8) >= min_bits;
    r.outcome(mc::hash_str(mc::cat(name, E::period::num, "/", E::period::den)));
    if (!period_ok) {
        r.violation("C12", mc::cat("chrono::", name), "period", name,
            mc::cat("etl ratio<", E::period::num, ",", E::period::den, "> std ratio<", S::period::num, ",", S::period::den, ">"));
    }
    if (!rep_ok) {
        r.violation("C12", mc::cat("chrono::", name), "rep", name,
            mc::cat("rep is not a signed integer type of at least ", min_bits, " bits (sizeof ", sizeof(R), ")"));
    }
}

// literal tokens: etl 123_h against std 123h (count, period, floating-ness of the rep)
template <typename E, typename S>
void check_literal(mc::Reporter& r, char const* suffix, char const* token, E e, S s)
{
    r.count("evaluations");
    r.count("distinct_nontrivial");
    constexpr bool e_fp = std::is_floating_point_v<typename E::rep>;
    constexpr bool s_fp = std::is_floating_point_v<typename S::rep>;
    bool ok             = E::period::num == S::period::num && E::period::den == S::period::den && e_fp == s_fp;
    if (ok) {
        if constexpr (e_fp && s_fp) {
            ok = bits(f80(e.count())) == bits(f80(s.count()));
        } else if constexpr (!e_fp && !s_fp) {
            ok = i128(e.count()) == i128(s.count());
        }
    }
    r.outcome(mc::hash_str(mc::cat(suffix, token)));
    if (!ok) {
        r.violation("C12", mc::cat("operator\"\"_", suffix), e_fp ? "floating_literal" : "integer_literal", mc::cat(token, "_", suffix),
            mc::cat("etl count ", show_val(e.count()), " period ", E::period::num, "/", E::period::den, " std count ", show_val(s.count()),
                " period ", S::period::num, "/", S::period::den));
    }
}

// the literal operators called as functions over a range of arguments: the integer form is
// D(x), the floating form duration<floating, D::period>(x)
template <typename D, typename IntOp, typename FpOp>
void check_literal_sweep(mc::Reporter& r, char const* suffix, IntOp iop, FpOp fop)
{
    using R = typename D::rep;
    std::vector<i128> xs;
    for (int x = 0; x <= 2000; ++x) { xs.push_back(x); }
    for (int k : {15, 16, 31, 32, 62, 63}) {
        for (int d = -2; d <= 1; ++d) { xs.push_back((i128(1) << k) + d); }
    }
    for (i128 x : xs) {
        if (x < 0 || x > i128(std::numeric_limits<R>::max())) { continue; }
        auto const d = iop(static_cast<unsigned long long>(x));
        static_assert(std::is_same_v<std::remove_cv_t<decltype(d)>, D>);
        r.count("evaluations");
        if (x != 0) { r.count("distinct_nontrivial"); }
        r.outcome(mc::hash_mix(mc::hash_str(suffix), std::uint64_t(d.count())));
        if (i128(d.count()) != x) {
            r.violation("C12", mc::cat("operator\"\"_", suffix), "integer_literal", mc::cat(dec(x), "_", suffix),
                mc::cat("count ", show_val(d.count()), " expected ", dec(x)));
        }
    }
    for (f80 x : fp_first_operands(Rep::f80, 50)) {
        if (std::signbit(x) || x != x) { continue; } // a literal is never negative or NaN
        auto const d = fop(x);
        using FD     = std::remove_cv_t<decltype(d)>;
        static_assert(std::is_floating_point_v<typename FD::rep>);
        static_assert(FD::period::num == D::period::num && FD::period::den == D::period::den);
        using FR = typename FD::rep;
        r.count("evaluations");
        if (x != 0) { r.count("distinct_nontrivial"); }
        r.outcome(mc::hash_mix(mc::hash_str(suffix), hash_out(Out{{0, 0}, {f80(d.count()), 0}, true})));
        if (!(bits(f80(d.count())) == bits(f80(static_cast<FR>(x))))) {
            r.violation("C12", mc::cat("operator\"\"_", suffix), "floating_literal", mc::cat(show_f(x), "_", suffix),
                mc::cat("count ", show_f(f80(d.count())), " expected ", show_f(f80(static_cast<FR>(x)))));
        }
    }
}

void traits_job(mc::Reporter& r)
{
    namespace ec = etl::chrono;
    namespace sc = std::chrono;

    check_duration_values<i8>(r, "int8_t");
    check_duration_values<i16>(r, "int16_t");
    check_duration_values<i32>(r, "int32_t");
    check_duration_values<i64>(r, "int64_t");
    check_duration_values<long long>(r, "long long");
    check_duration_values<unsigned char>(r, "unsigned char");
    check_duration_values<unsigned short>(r, "unsigned short");
    check_duration_values<u32>(r, "uint32_t");
    check_duration_values<u64>(r, "uint64_t");
    check_duration_values<float>(r, "float");
    check_duration_values<double>(r, "double");
    check_duration_values<long double>(r, "long double");

    check_treat_as_fp<bool>(r, "bool");
    check_treat_as_fp<char>(r, "char");
    check_treat_as_fp<i8>(r, "int8_t");
    check_treat_as_fp<i16>(r, "int16_t");
    check_treat_as_fp<i32>(r, "int32_t");
    check_treat_as_fp<i64>(r, "int64_t");
    check_treat_as_fp<u32>(r, "uint32_t");
    check_treat_as_fp<u64>(r, "uint64_t");
    check_treat_as_fp<float>(r, "float");
    check_treat_as_fp<double>(r, "double");
    check_treat_as_fp<long double>(r, "long double");
    check_treat_as_fp<float const>(r, "float const");
    check_treat_as_fp<double volatile>(r, "double volatile");
    check_treat_as_fp<long double const volatile>(r, "long double const volatile");
    check_treat_as_fp<int const>(r, "int const");
    check_treat_as_fp<Empty>(r, "empty struct");
    check_treat_as_fp<float*>(r, "float*");

    check_is_clock(r);

    check_named<ec::nanoseconds, sc::nanoseconds>(r, "nanoseconds", 64);
    check_named<ec::microseconds, sc::microseconds>(r, "microseconds", 55);
    check_named<ec::milliseconds, sc::milliseconds>(r, "milliseconds", 45);
    check_named<ec::seconds, sc::seconds>(r, "seconds", 35);
    check_named<ec::minutes, sc::minutes>(r, "minutes", 29);
    check_named<ec::hours, sc::hours>(r, "hours", 23);
    check_named<ec::days, sc::days>(r, "days", 25);
    check_named<ec::weeks, sc::weeks>(r, "weeks", 22);
    check_named<ec::months, sc::months>(r, "months", 20);
    check_named<ec::years, sc::years>(r, "years", 17);

    {
        using namespace etl::literals::chrono_literals;
        using namespace std::chrono_literals;
#define C12_LIT(TOK)                                                                                                     \
    check_literal(r, "h", #TOK, TOK##_h, TOK##h);                                                                        \
    check_literal(r, "min", #TOK, TOK##_min, TOK##min);                                                                  \
    check_literal(r, "s", #TOK, TOK##_s, TOK##s);                                                                        \
    check_literal(r, "ms", #TOK, TOK##_ms, TOK##ms);                                                                     \
    check_literal(r, "us", #TOK, TOK##_us, TOK##us);                                                                     \
    check_literal(r, "ns", #TOK, TOK##_ns, TOK##ns);
#define C12_LIT64(TOK)                                                                                                   \
    check_literal(r, "s", #TOK, TOK##_s, TOK##s);                                                                        \
    check_literal(r, "ms", #TOK, TOK##_ms, TOK##ms);                                                                     \
    check_literal(r, "us", #TOK, TOK##_us, TOK##us);                                                                     \
    check_literal(r, "ns", #TOK, TOK##_ns, TOK##ns);
        C12_LIT(0)
        C12_LIT(1)
        C12_LIT(59)
        C12_LIT(1000)
        C12_LIT(86400)
        C12_LIT(0x7fff)
        C12_LIT(2147483647)
        C12_LIT(1'000'000)
        C12_LIT64(2147483648)
        C12_LIT64(4294967296)
        C12_LIT64(9223372036854775807)
        C12_LIT(0.0)
        C12_LIT(1.5)
        C12_LIT(0.1)
        C12_LIT(.5)
        C12_LIT(1e3)
        C12_LIT(2.5e-3)
        C12_LIT(1e300)
        C12_LIT(1e-4940)
        C12_LIT(18446744073709551615.0)
#undef C12_LIT
#undef C12_LIT64
    }
    {
        namespace lit = etl::literals::chrono_literals;
        check_literal_sweep<ec::hours>(
            r, "h", [](unsigned long long x) { return lit::operator""_h(x); }, [](long double x) { return lit::operator""_h(x); });
        check_literal_sweep<ec::minutes>(
            r, "min", [](unsigned long long x) { return lit::operator""_min(x); }, [](long double x) { return lit::operator""_min(x); });
        check_literal_sweep<ec::seconds>(
            r, "s", [](unsigned long long x) { return lit::operator""_s(x); }, [](long double x) { return lit::operator""_s(x); });
        check_literal_sweep<ec::milliseconds>(
            r, "ms", [](unsigned long long x) { return lit::operator""_ms(x); }, [](long double x) { return lit::operator""_ms(x); });
        check_literal_sweep<ec::microseconds>(
            r, "us", [](unsigned long long x) { return lit::operator""_us(x); }, [](long double x) { return lit::operator""_us(x); });
        check_literal_sweep<ec::nanoseconds>(
            r, "ns", [](unsigned long long x) { return lit::operator""_ns(x); }, [](long double x) { return lit::operator""_ns(x); });
    }
    // etl has no hh_mm_ss / is_am / is_pm / make12 / make24: nothing to compare
    r.count("api_gap:chrono::hh_mm_ss");
}

// ---- compile probes (part 0) ------------------------------------------------------------------
//
// Expressions that the pinned tree cannot compile cannot be part of this translation unit.
// They are given to the compiler at run time instead (g++ -fsyntax-only against the same
// include directory), each as a constant-expression sweep that compares etl with std inside
// a static_assert.  Stage 1: std part + etl part + comparison.  If that fails: stage 2, the
// std part alone (must compile, otherwise the probe itself is broken: no verdict); stage 3,
// std + etl parts without the comparison, which tells "etl does not compile" from "etl yields
// another value".  Either is a C12 violation.

#ifndef MC_REPO_INCLUDE
    #define MC_REPO_INCLUDE "/repo/include"
#endif

struct Probe {
    std::string subject, cls, kase;
    std::string std_part, etl_part, cmp_part;
    std::uint64_t cases; // what the sweep inside the static_assert evaluates
};

std::string run_cmd(std::string const& cmd, int& rc)
{
    std::string out;
    std::FILE* p = popen((cmd + " 2>&1").c_str(), "r");
    if (p == nullptr) {
        rc = -1;
        return out;
    }
    std::array<char, 4096> buf{};
    while (std::fgets(buf.data(), int(buf.size()), p) != nullptr) { out += buf.data(); }
    rc = pclose(p);
    return out;
}

enum class Cc { ok, error, infra };

Cc compile_once(std::string const& tag, std::string const& body, std::string& first_error)
{
    static char const* const prelude
        = "#include <etl/chrono.hpp>\n#include <etl/ratio.hpp>\n#include <chrono>\n#include <ratio>\n#include <type_traits>\n";
    std::string const file = "/tmp/c12_probe_" + tag + ".cpp";
    std::FILE* f           = std::fopen(file.c_str(), "w");
    if (f == nullptr) {
        first_error = "cannot write " + file;
        return Cc::infra;
    }
    std::fputs(prelude, f);
    std::fputs(body.c_str(), f);
    std::fputs("\n", f);
    std::fclose(f);
    int rc         = 0;
    auto const log = run_cmd(std::string("LC_ALL=C g++ -std=c++20 -fsyntax-only -w -fconstexpr-ops-limit=400000000 -I") + MC_REPO_INCLUDE + " " + file, rc);
    std::remove(file.c_str());
    if (rc == 0) { return Cc::ok; }
    auto const pos  = log.find(" error: ");
    bool const sick = log.find("internal compiler error") != std::string::npos || log.find("fatal error") != std::string::npos
                   || log.find("terminated program") != std::string::npos || log.find("Killed") != std::string::npos
                   || log.find("out of memory") != std::string::npos || log.find("cannot allocate") != std::string::npos;
    if (pos == std::string::npos || sick) {
        first_error = "compiler gave no verdict: " + log.substr(0, 200);
        return Cc::infra;
    }
    auto end    = log.find('\n', pos);
    first_error = log.substr(pos + 1, end == std::string::npos ? std::string::npos : end - pos - 1);
    // a failed static_assert: g++ explains the values in the following note
    auto const note = log.find("note: ", pos);
    if (first_error.find("static assertion failed") != std::string::npos && note != std::string::npos) {
        end = log.find('\n', note);
        first_error += "; " + log.substr(note, end == std::string::npos ? std::string::npos : end - note);
    }
    return Cc::error;
}
Cc compile(std::string const& tag, std::string const& body, std::string& first_error)
{
    Cc c = Cc::infra;
    for (int attempt = 0; attempt < 4 && c == Cc::infra; ++attempt) { c = compile_once(tag + "_" + std::to_string(attempt), body, first_error); }
    return c;
}

void run_probes(mc::Reporter& r, std::string const& job, std::vector<Probe> const& probes)
{
    // first all of them in one file (the normal case: one compiler run); on failure one by one
    std::string const tag = job + "_" + std::to_string(int(getpid()));
    std::string all, err;
    std::size_t i = 0;
    for (auto const& p : probes) {
        ++i;
        if (!r.want(p.subject)) { continue; }
        all += "namespace probe_" + std::to_string(i) + " {\n" + p.std_part + p.etl_part + p.cmp_part + "}\n";
    }
    bool const all_ok = compile(tag + "_all", all, err) == Cc::ok;
    i                 = 0;
    for (auto const& p : probes) {
        ++i;
        if (!r.want(p.subject)) { continue; }
        if (r.deadline_passed()) {
            r.not_exhaustive("deadline");
            return;
        }
        r.count("compile_probes");
        r.outcome(mc::hash_str(p.subject + p.kase));
        auto passed = [&] {
            r.count("evaluations", p.cases);
            r.count("distinct_nontrivial", p.cases);
        };
        if (all_ok) {
            passed();
            continue;
        }
        std::string const t = tag + "_" + std::to_string(i);
        if (compile(t + "a", p.std_part + p.etl_part + p.cmp_part, err) == Cc::ok) {
            passed();
            continue;
        }
        std::string const full_err = err;
        Cc const b                 = compile(t + "b", p.std_part, err);
        if (b != Cc::ok) {
            r.count("probes_without_verdict");
            r.not_exhaustive("compile probe without verdict (" + p.subject + ", " + p.kase + "): " + err);
            continue;
        }
        Cc const c = compile(t + "c", p.std_part + p.etl_part, err);
        if (c == Cc::infra) {
            r.count("probes_without_verdict");
            r.not_exhaustive("compile probe without verdict (" + p.subject + ", " + p.kase + "): " + err);
            continue;
        }
        if (c == Cc::error) {
            r.violation("C12", p.subject, p.cls, p.kase, "well-formed with std::chrono, does not compile with etl::chrono: " + err);
        } else {
            r.violation("C12", p.subject, p.cls, p.kase, "compiles, but the constant-expression sweep against std::chrono fails: " + full_err);
        }
    }
}

template <int I>
std::vector<Probe> period_probes(bool thorough)
{
    constexpr PeriodInfo info = P<I>::info;
    // sweep bounds inside the static_asserts (the compiler evaluates them): quick / thorough
    long const pb         = thorough ? 60 : 30;    // d + d: [-pb, pb]^2
    long const rb         = thorough ? 2000 : 400; // round, abs: [-rb, rb]
    std::string const PB  = std::to_string(pb);
    std::string const RB  = std::to_string(rb);
    auto const sweep_plus = "constexpr long first_bad() { for (long a = -" + PB + "; a <= " + PB + "; ++a) { for (long b = -" + PB + "; b <= " + PB
                          + "; ++b) { if (e_plus(a, b) != s_plus(a, b)) { return a * 1000 + b; } } } return 424242; }\nstatic_assert(first_bad() == 424242);\n";
    auto const sweep_round = "constexpr long first_bad() { for (long k = -" + RB + "; k <= " + RB
                           + "; ++k) { if (e_round(k) != s_round(k)) { return k; } } return 424242; }\nstatic_assert(first_bad() == 424242);\n";
    auto const sweep_abs = "constexpr long first_bad() { for (long k = -" + RB + "; k <= " + RB
                         + "; ++k) { if (e_abs(k) != s_abs(k) || e_fabs(k) != s_fabs(k)) { return k; } } return 424242; }\nstatic_assert(first_bad() == "
                           "424242);\n";
    std::uint64_t const n_plus = std::uint64_t(2 * pb + 1) * std::uint64_t(2 * pb + 1), n_round = std::uint64_t(2 * rb + 1);
    // the period as written at the source level
    std::string const name = info.name;
    std::string raw        = name;
    if (raw.rfind("ratio<", 0) != 0) { raw = mc::cat("ratio<", info.num, ",", info.den, ">"); }
    std::string const cls  = !CalendarSafe<I>::value ? "calendar_quotient_unrepresentable" : !P<I>::lowest ? "period_not_in_lowest_terms" : "general";
    std::string const quarter = mc::cat("ratio<", info.num, ",", dec(i128(info.den) * 4), ">"); // a quarter tick
    std::string const decl_s  = "using SD = std::chrono::duration<long, std::" + raw + ">; using SQ = std::chrono::duration<long, std::" + quarter
                             + ">; using SF = std::chrono::duration<double, std::" + raw + ">;\n";
    std::string const decl_e = "using ED = etl::chrono::duration<long, etl::" + raw + ">; using EQ = etl::chrono::duration<long, etl::" + quarter
                             + ">; using EF = etl::chrono::duration<double, etl::" + raw + ">;\n";
    std::vector<Probe> v;
    v.push_back(Probe{"operator+(duration,duration)", cls, "duration<long," + name + ">(a) + duration<long," + name + ">(b), a, b in [-" + PB + "," + PB + "]",
        decl_s + "constexpr long s_plus(long a, long b) { return (SD{a} + SD{b}).count(); }\n",
        decl_e + "constexpr long e_plus(long a, long b) { return (ED{a} + ED{b}).count(); }\n",
        sweep_plus, n_plus});
    v.push_back(Probe{"duration::duration(duration<Rep2,Period2>)", "constraint/" + cls,
        "is_convertible / is_constructible from duration<long," + name + "> to days, weeks, months, years",
        decl_s,
        decl_e
            + "constexpr bool e_cv[8] = {std::is_convertible_v<ED, etl::chrono::days>, std::is_convertible_v<ED, etl::chrono::weeks>, "
              "std::is_convertible_v<ED, etl::chrono::months>, std::is_convertible_v<ED, etl::chrono::years>, "
              "std::is_constructible_v<etl::chrono::days, ED>, std::is_constructible_v<etl::chrono::weeks, ED>, "
              "std::is_constructible_v<etl::chrono::months, ED>, std::is_constructible_v<etl::chrono::years, ED>};\n",
        "constexpr bool s_cv[8] = {std::is_convertible_v<SD, std::chrono::days>, std::is_convertible_v<SD, std::chrono::weeks>, "
        "std::is_convertible_v<SD, std::chrono::months>, std::is_convertible_v<SD, std::chrono::years>, "
        "std::is_constructible_v<std::chrono::days, SD>, std::is_constructible_v<std::chrono::weeks, SD>, "
        "std::is_constructible_v<std::chrono::months, SD>, std::is_constructible_v<std::chrono::years, SD>};\n"
        "constexpr int first_bad() { for (int k = 0; k < 8; ++k) { if (e_cv[k] != s_cv[k]) { return k; } } return 424242; }\n"
        "static_assert(first_bad() == 424242);\n",
        8});
    v.push_back(Probe{"chrono::round(duration)", cls, "round<duration<long," + name + ">>(duration<long," + quarter + ">(k)), k in [-" + RB + "," + RB + "]",
        decl_s + "constexpr long s_round(long k) { return std::chrono::round<SD>(SQ{k}).count(); }\n",
        decl_e + "constexpr long e_round(long k) { return etl::chrono::round<ED>(EQ{k}).count(); }\n",
        sweep_round, n_round});
    v.push_back(Probe{"chrono::round(time_point)", cls,
        "round<duration<long," + name + ">>(time_point<system_clock, duration<long," + quarter + ">>(k)), k in [-" + RB + "," + RB + "]",
        decl_s
            + "constexpr long s_round(long k) { return std::chrono::round<SD>(std::chrono::time_point<std::chrono::system_clock, "
              "SQ>(SQ{k})).time_since_epoch().count(); }\n",
        decl_e
            + "constexpr long e_round(long k) { return etl::chrono::round<ED>(etl::chrono::time_point<etl::chrono::system_clock, "
              "EQ>(EQ{k})).time_since_epoch().count(); }\n",
        sweep_round, n_round});
    v.push_back(Probe{"chrono::abs", cls, "abs(duration<long," + name + ">(k)) and abs(duration<double," + name + ">(k/4.0)), k in [-" + RB + "," + RB + "]",
        decl_s + "constexpr long s_abs(long k) { return std::chrono::abs(SD{k}).count(); }\nconstexpr double s_fabs(long k) { return "
                 "std::chrono::abs(SF{k / 4.0}).count(); }\n",
        decl_e + "constexpr long e_abs(long k) { return etl::chrono::abs(ED{k}).count(); }\nconstexpr double e_fabs(long k) { return "
                 "etl::chrono::abs(EF{k / 4.0}).count(); }\n",
        sweep_abs, 2 * n_round});
    return v;
}

template <int I>
void probe_job(mc::Reporter& r)
{
    run_probes(r, mc::cat("p", I), period_probes<I>(r.thorough()));
}

template <typename R>
std::string rn()
{
    return rep_name(rep_kind<R>());
}

} // namespace

int main(int argc, char** argv)
{
    mc::Main m(argc, argv);
    std::vector<std::string> const both{"quick", "thorough"};
    std::vector<std::string> const thorough{"thorough"};
#if MC_PART == 0
    #define C12_Q3(FR, TR) m.job("wide/" + rn<FR>() + "," + rn<TR>() + "/Q3", both, q3_job<FR, TR>)
    C12_Q3(i8, i8);
    C12_Q3(i8, i16);
    C12_Q3(u32, i32);
    C12_Q3(i64, u64);
    C12_Q3(u64, u32);
    C12_Q3(float, float);
    C12_Q3(double, float);
    C12_Q3(f80, double);
    C12_Q3(float, i16);
    C12_Q3(u64, float);
    #undef C12_Q3
    m.job("extremes/i64,i64", both, extremes_job<i64, i64>);
    m.job("extremes/double,double", both, extremes_job<double, double>);
    m.job("self/i8/ratio<1>", both, self_job<i8, 3>);
    m.job("self/i16/ratio<2,4>", both, self_job<i16, 19>);
    m.job("self/u32/ratio<1>", both, self_job<u32, 3>);
    m.job("self/u64/ratio<2,4>", both, self_job<u64, 19>);
    m.job("self/float/ratio<1>", both, self_job<float, 3>);
    m.job("self/ldouble/ratio<2,4>", both, self_job<f80, 19>);
    m.job("traits", both, traits_job);
    #if !defined(MC_FLAVOUR_SAN) // the probes run the compiler; they do not depend on how this binary was built
    m.job("compile-probes/nano", both, probe_job<0>);
    m.job("compile-probes/pico", both, probe_job<12>);
    m.job("compile-probes/ratio<2,4>", both, probe_job<19>);
    m.job("compile-probes/atto", thorough, probe_job<10>);
    m.job("compile-probes/femto", thorough, probe_job<11>);
    m.job("compile-probes/ratio<10,4>", thorough, probe_job<20>);
    m.job("compile-probes/ratio<1000000007,998244353>", thorough, probe_job<21>);
    m.job("compile-probes/exa", thorough, probe_job<18>);
    m.job("compile-probes/ratio<1001,30000>", thorough, probe_job<9>);
    #endif
#elif MC_PART >= 1 && MC_PART <= 27
    using FR           = RepAt<(MC_PART - 1) / 3>::t;
    constexpr int base = 3 * ((MC_PART - 1) % 3);
    using T0           = RepAt<base>::t;
    using T1           = RepAt<base + 1>::t;
    using T2           = RepAt<base + 2>::t;
    m.job("wide/" + rn<FR>() + "," + rn<T0>() + "/Q6", thorough, q6_job<FR, T0>);
    m.job("wide/" + rn<FR>() + "," + rn<T1>() + "/Q6", thorough, q6_job<FR, T1>);
    m.job("wide/" + rn<FR>() + "," + rn<T2>() + "/Q6", thorough, q6_job<FR, T2>);
    if constexpr (base == 0) {
        m.job("self/" + rn<FR>() + "/milli", thorough, self_wide_job<FR, 2>);
        m.job("self/" + rn<FR>() + "/ratio<1001,30000>", thorough, self_wide_job<FR, 9>);
    }
#elif MC_PART >= 100 && MC_PART <= 116
    constexpr int FI       = RW::v[MC_PART - 100];
    std::string const from = period_info(FI).name;
    m.job("row/i64,i64/from=" + from, thorough, row_job<i64, i64, FI>);
    m.job("row/u64,u64/from=" + from, thorough, row_job<u64, u64, FI>);
    m.job("row/i64,i32/from=" + from, thorough, row_job<i64, i32, FI>);
    m.job("row/double,double/from=" + from, thorough, row_job<double, double, FI>);
    m.job("row/ldouble,i64/from=" + from, thorough, row_job<f80, i64, FI>);
#else
    #error "MC_PART out of range"
#endif
    return m.run();
}
