// C13, single-path constexpr kernels: a representative set of library operations whose code
// is the same at compile time and at run time.  Here constant evaluation is the stricter
// executor (the compiler's abstract machine rejects out-of-bounds accesses inside an object,
// reads of uninitialised members and signed overflow), so the "constant evaluation succeeds for
// every in-domain argument" half of the property carries the weight; equality of the two
// executions is checked as everywhere else.
//
// MC_PART: 1 basic_string_view searches;  2 inplace_string<7> histories (small layout);  3 static_vector /
// inplace_vector histories;  4 to_chars / from_chars;  5 chrono;  6 algorithms;  7 inplace_string<40>
// histories;  8 to_chars / from_chars for 32/64 bits and from_chars on short strings.  Table sizes are set by the compiler memory the constant evaluator needs (up to 250 KB per
// history entry), not by run time.
// Round 2: part 4 also to_string / stoi / stol / stoll / stoul / stoull / strtol / strtoll / strtoul / strtoull / atoi / atol /
// atoll round trips (every 8-bit value and the 32/64-bit limits, bases 2, 10, 16, 36);  part 5 also calendar conversions and
// arithmetic in windows around boundary days, duration / time_point rounding across ten unit pairs;  part 1 also wstring_view,
// u8string_view, u16string_view and u32string_view searches (letters whose value order differs from their byte order);
// part 6 also a second algorithm kernel (sorting variants, set operations, merges, searches, numeric algorithms) and assume_aligned.
#include "mc.hpp"

#include <etl/algorithm.hpp>
#include <etl/array.hpp>
#include <etl/charconv.hpp>
#include <etl/chrono.hpp>
#include <etl/functional.hpp>
#include <etl/cstdlib.hpp>
#include <etl/inplace_vector.hpp>
#include <etl/memory.hpp>
#include <etl/numeric.hpp>
#include <etl/string.hpp>
#include <etl/string_view.hpp>
#include <etl/vector.hpp>

#include "c13_common.hpp"

#ifndef MC_PART
    #define MC_PART 1
#endif

namespace {
using namespace c13;

#if defined(C13_THOROUGH)
constexpr bool thorough_tables = true;
#else
constexpr bool thorough_tables = false;
#endif

using ll = long long;

constexpr std::size_t ipow_sz(std::size_t b, int e)
{
    std::size_t r = 1;
    for (int i = 0; i < e; ++i) { r *= b; }
    return r;
}
constexpr ll mix(ll h, ll v) { return static_cast<ll>((static_cast<u64>(h) ^ static_cast<u64>(v)) * 1099511628211ULL + 0x9e37ULL); }

// ------------------------------------------------------------------------- short strings
struct SStr {
    char s[8];
    int len;
};
/// i-th string over {a, b} in length-then-lexicographic order
constexpr SStr nth_ab(std::size_t i)
{
    SStr out{};
    std::size_t block = 1;
    while (i >= block) {
        i -= block;
        block *= 2;
        ++out.len;
    }
    for (int p = out.len - 1; p >= 0; --p) {
        out.s[p] = (i % 2) ? 'b' : 'a';
        i /= 2;
    }
    return out;
}
constexpr std::size_t count_ab(int maxLen) { return (std::size_t(1) << (maxLen + 1)) - 1; }
inline std::string show_s(SStr const& s) { return mc::show_chars(s.s, s.s + s.len); }

struct SvIn {
    SStr hay;
    SStr needle;
    int pos; // 0..hay_len+1, then npos
};
#if MC_PART == 1
// ------------------------------------------------------------------------- string_view
constexpr int sv_hay_len    = thorough_tables ? 5 : 4;
constexpr int sv_needle_len = thorough_tables ? 3 : 2;
struct k_string_view {
    using In = SvIn;
    using R  = std::array<ll, 16>;
    static constexpr std::size_t NH = count_ab(sv_hay_len);
    static constexpr std::size_t NN = count_ab(sv_needle_len);
    static constexpr std::size_t NP = std::size_t(sv_hay_len) + 3;
    static constexpr std::size_t N  = NH * NN * NP;
    static std::string subject() { return "basic_string_view search/compare family"; }
    static constexpr In in(std::size_t i)
    {
        In a{};
        a.pos = int(i % NP);
        i /= NP;
        a.needle = nth_ab(i % NN);
        a.hay    = nth_ab(i / NN);
        return a;
    }
    static constexpr bool valid(In const&) { return true; }
    static constexpr R call(In const& a)
    {
        using sv        = etl::string_view;
        auto const npos = sv::npos;
        // the views live in exact-size allocations: in constant evaluation any read outside a view is
        // rejected by the compiler (an empty string is the null view)
        char* hb = a.hay.len > 0 ? new char[std::size_t(a.hay.len)] : nullptr;
        char* nb = a.needle.len > 0 ? new char[std::size_t(a.needle.len)] : nullptr;
        for (int i = 0; i < a.hay.len; ++i) { hb[i] = a.hay.s[i]; }
        for (int i = 0; i < a.needle.len; ++i) { nb[i] = a.needle.s[i]; }
        sv const h = hb != nullptr ? sv{hb, std::size_t(a.hay.len)} : sv{};
        sv const n = nb != nullptr ? sv{nb, std::size_t(a.needle.len)} : sv{};
        auto const pos = a.pos == int(NP) - 1 ? npos : std::size_t(a.pos);
        auto const fwd = pos == npos ? std::size_t(0) : pos; // forward searches take pos from the front
        auto const c   = a.needle.len > 0 ? a.needle.s[0] : 'a';
        auto const sub = fwd <= h.size() ? h.substr(fwd, std::size_t(a.needle.len)) : sv{};
        auto const cmp = h.compare(n);
        R const out{ll(h.find(n, fwd)), ll(h.rfind(n, pos)), ll(h.find_first_of(n, fwd)), ll(h.find_last_of(n, pos)),
            ll(h.find_first_not_of(n, fwd)), ll(h.find_last_not_of(n, pos)), ll(h.find(c, fwd)), ll(h.rfind(c, pos)),
            ll((cmp > 0) - (cmp < 0)), ll(h.starts_with(n)), ll(h.ends_with(n)), ll(h.contains(n)), ll(sub.size()),
            ll(sub.empty() ? 0 : sub.front()), ll(h == n), ll(h < n)};
        delete[] hb;
        delete[] nb;
        return out;
    }
    static std::string cls(In const& a)
    {
        std::string s = a.hay.len == 0 ? "hay_empty" : "hay";
        s += a.needle.len == 0 ? ",needle_empty" : a.needle.len > a.hay.len ? ",needle_longer" : ",needle";
        s += a.pos == int(NP) - 1 ? ",pos_npos" : a.pos > a.hay.len ? ",pos_gt_size" : a.pos == a.hay.len ? ",pos_eq_size" : ",pos";
        return s;
    }
    static std::string show(In const& a)
    {
        return "hay=" + show_s(a.hay) + " needle=" + show_s(a.needle) + " pos=" + (a.pos == int(NP) - 1 ? std::string("npos") : std::to_string(a.pos));
    }
    static bool nontrivial(In const& a) { return a.hay.len > 0 && a.needle.len > 0; }
};
#endif

#if MC_PART == 1
// -------------------------------------------------------- string_view, other character types
// Letters: for 16/32-bit code units two values whose order by value (x < y) is the opposite of their
// order by bytes in memory on a little-endian machine (0x0161 < 0x0240, but 61 01 > 40 02): a
// run-time memcmp shortcut and the element-wise constant-evaluation path would disagree on them.
template <typename C>
constexpr C wide_letter(char ab)
{
    if constexpr (sizeof(C) == 1) {
        return ab == 'a' ? C(0x61) : C(0xC3); // char8_t: ASCII and a lead byte >= 0x80
    } else {
        return ab == 'a' ? C(0x0161) : C(0x0240);
    }
}
template <typename C>
char const* cname()
{
    if constexpr (std::is_same_v<C, wchar_t>) { return "wchar_t"; }
    if constexpr (std::is_same_v<C, char8_t>) { return "char8_t"; }
    if constexpr (std::is_same_v<C, char16_t>) { return "char16_t"; }
    if constexpr (std::is_same_v<C, char32_t>) { return "char32_t"; }
    return "?";
}
constexpr int wsv_hay_len    = thorough_tables ? 4 : 3;
constexpr int wsv_needle_len = 2;
template <typename C>
struct k_wide_string_view {
    using In = SvIn;
    using R  = std::array<ll, 16>;
    static constexpr std::size_t NH = count_ab(wsv_hay_len);
    static constexpr std::size_t NN = count_ab(wsv_needle_len);
    static constexpr std::size_t NP = std::size_t(wsv_hay_len) + 3;
    static constexpr std::size_t N  = NH * NN * NP;
    static std::string subject() { return std::string("basic_string_view<") + cname<C>() + "> search/compare family"; }
    static constexpr In in(std::size_t i)
    {
        In a{};
        a.pos = int(i % NP);
        i /= NP;
        a.needle = nth_ab(i % NN);
        a.hay    = nth_ab(i / NN);
        return a;
    }
    static constexpr bool valid(In const&) { return true; }
    static constexpr R call(In const& a)
    {
        using sv        = etl::basic_string_view<C>;
        auto const npos = sv::npos;
        C* hb = a.hay.len > 0 ? new C[std::size_t(a.hay.len)] : nullptr;
        C* nb = a.needle.len > 0 ? new C[std::size_t(a.needle.len)] : nullptr;
        for (int i = 0; i < a.hay.len; ++i) { hb[i] = wide_letter<C>(a.hay.s[i]); }
        for (int i = 0; i < a.needle.len; ++i) { nb[i] = wide_letter<C>(a.needle.s[i]); }
        sv const h = hb != nullptr ? sv{hb, std::size_t(a.hay.len)} : sv{};
        sv const n = nb != nullptr ? sv{nb, std::size_t(a.needle.len)} : sv{};
        auto const pos = a.pos == int(NP) - 1 ? npos : std::size_t(a.pos);
        auto const fwd = pos == npos ? std::size_t(0) : pos;
        auto const c   = wide_letter<C>(a.needle.len > 0 ? a.needle.s[0] : 'a');
        auto const sub = fwd <= h.size() ? h.substr(fwd, std::size_t(a.needle.len)) : sv{};
        auto const cmp = h.compare(n);
        R const out{ll(h.find(n, fwd)), ll(h.rfind(n, pos)), ll(h.find_first_of(n, fwd)), ll(h.find_last_of(n, pos)),
            ll(h.find_first_not_of(n, fwd)), ll(h.find_last_not_of(n, pos)), ll(h.find(c, fwd)), ll(h.rfind(c, pos)),
            ll((cmp > 0) - (cmp < 0)), ll(h.starts_with(n)) + 2 * ll(h.ends_with(n)) + 4 * ll(h.contains(n)) + 8 * ll(h.starts_with(c)), ll(sub.size()),
            ll(sub.empty() ? 0 : sub.front()), ll(h == n) + 2 * ll(h != n), ll(h < n) + 2 * ll(h <= n) + 4 * ll(h > n) + 8 * ll(h >= n),
            ll(etl::char_traits<C>::compare(hb != nullptr ? hb : nb, nb != nullptr ? nb : hb, (hb != nullptr && nb != nullptr) ? std::size_t(a.hay.len < a.needle.len ? a.hay.len : a.needle.len) : 0) > 0),
            ll(hb != nullptr && nb != nullptr ? etl::char_traits<C>::lt(hb[0], nb[0]) : false)};
        delete[] hb;
        delete[] nb;
        return out;
    }
    static std::string cls(In const& a)
    {
        std::string s = a.hay.len == 0 ? "hay_empty" : "hay";
        s += a.needle.len == 0 ? ",needle_empty" : a.needle.len > a.hay.len ? ",needle_longer" : ",needle";
        s += a.pos == int(NP) - 1 ? ",pos_npos" : a.pos > a.hay.len ? ",pos_gt_size" : a.pos == a.hay.len ? ",pos_eq_size" : ",pos";
        return s;
    }
    static std::string show(In const& a)
    {
        return "hay=" + show_s(a.hay) + " needle=" + show_s(a.needle) + " pos=" + (a.pos == int(NP) - 1 ? std::string("npos") : std::to_string(a.pos))
             + " (a=" + std::to_string(unsigned(wide_letter<C>('a'))) + ", b=" + std::to_string(unsigned(wide_letter<C>('b'))) + ")";
    }
    static bool nontrivial(In const& a) { return a.hay.len > 0 && a.needle.len > 0; }
};
#endif

// ---------------------------------------------------------------- operation histories
/// table of all operation sequences of length exactly Len over an alphabet of K operations
template <int K, int Len>
struct History {
    using In = u32;
    static constexpr std::size_t N = ipow_sz(K, Len);
    static constexpr In in(std::size_t i) { return static_cast<In>(i); }
    static constexpr bool valid(In const&) { return true; }
    static std::string show(In const& code)
    {
        std::string s = "ops=";
        u32 c         = code;
        for (int i = 0; i < Len; ++i) {
            s += char('0' + c % K);
            c /= K;
        }
        return s;
    }
    static bool nontrivial(In const& code) { return code != 0; }
};

#if MC_PART == 2 || MC_PART == 7
constexpr int str_len = thorough_tables ? 4 : 3;
template <std::size_t Cap>
struct k_inplace_string : History<10, str_len> {
    using R = std::array<ll, 12>;
    static std::string subject() { return "inplace_string<" + std::to_string(Cap) + "> history"; }
    static std::string cls(In const& code)
    {
        // class = the set of operation kinds used (one bit per kind) reduced to "uses insert/replace/erase"
        bool ins = false, rep = false, era = false;
        u32 c = code;
        for (int i = 0; i < str_len; ++i) {
            int const op = int(c % 10);
            c /= 10;
            ins = ins || op == 2;
            rep = rep || op == 6;
            era = era || op == 3 || op == 8;
        }
        return std::string(ins ? "insert" : "") + (rep ? "+replace" : "") + (era ? "+erase" : "") + ((ins || rep || era) ? "" : "append_only");
    }
    static constexpr R call(In const& code)
    {
        etl::inplace_string<Cap> s;
        ll h  = 0;
        u32 c = code;
        for (int step = 0; step < str_len; ++step) {
            int const op = int(c % 10);
            c /= 10;
            auto const room = s.capacity() - s.size();
            switch (op) {
            case 0:
                if (room >= 1) { s.push_back(char('a' + step)); }
                break;
            case 1:
                if (room >= 2) { s.append("xy"); }
                break;
            case 2:
                if (room >= 2) { s.insert(s.size() / 2, "ij"); }
                break;
            case 3:
                if (!s.empty()) { s.erase(0, 1); }
                break;
            case 4:
                if (!s.empty()) { s.pop_back(); }
                break;
            case 5: s.resize(2, 'z'); break;
            case 6:
                if (!s.empty() && room >= 1) { s.replace(0, 1, "RS"); }
                break;
            case 7: s.clear(); break;
            case 8:
                if (s.size() >= 2) { s.erase(s.begin() + 1); }
                break;
            case 9:
                if (room >= 1) { s.append(1, 'q'); }
                break;
            default: break;
            }
            h = mix(h, ll(s.size()));
            for (auto ch : s) { h = mix(h, ll(ch)); }
            h = mix(h, ll(s.c_str()[s.size()])); // terminator
            h = mix(h, ll(s.find('y')));
            h = mix(h, ll(s.rfind("x", etl::inplace_string<Cap>::npos)));
        }
        R out{};
        out[0] = h;
        out[1] = ll(s.size());
        for (std::size_t i = 0; i < s.size() && i < 8; ++i) { out[2 + i] = ll(s[i]); }
        out[10] = ll(s.compare("ab") > 0) - ll(s.compare("ab") < 0);
        out[11] = ll(s.substr(s.size() / 2).size());
        return out;
    }
};
#endif

#if MC_PART == 3
constexpr int vec_len = 4;
struct k_static_vector : History<9, vec_len> {
    using R = std::array<ll, 8>;
    static std::string subject() { return "static_vector<int,4> history"; }
    static std::string cls(In const&) { return "general"; }
    static constexpr R call(In const& code)
    {
        etl::static_vector<int, 4> v;
        ll h  = 0;
        u32 c = code;
        for (int step = 0; step < vec_len; ++step) {
            int const op = int(c % 9);
            c /= 9;
            switch (op) {
            case 0:
                if (!v.full()) { v.push_back(1 + step); }
                break;
            case 1:
                if (!v.empty()) { v.pop_back(); }
                break;
            case 2:
                if (!v.full()) {
                    auto it = v.insert(v.begin(), 70 + step);
                    h       = mix(h, ll(it - v.begin()));
                }
                break;
            case 3:
                if (!v.empty()) {
                    auto it = v.erase(v.begin());
                    h       = mix(h, ll(it - v.begin()));
                }
                break;
            case 4:
                if (!v.full()) {
                    auto it = v.emplace(v.begin() + v.size() / 2, 90 + step);
                    h       = mix(h, ll(it - v.begin()));
                }
                break;
            case 5: v.clear(); break;
            case 6: v.resize(2); break;
            case 7:
                if (v.size() >= 2) {
                    auto it = v.erase(v.begin(), v.begin() + 2);
                    h       = mix(h, ll(it - v.begin()));
                }
                break;
            case 8: {
                auto w = v; // copy, compare, assign back
                h      = mix(h, ll(w == v));
                if (!w.full()) { w.push_back(5); }
                h = mix(h, ll(v < w));
                v = w;
                break;
            }
            default: break;
            }
            h = mix(h, ll(v.size()));
            for (auto x : v) { h = mix(h, ll(x)); }
        }
        R out{};
        out[0] = h;
        out[1] = ll(v.size());
        for (std::size_t i = 0; i < v.size(); ++i) { out[2 + i] = ll(v[i]); }
        out[6] = v.empty() ? -1 : ll(v.front());
        out[7] = v.empty() ? -1 : ll(v.back());
        return out;
    }
};
struct k_inplace_vector : History<6, vec_len + 1> {
    using R = std::array<ll, 8>;
    static std::string subject() { return "inplace_vector<int,4> history"; }
    static std::string cls(In const&) { return "general"; }
    static constexpr R call(In const& code)
    {
        etl::inplace_vector<int, 4> v{}; // value-initialised: `inplace_vector v;` leaves _size indeterminate (known finding of C02)
        ll h  = 0;
        u32 c = code;
        for (int step = 0; step < vec_len + 1; ++step) {
            int const op = int(c % 6);
            c /= 6;
            switch (op) {
            case 0: h = mix(h, ll(v.try_push_back(1 + step) != nullptr)); break;
            case 1:
                if (!v.empty()) { v.pop_back(); }
                break;
            case 2: h = mix(h, ll(v.try_emplace_back(40 + step) != nullptr)); break;
            case 3:
                if (v.size() < v.capacity()) { v.unchecked_push_back(60 + step); }
                break;
            case 4: v.clear(); break;
            case 5: {
                auto w = v;
                h      = mix(h, ll(w.size()));
                for (auto x : w) { h = mix(h, ll(x)); }
                break;
            }
            default: break;
            }
            h = mix(h, ll(v.size()));
            for (auto x : v) { h = mix(h, ll(x)); }
        }
        R out{};
        out[0] = h;
        out[1] = ll(v.size());
        for (std::size_t i = 0; i < v.size(); ++i) { out[2 + i] = ll(v.data()[i]); }
        out[6] = v.empty() ? -1 : ll(v.front());
        out[7] = v.empty() ? -1 : ll(v.back());
        return out;
    }
};
#endif

#if MC_PART == 4 || MC_PART == 8
// ---------------------------------------------------------------------------- charconv
template <typename T>
char const* iname()
{
    if constexpr (std::is_same_v<T, u8>) { return "u8"; }
    if constexpr (std::is_same_v<T, i8>) { return "i8"; }
    if constexpr (std::is_same_v<T, i32>) { return "i32"; }
    if constexpr (std::is_same_v<T, u32>) { return "u32"; }
    if constexpr (std::is_same_v<T, i64>) { return "i64"; }
    if constexpr (std::is_same_v<T, u64>) { return "u64"; }
    return "?";
}
template <typename T>
constexpr auto conv_values()
{
    if constexpr (sizeof(T) == 1) {
        std::array<T, 256> a{};
        for (int i = 0; i < 256; ++i) { a[std::size_t(i)] = static_cast<T>(static_cast<u8>(i)); }
        return a;
    } else {
        using U = std::make_unsigned_t<T>;
        std::array<T, 96> a{};
        std::size_t n = 0;
        for (U x : {U(0), U(1), U(7), U(9), U(10), U(35), U(36), U(99), U(100), U(255), U(256), U(1000), U(65535), U(65536), U(1000000007)}) {
            a[n++] = static_cast<T>(x);
            a[n++] = static_cast<T>(U(0) - x);
        }
        for (int k = 7; k < int(sizeof(T) * 8); k += 8) {
            U const b = static_cast<U>(U(1) << k);
            a[n++]    = static_cast<T>(b);
            a[n++]    = static_cast<T>(b - 1);
            a[n++]    = static_cast<T>(b + 1);
            a[n++]    = static_cast<T>(~b);
        }
        a[n++] = static_cast<T>(U(0x0123456789ABCDEFULL));
        a[n++] = static_cast<T>(U(12345678901234567890ULL));
        // the tail stays 0: duplicates of an existing entry are harmless for the comparison and
        // excluded from distinct_nontrivial by content hashing
        return a;
    }
}
constexpr int conv_bases[] = {2, 3, 8, 10, 16, 36};
template <typename T>
struct ConvIn {
    T value;
    int base;
    int room; // buffer size handed to to_chars: 0 = exactly enough, 1 = one short, 2 = roomy
};
template <typename T>
struct k_charconv {
    using In = ConvIn<T>;
    using R  = std::array<ll, 6>;
    static constexpr auto vals     = conv_values<T>();
    static constexpr std::size_t N = vals.size() * 6 * 3;
    static std::string subject() { return std::string("to_chars/from_chars(") + iname<T>() + ",base)"; }
    static constexpr In in(std::size_t i) { return In{vals[i / 18], conv_bases[(i / 3) % 6], int(i % 3)}; }
    static constexpr bool valid(In const&) { return true; }
    static constexpr int digits_needed(T v, int base)
    {
        using U = std::make_unsigned_t<T>;
        int n   = v < 0 ? 1 : 0;
        U m     = v < 0 ? static_cast<U>(U(0) - static_cast<U>(v)) : static_cast<U>(v);
        do {
            ++n;
            m = static_cast<U>(m / static_cast<U>(base));
        } while (m != 0);
        return n;
    }
    static constexpr R call(In const& a)
    {
        R out{};
        char buf[68] = {};
        for (auto& ch : buf) { ch = '#'; }
        int const need = digits_needed(a.value, a.base);
        int const size = a.room == 0 ? need : a.room == 1 ? need - 1 : 66;
        auto const res = etl::to_chars(buf, buf + size, a.value, a.base);
        out[0]         = ll(res.ec == etl::errc{});
        out[1]         = ll(res.ptr - buf); // on value_too_large: == size (last) by the standard
        if (res.ec == etl::errc{}) {
            ll h = 0; // the digits written
            for (char const* p = buf; p != res.ptr; ++p) { h = mix(h, ll(*p)); }
            out[4] = h;
            ll untouched = 0; // nothing behind the result may be written
            for (char const* p = res.ptr; p != buf + 68; ++p) { untouched += ll(*p == '#'); }
            out[5] = untouched - ll(buf + 68 - res.ptr);
            T back{};
            auto const fr = etl::from_chars(buf, res.ptr, back, a.base);
            out[2]        = ll(fr.ec == etl::errc{}) + 2 * ll(fr.ptr - buf);
            out[3]        = ll(back == a.value);
        } else {
            // buffer content inside [first, last) after value_too_large is unspecified: only the part behind last is observed
            ll untouched = 0;
            for (char const* p = buf + (size < 0 ? 0 : size); p != buf + 68; ++p) { untouched += ll(*p == '#'); }
            out[5] = untouched - ll(68 - (size < 0 ? 0 : size));
        }
        return out;
    }
    static std::string cls(In const& a)
    {
        return std::string(a.value < 0 ? "negative" : a.value == 0 ? "zero" : "positive") + (a.base == 10 ? ",base10" : ",base_other")
             + (a.room == 0 ? ",exact_fit" : a.room == 1 ? ",one_short" : ",roomy");
    }
    static std::string show(In const& a)
    {
        return "value=" + show_val(a.value) + " base=" + std::to_string(a.base) + " room=" + std::to_string(a.room);
    }
    static bool nontrivial(In const& a) { return a.value != 0; }
};
// from_chars on short digit strings: every string of length <= 3 (thorough 4) over {'-','0','1','9','a','z',' '}
constexpr int fc_len           = thorough_tables ? 4 : 3;
constexpr char fc_alphabet[7]  = {'-', '0', '1', '9', 'a', 'z', ' '};
struct FcIn {
    char s[8];
    int len;
    int base;
};
template <typename T>
struct k_from_chars {
    using In = FcIn;
    using R  = std::array<ll, 3>;
    static constexpr std::size_t NS = (ipow_sz(7, fc_len + 1) - 1) / 6;
    static constexpr std::size_t N  = NS * 3;
    static std::string subject() { return std::string("from_chars(") + iname<T>() + ",base) on short strings"; }
    static constexpr In in(std::size_t i)
    {
        In a{};
        constexpr int bases[3] = {10, 16, 36};
        a.base                 = bases[i % 3];
        i /= 3;
        std::size_t block = 1;
        while (i >= block) {
            i -= block;
            block *= 7;
            ++a.len;
        }
        for (int p = a.len - 1; p >= 0; --p) {
            a.s[p] = fc_alphabet[i % 7];
            i /= 7;
        }
        return a;
    }
    static constexpr bool valid(In const&) { return true; }
    static constexpr R call(In const& a)
    {
        T v           = T(77);
        auto const fr = etl::from_chars(a.s, a.s + a.len, v, a.base);
        return R{ll(int(fr.ec)), ll(fr.ptr - a.s), fr.ec == etl::errc{} ? ll(v) : ll(0)};
    }
    static std::string cls(In const& a)
    {
        return std::string(a.len == 0 ? "empty" : a.s[0] == '-' ? "minus_first" : a.s[0] == ' ' ? "space_first" : "digit_or_letter_first")
             + ",base" + std::to_string(a.base);
    }
    static std::string show(In const& a) { return "s=" + mc::show_chars(a.s, a.s + a.len) + " base=" + std::to_string(a.base); }
    static bool nontrivial(In const& a) { return a.len > 0; }
};
#endif

#if MC_PART == 4
// ------------------------------------------- to_string / sto* / strto* / ato* round trips
template <typename T>
char const* tname_c()
{
    if constexpr (std::is_same_v<T, int>) { return "int"; }
    if constexpr (std::is_same_v<T, long>) { return "long"; }
    if constexpr (std::is_same_v<T, long long>) { return "long long"; }
    if constexpr (std::is_same_v<T, unsigned>) { return "unsigned"; }
    if constexpr (std::is_same_v<T, unsigned long>) { return "unsigned long"; }
    if constexpr (std::is_same_v<T, unsigned long long>) { return "unsigned long long"; }
    return "?";
}
/// every 8-bit value ([-128,255], the negative ones for signed types only) and the limits of T with neighbours
template <typename T>
constexpr auto intconv_values()
{
    using L = std::numeric_limits<T>;
    std::array<T, 420> a{};
    std::size_t n = 0;
    for (int v = std::is_signed_v<T> ? -128 : 0; v <= 255; ++v) { a[n++] = static_cast<T>(v); }
    for (T v : {L::min(), T(L::min() + 1), T(L::min() + 2), T(L::max() - 2), T(L::max() - 1), L::max(), T(L::max() / 2), T(L::max() / 2 + 1),
             T(L::max() / 10), T(L::max() / 10 + 1), T(L::max() / 16), T(L::max() / 36), T(L::max() / 36 + 1)}) {
        a[n++] = v;
    }
    if constexpr (sizeof(T) == 8) { // the 32-bit limits inside a 64-bit type
        for (long long v : {2147483647LL, 2147483648LL, 4294967295LL, 4294967296LL}) {
            a[n++] = static_cast<T>(v);
            if constexpr (std::is_signed_v<T>) { a[n++] = static_cast<T>(-v); }
        }
    }
    return std::pair{a, n};
}
constexpr int intconv_bases[4] = {2, 10, 16, 36};
template <typename T>
struct k_intconv {
    using In = ConvIn<T>; // room unused
    using R  = std::array<ll, 8>;
    static constexpr auto vals     = intconv_values<T>();
    static constexpr std::size_t N = vals.second * 4;
    static std::string subject() { return std::string("to_string/sto*/strto*/ato* round trip (") + tname_c<T>() + ",base)"; }
    static constexpr In in(std::size_t i) { return In{vals.first[i / 4], intconv_bases[i % 4], 0}; }
    static constexpr bool valid(In const&) { return true; }
    static constexpr R call(In const& a)
    {
        R out{};
        char buf[72] = {}; // digits written by to_chars, then NUL
        auto const res = etl::to_chars(buf, buf + 70, a.value, a.base);
        auto const len = std::size_t(res.ptr - buf);
        out[0]         = ll(res.ec == etl::errc{}) * 100 + ll(len);
        char up[72]    = {}; // the same text with upper-case digits, preceded by blanks and (non-negative values) a plus sign
        std::size_t u  = 0;
        up[u++]        = ' ';
        up[u++]        = '\t';
        if (buf[0] != '-') { up[u++] = '+'; }
        for (std::size_t i = 0; i < len; ++i) { up[u++] = (buf[i] >= 'a' && buf[i] <= 'z') ? char(buf[i] - 'a' + 'A') : buf[i]; }
        char const* end  = nullptr;
        char const* end2 = nullptr;
        etl::size_t pos  = 99;
        ll v1 = 0, v2 = 0, v3 = 0;
        if constexpr (std::is_same_v<T, unsigned long long>) {
            v1 = ll(etl::strtoull(buf, &end, a.base));
            v2 = ll(etl::strtoull(up, &end2, a.base));
            v3 = ll(etl::stoull(etl::string_view{buf, len}, &pos, a.base));
        } else if constexpr (std::is_unsigned_v<T>) {
            v1 = ll(etl::strtoul(buf, &end, a.base));
            v2 = ll(etl::strtoul(up, &end2, a.base));
            v3 = ll(etl::stoul(etl::string_view{buf, len}, &pos, a.base));
        } else if constexpr (std::is_same_v<T, long long>) {
            v1 = ll(etl::strtoll(buf, &end, a.base));
            v2 = ll(etl::strtoll(up, &end2, a.base));
            v3 = ll(etl::stoll(etl::string_view{buf, len}, &pos, a.base));
        } else {
            v1 = ll(etl::strtol(buf, &end, a.base));
            v2 = ll(etl::strtol(up, &end2, a.base));
            if constexpr (std::is_same_v<T, int>) {
                v3 = ll(etl::stoi(etl::string_view{buf, len}, &pos, a.base));
            } else {
                v3 = ll(etl::stol(etl::string_view{buf, len}, &pos, a.base));
            }
        }
        out[1] = v1;
        out[2] = ll(end - buf) * 256 + ll(pos);
        out[3] = v2;
        out[4] = ll(end2 - up);
        out[5] = v3;
        if (a.base == 10) {
            // exact-fit capacity: the longest value of T (digits10 + 1 digits and a sign) fills the string completely
            auto const str = etl::to_string<std::size_t(std::numeric_limits<T>::digits10 + 1 + int(std::is_signed_v<T>))>(a.value);
            ll h           = ll(str.size());
            for (auto ch : str) { h = mix(h, ll(ch)); }
            out[6] = h;
            if constexpr (std::is_same_v<T, int>) {
                out[7] = ll(etl::atoi(buf));
                out[6] = mix(out[6], ll(etl::atoi(up)));
            }
            if constexpr (std::is_same_v<T, long>) {
                out[7] = ll(etl::atol(buf));
                out[6] = mix(out[6], ll(etl::atol(up)));
            }
            if constexpr (std::is_same_v<T, long long>) {
                out[7] = ll(etl::atoll(buf));
                out[6] = mix(out[6], ll(etl::atoll(up)));
            }
        }
        return out;
    }
    static std::string cls(In const& a)
    {
        using L = std::numeric_limits<T>;
        return std::string(a.value == L::max() ? "max" : (std::is_signed_v<T> && a.value == L::min()) ? "min" : a.value < 0 ? "negative" : a.value == 0 ? "zero" : "positive")
             + ",base" + std::to_string(a.base);
    }
    static std::string show(In const& a) { return "value=" + show_val(a.value) + " base=" + std::to_string(a.base); }
    static bool nontrivial(In const& a) { return a.value != 0; }
};
#endif

#if MC_PART == 5
// ------------------------------------------------------------------------------ chrono
constexpr int day_span = thorough_tables ? 9000 : 4000;
struct k_civil {
    using In = int; // days since 1970-01-01
    using R  = std::array<ll, 8>;
    static constexpr std::size_t N = std::size_t(2 * day_span + 1);
    static std::string subject() { return "year_month_day <-> sys_days, weekday"; }
    static constexpr In in(std::size_t i) { return int(i) - day_span; }
    static constexpr bool valid(In const&) { return true; }
    static constexpr R call(In const& d)
    {
        namespace ch = etl::chrono;
        auto const sd  = ch::sys_days{ch::days{d}};
        auto const ymd = ch::year_month_day{sd};
        auto const wd  = ch::weekday{sd};
        auto const rt  = ch::sys_days{ymd};
        auto const ymdl = ch::year_month_day_last{ymd.year(), ch::month_day_last{ymd.month()}};
        return R{ll(int(ymd.year())), ll(unsigned(ymd.month())), ll(unsigned(ymd.day())), ll(wd.c_encoding()), ll(rt.time_since_epoch().count()),
            ll(ymd.ok()), ll(unsigned(ymdl.day())), ll(ymd.year().is_leap())};
    }
    static std::string cls(In const& d) { return d < 0 ? "before_epoch" : "epoch_or_later"; }
    static std::string show(In const& d) { return "days=" + std::to_string(d); }
    static bool nontrivial(In const& d) { return d != 0; }
};
struct k_duration {
    using In = int; // milliseconds
    using R  = std::array<ll, 10>;
    static constexpr int span      = thorough_tables ? 7000 : 3000;
    static constexpr std::size_t N = std::size_t(2 * span + 1);
    static std::string subject() { return "duration_cast/floor/ceil/round/abs(milliseconds)"; }
    static constexpr In in(std::size_t i) { return int(i) - span; }
    static constexpr bool valid(In const&) { return true; }
    static constexpr R call(In const& v)
    {
        namespace ch = etl::chrono;
        using ms     = ch::milliseconds;
        using s      = ch::seconds;
        using odd    = ch::duration<long long, etl::ratio<5, 7>>;
        ms const d{v};
        return R{ll(ch::duration_cast<s>(d).count()), ll(ch::floor<s>(d).count()), ll(ch::ceil<s>(d).count()), ll(ch::round<s>(d).count()),
            ll(ch::abs(d).count()), ll(ch::duration_cast<odd>(d).count()), ll(ch::floor<odd>(d).count()), ll(ch::ceil<odd>(d).count()),
            ll(ch::round<odd>(d).count()), ll((d + s{1}).count())};
    }
    static std::string cls(In const& v) { return v < 0 ? "negative" : v % 1000 == 0 ? "whole_seconds" : v % 500 == 0 ? "tie" : "general"; }
    static std::string show(In const& v) { return "ms=" + std::to_string(v); }
    static bool nontrivial(In const& v) { return v != 0; }
};

// ---- round 2: windows around boundary days, arithmetic, more unit pairs ----------------
constexpr ll days_from_civil_ref(int y, unsigned m, unsigned d) // harness-side closed form, used only to place the windows
{
    y -= m <= 2;
    ll const era       = (y >= 0 ? y : y - 399) / 400;
    unsigned const yoe = static_cast<unsigned>(y - era * 400);
    unsigned const doy = (153 * (m > 2 ? m - 3 : m + 9) + 2) / 5 + d - 1;
    unsigned const doe = yoe * 365 + yoe / 4 - yoe / 100 + doy;
    return era * 146097 + ll(doe) - 719468;
}
constexpr int boundary_years[] = {-32767, -32766, -4800, -401, -400, -399, -101, -100, -1, 0, 1, 4, 100, 400, 1582, 1600, 1700, 1800, 1900, 1901,
    1969, 1970, 1972, 1999, 2000, 2001, 2038, 2100, 2400, 9999, 10000, 32766, 32767};
constexpr int window = thorough_tables ? 3 : 2;
constexpr auto boundary_days = [] {
    constexpr std::size_t ny = sizeof(boundary_years) / sizeof(int);
    std::array<int, (ny * 5 + 21) * 7> a{};
    std::size_t n = 0;
    auto add      = [&](ll d) {
        for (int w = -window; w <= window; ++w) { a[n++] = int(d + w); }
    };
    for (int y : boundary_years) {
        add(days_from_civil_ref(y, 1, 1));
        add(days_from_civil_ref(y, 2, 28));
        add(days_from_civil_ref(y, 3, 1));
        add(days_from_civil_ref(y, 7, 31));
        add(days_from_civil_ref(y, 12, 31));
    }
    for (int k = -10; k <= 10; ++k) { add(ll(k) * 146097 - 719468); } // first day of every 400-year era
    return std::pair{a, n};
}();
struct k_civil_boundary {
    using In = int; // days since 1970-01-01
    using R  = std::array<ll, 12>;
    static constexpr std::size_t N = boundary_days.second;
    static constexpr ll first_day  = days_from_civil_ref(-32767, 1, 1);
    static constexpr ll last_day   = days_from_civil_ref(32767, 12, 31);
    static std::string subject() { return "calendar conversions and arithmetic around boundary days"; }
    static constexpr In in(std::size_t i) { return boundary_days.first[i]; }
    static constexpr bool valid(In const& d) { return d >= first_day && d <= last_day; }
    static constexpr R call(In const& d)
    {
        namespace ch = etl::chrono;
        auto const sd  = ch::sys_days{ch::days{d}};
        auto const ymd = ch::year_month_day{sd};
        auto const wd  = ch::weekday{sd};
        auto const rt  = ch::sys_days{ymd};
        auto const ymdl = ch::year_month_day_last{ymd.year(), ch::month_day_last{ymd.month()}};
        auto const ld   = ch::local_days{ymd};
        R out{ll(int(ymd.year())), ll(unsigned(ymd.month())) * 100 + ll(unsigned(ymd.day())), ll(wd.c_encoding()) * 10 + ll(wd.iso_encoding()),
            ll(rt.time_since_epoch().count()), ll(ymd.ok()) + 2 * ll(ymd.year().is_leap()) + 4 * ll(ymdl.ok()), ll(unsigned(ymdl.day())),
            ll(ch::sys_days{ch::year_month_day{ymdl}}.time_since_epoch().count()) /* year_month_day_last::operator sys_days is declared but not defined: API gap */,
            ll(ld.time_since_epoch().count()), 0, 0, 0, 0};
        // arithmetic stays inside the year range
        int const y = int(ymd.year());
        if (y > -32000 && y < 32000) {
            ll h = 0;
            for (int dm : {-25, -13, -12, -11, -1, 0, 1, 11, 12, 13, 25}) {
                auto const a  = ymd + ch::months{dm};
                auto const b  = ymd - ch::months{dm};
                auto const ym = ch::year_month{ymd.year(), ymd.month()} + ch::months{dm};
                h = mix(h, ll(int(a.year())) * 10000 + ll(unsigned(a.month())) * 100 + ll(unsigned(a.day())));
                h = mix(h, ll(int(b.year())) * 10000 + ll(unsigned(b.month())) * 100 + ll(unsigned(b.day())));
                h = mix(h, ll(int(ym.year())) * 100 + ll(unsigned(ym.month())) + 1000000 * ll(a.ok()) + 2000000 * ll(ym.ok()));
                if (a.year().ok() && a.month().ok()) { h = mix(h, ll(ch::sys_days{a}.time_since_epoch().count())); } // specified also for a day past the month end
            }
            out[8] = h;
            h      = 0;
            for (int dy : {-400, -100, -4, -1, 1, 4, 100, 400}) {
                auto const a = ymd + ch::years{dy};
                auto const b = ch::year_month{ymd.year(), ymd.month()} - ch::years{dy};
                h = mix(h, ll(int(a.year())) * 10000 + ll(unsigned(a.month())) * 100 + ll(unsigned(a.day())) + 10000000000LL * ll(a.ok()));
                h = mix(h, ll(int(b.year())) * 100 + ll(unsigned(b.month())));
            }
            out[9] = h;
        }
        ll h = 0;
        for (int k = -15; k <= 15; ++k) {
            auto const w2 = wd + ch::days{k};
            auto const w3 = wd - ch::days{k};
            h = mix(h, ll(w2.c_encoding()) * 100 + ll(w3.c_encoding()) * 10 + ll((w2 - wd).count()));
        }
        out[10] = h;
        auto const next = ch::year_month_day{ch::sys_days{ch::days{d + (d < last_day ? 1 : 0)}}};
        out[11]         = ll(next == ymd) + 2 * ll(unsigned(next.day()) == 1) + 4 * ll(ch::sys_days{next} > sd) + 8 * ll(wd == ch::weekday{ch::sys_days{next}});
        return out;
    }
    static std::string cls(In const& d)
    {
        return std::string(d < -719468 ? "year_neg" : d < 0 ? "before_epoch" : "epoch_or_later") + ((d + 719468) % 146097 == 0 ? "+era_start" : "");
    }
    static std::string show(In const& d) { return "days=" + std::to_string(d); }
    static bool nontrivial(In const& d) { return d != 0; }
};

constexpr auto unit_counts = [] {
    std::array<long long, 301 + 2 * 40> a{};
    std::size_t n = 0;
    for (int i = -150; i <= 150; ++i) { a[n++] = i; }
    for (long long v : {499LL, 500LL, 501LL, 999LL, 1000LL, 1001LL, 1499LL, 1500LL, 1501LL, 1799LL, 1800LL, 1801LL, 3599LL, 3600LL, 3601LL, 5400LL, 43199LL,
             43200LL, 43201LL, 86399LL, 86400LL, 86401LL, 129600LL, 302400LL, 604800LL, 999999LL, 1000000LL, 1000001LL, 1500000LL, 2500000LL, 999999999LL,
             1000000000LL, 1000000001LL, 1500000000LL, 2147483647LL, 2147483648LL, 4294967296LL, 100000000000LL, 100000000500LL, 100000000501LL}) {
        a[n++] = v;
        a[n++] = -v;
    }
    return a;
}();
template <typename From, typename To, int Id>
struct k_duration_pair {
    using In = long long;
    using R  = std::array<ll, 10>;
    static constexpr std::size_t N = unit_counts.size();
    static std::string subject()
    {
        return "duration_cast/floor/ceil/round pair #" + std::to_string(Id) + " (period " + std::to_string(From::period::num) + "/" + std::to_string(From::period::den)
             + " -> " + std::to_string(To::period::num) + "/" + std::to_string(To::period::den) + ")";
    }
    static constexpr In in(std::size_t i) { return unit_counts[i]; }
    // Domain: floor / ceil / round compare and subtract in the common type of the two durations, abs negates: a count
    // within a factor 4 of the limits of either rep may overflow there (as it would in std::chrono), so it is left out;
    // the conversion factor times the count stays inside 63 bits.
    static constexpr bool valid(In const& v)
    {
        using CF                 = etl::ratio_divide<typename From::period, typename To::period>;
        long double const mag    = static_cast<long double>(v < 0 ? -v : v);
        long double const scaled = mag * static_cast<long double>(CF::num);
        if constexpr (std::is_integral_v<typename From::rep>) {
            if (mag > static_cast<long double>(std::numeric_limits<typename From::rep>::max() / 4)) { return false; }
        }
        if constexpr (std::is_integral_v<typename To::rep>) {
            if (scaled / static_cast<long double>(CF::den) + 1 > static_cast<long double>(std::numeric_limits<typename To::rep>::max() / 4)) { return false; }
        }
        return scaled < 2.0e18L;
    }
    static constexpr ll cnt(auto d)
    {
        if constexpr (std::is_floating_point_v<typename decltype(d)::rep>) {
            return std::bit_cast<ll>(static_cast<double>(d.count()));
        } else {
            return ll(d.count());
        }
    }
    static constexpr R call(In const& v)
    {
        namespace ch = etl::chrono;
        From const d{static_cast<typename From::rep>(v)};
        R out{};
        out[0] = cnt(ch::duration_cast<To>(d));
        out[1] = cnt(ch::floor<To>(d));
        out[2] = cnt(ch::ceil<To>(d));
        if constexpr (!std::is_floating_point_v<typename To::rep>) { out[3] = cnt(ch::round<To>(d)); }
        out[4] = cnt(ch::abs(d));
        out[5] = cnt(ch::duration_cast<From>(ch::duration_cast<To>(d)));
        using tp_from = ch::time_point<ch::system_clock, From>;
        tp_from const tp{d};
        out[6] = cnt(ch::time_point_cast<To>(tp).time_since_epoch());
        out[7] = cnt(ch::floor<To>(tp).time_since_epoch());
        out[8] = cnt(ch::ceil<To>(tp).time_since_epoch());
        if constexpr (!std::is_floating_point_v<typename To::rep>) { out[9] = cnt(ch::round<To>(tp).time_since_epoch()); }
        return out;
    }
    static std::string cls(In const& v)
    {
        using CF = etl::ratio_divide<typename From::period, typename To::period>;
        if (v == 0) { return "zero"; }
        std::string s = v < 0 ? "negative" : "positive";
        if (CF::den > 1) {
            auto const r = (v < 0 ? -v : v) * CF::num % CF::den;
            s += r == 0 ? ",exact" : 2 * r == CF::den ? ",tie" : ",inexact";
        }
        return s;
    }
    static std::string show(In const& v) { return "count=" + std::to_string(v); }
    static bool nontrivial(In const& v) { return v != 0; }
};
#endif

#if MC_PART == 6
// -------------------------------------------------------------------------- algorithms
constexpr int alg_len = thorough_tables ? 6 : 5;
/// the input range lives in an allocation of exactly n elements: during constant evaluation any read or
/// write outside [first, last) is rejected by the compiler (an empty range is [nullptr, nullptr))
struct ExactBuf {
    int* p{nullptr};
    std::size_t n{0};
    constexpr ExactBuf(int const* src, std::size_t count)
        : p{count > 0 ? new int[count] : nullptr}
        , n{count}
    {
        for (std::size_t i = 0; i < n; ++i) { p[i] = src[i]; }
    }
    constexpr ExactBuf(ExactBuf&& o) noexcept
        : p{o.p}
        , n{o.n}
    {
        o.p = nullptr;
        o.n = 0;
    }
    constexpr auto operator=(ExactBuf&& o) noexcept -> ExactBuf&
    {
        int* const t = p;
        p            = o.p;
        n            = o.n;
        o.p          = t;
        return *this;
    }
    constexpr ~ExactBuf() { delete[] p; }
    [[nodiscard]] constexpr auto begin() const -> int* { return p; }
    [[nodiscard]] constexpr auto end() const -> int* { return p + n; }
};
struct AlgIn {
    int a[8];
    int n;
    int k; // split point / searched value
};
/// all sequences of length <= alg_len over {0,1,2}, times k in [0, alg_len]
struct k_algorithms {
    using In = AlgIn;
    using R  = std::array<ll, 20>;
    static constexpr std::size_t NS = (ipow_sz(3, alg_len + 1) - 1) / 2;
    static constexpr std::size_t NK = std::size_t(alg_len) + 1;
    static constexpr std::size_t N  = NS * NK;
    static std::string subject() { return "algorithms on short sequences"; }
    static constexpr In in(std::size_t i)
    {
        In a{};
        a.k = int(i % NK);
        i /= NK;
        std::size_t block = 1;
        while (i >= block) {
            i -= block;
            block *= 3;
            ++a.n;
        }
        for (int p = a.n - 1; p >= 0; --p) {
            a.a[p] = int(i % 3);
            i /= 3;
        }
        return a;
    }
    static constexpr bool valid(In const& a) { return a.k <= a.n; }
    template <typename It>
    static constexpr ll fold(It f, It l)
    {
        ll h = 7;
        for (; f != l; ++f) { h = h * 5 + ll(*f) + 1; }
        return h;
    }
    static constexpr R call(In const& a)
    {
        R out{};
        auto const n   = std::size_t(a.n);
        auto const mid = std::size_t(a.k);
        int const val  = a.k % 3;
        auto fresh     = [&] { return ExactBuf{a.a, n}; }; // round 2: exact-size input (was an 8-element array)
        {
            auto x = fresh();
            etl::sort(x.begin(), x.begin() + n);
            out[0] = fold(x.begin(), x.begin() + n);
            out[1] = ll(etl::lower_bound(x.begin(), x.begin() + n, val) - x.begin());
            out[2] = ll(etl::upper_bound(x.begin(), x.begin() + n, val) - x.begin());
            out[3] = ll(etl::binary_search(x.begin(), x.begin() + n, val));
            auto e = etl::unique(x.begin(), x.begin() + n);
            out[4] = fold(x.begin(), e);
        }
        {
            auto x = fresh();
            auto r = etl::rotate(x.begin(), x.begin() + mid, x.begin() + n);
            out[5] = fold(x.begin(), x.begin() + n) * 16 + ll(r - x.begin());
        }
        {
            auto x = fresh();
            etl::reverse(x.begin(), x.begin() + n);
            out[6] = fold(x.begin(), x.begin() + n);
        }
        {
            auto x = fresh();
            auto e = etl::remove(x.begin(), x.begin() + n, val);
            out[7] = fold(x.begin(), e);
        }
        {
            auto x = fresh();
            auto p = etl::partition(x.begin(), x.begin() + n, [&](int v) { return v < val; });
            out[8] = ll(p - x.begin());
            etl::stable_sort(x.begin(), x.begin() + n);
            out[9] = fold(x.begin(), x.begin() + n);
        }
        {
            auto x  = fresh();
            out[10] = ll(etl::find(x.begin(), x.begin() + n, val) - x.begin());
            out[11] = ll(etl::count(x.begin(), x.begin() + n, val));
            out[12] = ll(etl::min_element(x.begin(), x.begin() + n) - x.begin());
            out[13] = ll(etl::max_element(x.begin(), x.begin() + n) - x.begin());
            out[14] = ll(etl::is_sorted(x.begin(), x.begin() + n));
            out[15] = ll(etl::adjacent_find(x.begin(), x.begin() + n) - x.begin());
            out[16] = ll(etl::equal(x.begin(), x.begin() + mid, x.begin() + (n - mid)));
            out[17] = ll(etl::lexicographical_compare(x.begin(), x.begin() + mid, x.begin() + mid, x.begin() + n));
        }
        {
            auto x = fresh();
            etl::array<int, 8> y{};
            auto e  = etl::copy_if(x.begin(), x.begin() + n, y.begin(), [&](int v) { return v != val; });
            out[18] = fold(y.begin(), e);
            etl::fill(y.begin(), y.end(), 0);
            auto e2 = etl::reverse_copy(x.begin(), x.begin() + n, y.begin());
            out[19] = fold(y.begin(), e2);
        }
        return out;
    }
    static std::string cls(In const& a) { return a.n == 0 ? "empty" : a.k == 0 ? "k_zero" : a.k == a.n ? "k_eq_n" : "general"; }
    static std::string show(In const& a)
    {
        std::string s = "seq=[";
        for (int i = 0; i < a.n; ++i) { s += char('0' + a.a[i]); }
        return s + "] k=" + std::to_string(a.k);
    }
    static bool nontrivial(In const& a) { return a.n >= 2; }
};
#endif

#if MC_PART == 6
// ------------------------------------------------------------- algorithms, second kernel
// The algorithms the first kernel (part 6) does not call.  Same table: every sequence of length
// <= alg2_len over {0,1,2} x every split point k.  Preconditions are established by the harness
// (sorted inputs for the set operations / merges / equal_range, a partitioned range for
// partition_point); every output range is a separate zero-filled array of 16 elements.
constexpr int alg2_len = thorough_tables ? 5 : 4;
struct Alg2In {
    int a[8];
    int n;
    int k;
};
struct k_algorithms2 {
    using In = Alg2In;
    using R  = std::array<ll, 48>;
    static constexpr std::size_t NS = (ipow_sz(3, alg2_len + 1) - 1) / 2;
    static constexpr std::size_t NK = std::size_t(alg2_len) + 1;
    static constexpr std::size_t N  = NS * NK;
    static std::string subject() { return "algorithms on short sequences (second kernel)"; }
    static constexpr In in(std::size_t i)
    {
        In a{};
        a.k = int(i % NK);
        i /= NK;
        std::size_t block = 1;
        while (i >= block) {
            i -= block;
            block *= 3;
            ++a.n;
        }
        for (int p = a.n - 1; p >= 0; --p) {
            a.a[p] = int(i % 3);
            i /= 3;
        }
        return a;
    }
    static constexpr bool valid(In const& a) { return a.k <= a.n; }
    template <typename It>
    static constexpr ll fold(It f, It l)
    {
        ll h = 7;
        for (; f != l; ++f) { h = mix(h, ll(*f) + 1); }
        return h;
    }
    using Arr = etl::array<int, 16>;
    static constexpr R call(In const& a)
    {
        R out{};
        auto const n   = std::size_t(a.n);
        auto const mid = std::size_t(a.k);
        int const val  = a.k % 3;
        auto fresh     = [&] { return ExactBuf{a.a, n}; };
        auto sorted_halves = [&] { // [0,mid) and [mid,n) each sorted
            auto x = fresh();
            etl::insertion_sort(x.begin(), x.begin() + mid);
            etl::insertion_sort(x.begin() + mid, x.begin() + n);
            return x;
        };
        auto less_val = [&](int v) { return v < val; };
        std::size_t o = 0;
        { // sorting variants
            auto x = fresh();
            etl::bubble_sort(x.begin(), x.begin() + n);
            out[o++] = fold(x.begin(), x.begin() + n);
            x        = fresh();
            etl::exchange_sort(x.begin(), x.begin() + n);
            out[o++] = fold(x.begin(), x.begin() + n);
            x        = fresh();
            etl::gnome_sort(x.begin(), x.begin() + n, etl::greater<>{});
            out[o++] = fold(x.begin(), x.begin() + n);
            x        = fresh();
            etl::insertion_sort(x.begin(), x.begin() + n);
            out[o++] = fold(x.begin(), x.begin() + n);
            x        = fresh();
            etl::merge_sort(x.begin(), x.begin() + n);
            out[o++] = fold(x.begin(), x.begin() + n);
            x        = fresh();
            etl::partial_sort(x.begin(), x.begin() + mid, x.begin() + n);
            out[o++] = fold(x.begin(), x.begin() + mid); // the order of [mid, n) is unspecified, but equal in both executions:
            out[o++] = fold(x.begin() + mid, x.begin() + n);
            x        = fresh();
            if (mid < n) {
                etl::nth_element(x.begin(), x.begin() + mid, x.begin() + n);
                out[o] = fold(x.begin(), x.begin() + n);
            }
            ++o;
            x        = fresh();
            out[o++] = ll(etl::is_sorted_until(x.begin(), x.begin() + n) - x.begin());
        }
        { // merges and set operations on the two sorted halves
            auto x = sorted_halves();
            Arr y{};
            auto e   = etl::merge(x.begin(), x.begin() + mid, x.begin() + mid, x.begin() + n, y.begin());
            out[o++] = mix(fold(y.begin(), e), ll(e - y.begin()));
            y        = Arr{};
            e        = etl::set_union(x.begin(), x.begin() + mid, x.begin() + mid, x.begin() + n, y.begin());
            out[o++] = fold(y.begin(), e);
            y        = Arr{};
            e        = etl::set_intersection(x.begin(), x.begin() + mid, x.begin() + mid, x.begin() + n, y.begin());
            out[o++] = fold(y.begin(), e);
            y        = Arr{};
            e        = etl::set_difference(x.begin(), x.begin() + mid, x.begin() + mid, x.begin() + n, y.begin());
            out[o++] = fold(y.begin(), e);
            y        = Arr{};
            e        = etl::set_symmetric_difference(x.begin(), x.begin() + mid, x.begin() + mid, x.begin() + n, y.begin());
            out[o++] = fold(y.begin(), e);
            out[o++] = ll(etl::includes(x.begin(), x.begin() + mid, x.begin() + mid, x.begin() + n)) + 2 * ll(etl::includes(x.begin() + mid, x.begin() + n, x.begin(), x.begin() + mid));
            etl::inplace_merge(x.begin(), x.begin() + mid, x.begin() + n);
            out[o++] = fold(x.begin(), x.begin() + n);
            auto const er = etl::equal_range(x.begin(), x.begin() + n, val); // x is sorted now
            out[o++]      = ll(er.first - x.begin()) * 16 + ll(er.second - x.begin());
        }
        { // searches
            auto x   = fresh();
            out[o++] = ll(etl::search(x.begin(), x.begin() + n, x.begin() + mid, x.begin() + n) - x.begin()) * 16
                     + ll(etl::find_end(x.begin(), x.begin() + n, x.begin(), x.begin() + mid) - x.begin());
            out[o++] = ll(etl::search_n(x.begin(), x.begin() + n, 2, val) - x.begin()) * 16 + ll(etl::search_n(x.begin(), x.begin() + n, 0, val) - x.begin());
            out[o++] = ll(etl::find_first_of(x.begin(), x.begin() + mid, x.begin() + mid, x.begin() + n) - x.begin());
            auto const mm  = etl::mismatch(x.begin(), x.begin() + mid, x.begin() + mid, x.begin() + n);
            auto const mm3 = etl::mismatch(x.begin(), x.begin() + (mid <= n - mid ? mid : n - mid), x.begin() + mid);
            out[o++]       = ll(mm.first - x.begin()) * 256 + ll(mm.second - x.begin()) * 16 + ll(mm3.first - x.begin());
            out[o++] = ll(etl::is_permutation(x.begin(), x.begin() + mid, x.begin() + mid, x.begin() + n)) + 2 * ll(etl::is_permutation(x.begin(), x.begin() + n, x.begin()));
            out[o++] = ll(etl::find_if(x.begin(), x.begin() + n, less_val) - x.begin()) * 16 + ll(etl::find_if_not(x.begin(), x.begin() + n, less_val) - x.begin());
            out[o++] = ll(etl::all_of(x.begin(), x.begin() + n, less_val)) + 2 * ll(etl::any_of(x.begin(), x.begin() + n, less_val)) + 4 * ll(etl::none_of(x.begin(), x.begin() + n, less_val))
                     + 8 * ll(etl::count_if(x.begin(), x.begin() + n, less_val));
            auto const me = etl::minmax_element(x.begin(), x.begin() + n);
            out[o++]      = ll(me.first - x.begin()) * 16 + ll(me.second - x.begin());
        }
        { // partitions
            auto x   = fresh();
            auto p   = etl::stable_partition(x.begin(), x.begin() + n, less_val);
            out[o++] = mix(fold(x.begin(), x.begin() + n), ll(p - x.begin()));
            out[o++] = ll(etl::is_partitioned(x.begin(), x.begin() + n, less_val)) + 2 * ll(etl::partition_point(x.begin(), x.begin() + n, less_val) - x.begin());
            x        = fresh();
            Arr t{};
            Arr f{};
            auto const pc = etl::partition_copy(x.begin(), x.begin() + n, t.begin(), f.begin(), less_val);
            out[o++]      = mix(fold(t.begin(), pc.first), fold(f.begin(), pc.second));
            out[o++]      = ll(etl::is_partitioned(x.begin(), x.begin() + n, less_val));
        }
        { // shifting, rotating, copying, replacing
            auto x   = fresh();
            auto e   = etl::shift_left(x.begin(), x.begin() + n, std::ptrdiff_t(mid));
            out[o++] = mix(fold(x.begin(), e), ll(e - x.begin())); // [e, n) is unspecified
            x        = fresh();
            auto b   = etl::shift_right(x.begin(), x.begin() + n, std::ptrdiff_t(mid));
            out[o++] = mix(fold(b, x.begin() + n), ll(b - x.begin()));
            x        = fresh();
            Arr y{};
            auto e2  = etl::rotate_copy(x.begin(), x.begin() + mid, x.begin() + n, y.begin());
            out[o++] = fold(y.begin(), e2);
            y        = Arr{};
            e2       = etl::unique_copy(x.begin(), x.begin() + n, y.begin());
            out[o++] = fold(y.begin(), e2);
            y        = Arr{};
            e2       = etl::remove_copy(x.begin(), x.begin() + n, y.begin(), val);
            auto e3  = etl::remove_copy_if(x.begin(), x.begin() + n, e2, less_val);
            out[o++] = fold(y.begin(), e3);
            auto e4  = etl::remove_if(x.begin(), x.begin() + n, less_val);
            out[o++] = fold(x.begin(), e4);
            x        = fresh();
            etl::replace(x.begin(), x.begin() + n, val, 9);
            etl::replace_if(x.begin(), x.begin() + n, less_val, 8);
            out[o++] = fold(x.begin(), x.begin() + n);
            x        = fresh();
            auto half = mid <= n - mid ? mid : n - mid;
            etl::swap_ranges(x.begin(), x.begin() + half, x.begin() + mid);
            if (n >= 2) { etl::iter_swap(x.begin(), x.begin() + (n - 1)); }
            out[o++] = fold(x.begin(), x.begin() + n);
            y        = Arr{};
            auto c1  = etl::copy_n(x.begin(), mid, y.begin());
            auto c2  = etl::copy_backward(x.begin(), x.begin() + n, y.begin() + 16);
            auto c3  = etl::move(x.begin() + mid, x.begin() + n, c1);
            out[o++] = mix(fold(y.begin(), y.end()), ll(c1 - y.begin()) * 256 + ll(c2 - y.begin()) * 16 + ll(c3 - y.begin()));
            y        = Arr{};
            auto c4  = etl::move_backward(x.begin(), x.begin() + mid, y.begin() + 8);
            auto c5  = etl::fill_n(y.begin() + 8, mid, 5);
            out[o++] = mix(fold(y.begin(), y.end()), ll(c4 - y.begin()) * 16 + ll(c5 - y.begin()));
        }
        { // generators and numeric algorithms
            auto x = fresh();
            Arr y{};
            int g   = 0;
            auto e  = etl::generate_n(y.begin(), n, [&] { return g += 3; });
            etl::iota(e, e + mid, 40);
            etl::generate(y.begin() + 12, y.end(), [&] { return --g; });
            out[o++] = fold(y.begin(), y.end());
            y        = Arr{};
            auto t1  = etl::transform(x.begin(), x.begin() + n, y.begin(), [](int v) { return v * 2 + 1; });
            auto t2  = etl::transform(x.begin(), x.begin() + mid, x.begin() + (n - mid), t1, [](int u, int v) { return u * 3 + v; });
            out[o++] = fold(y.begin(), t2);
            ll sum   = 0;
            etl::for_each(x.begin(), x.begin() + n, [&](int v) { sum = sum * 3 + v; });
            auto fe  = etl::for_each_n(x.begin(), mid, [&](int& v) { v += 1; });
            out[o++] = sum * 16 + ll(fe - x.begin());
            out[o++] = ll(etl::accumulate(x.begin(), x.begin() + n, 1)) * 10000 + ll(etl::accumulate(x.begin(), x.begin() + n, 1, [](int u, int v) { return u * 2 + v; }))
                     + 1000000 * ll(etl::reduce(x.begin(), x.begin() + n, 2)) + 100000000LL * ll(etl::reduce(x.begin(), x.begin() + n));
            out[o++] = ll(etl::inner_product(x.begin(), x.begin() + mid, x.begin() + (n - mid), 1)) * 1000
                     + ll(etl::transform_reduce(x.begin(), x.begin() + mid, x.begin() + (n - mid), 2));
            y        = Arr{};
            auto p1  = etl::partial_sum(x.begin(), x.begin() + n, y.begin());
            auto p2  = etl::adjacent_difference(x.begin(), x.begin() + n, p1);
            out[o++] = fold(y.begin(), p2);
            // clamp / min / max / minmax return references to their arguments: every argument is a named object
            int const in  = int(n);
            int const im  = int(mid);
            int const hi  = val + 2;
            auto const mmx = etl::minmax(val, im);
            out[o++]       = ll(etl::clamp(in, val, hi)) * 1000 + ll(etl::min(val, im)) * 100 + ll(etl::max(val, im)) * 10 + ll(mmx.first) + 3 * ll(mmx.second);
            // assume_aligned: run time goes through __builtin_assume_aligned, constant evaluation returns the pointer itself
            alignas(16) int al[4] = {val, 1, 2, 3};
            out[o++]              = ll(etl::assume_aligned<16>(al) - al) + ll(*etl::assume_aligned<alignof(int)>(al + 1)) * 10 + ll(*etl::assume_aligned<16>(al)) * 100;
        }
        return out;
    }
    static std::string cls(In const& a) { return a.n == 0 ? "empty" : a.k == 0 ? "k_zero" : a.k == a.n ? "k_eq_n" : "general"; }
    static std::string show(In const& a)
    {
        std::string s = "seq=[";
        for (int i = 0; i < a.n; ++i) { s += char('0' + a.a[i]); }
        return s + "] k=" + std::to_string(a.k);
    }
    static bool nontrivial(In const& a) { return a.n >= 2; }
};
#endif

#if defined(C13_DIAG) && MC_PART == 6
constexpr auto diag = k_algorithms2::call(k_algorithms2::in(C13_DIAG)); // development aid: shows the compiler's reason
#endif
} // namespace

int main(int argc, char** argv)
{
    mc::Main m(argc, argv);
    std::vector<std::string> const both{"quick", "thorough"};
#if MC_PART == 1
    m.job("string_view", both, run_kernel<k_string_view>);
    m.job("string_view-wide", both, run_all<k_wide_string_view<wchar_t>, k_wide_string_view<char8_t>, k_wide_string_view<char16_t>, k_wide_string_view<char32_t>>);
#elif MC_PART == 2
    m.job("inplace_string-7", both, run_kernel<k_inplace_string<7>>);
#elif MC_PART == 7
    m.job("inplace_string-40", both, run_kernel<k_inplace_string<40>>);
#elif MC_PART == 3
    m.job("static_vector", both, run_kernel<k_static_vector>);
    m.job("inplace_vector", both, run_kernel<k_inplace_vector>);
#elif MC_PART == 4
    m.job("charconv-8", both, run_all<k_charconv<i8>, k_charconv<u8>>);
    m.job("intconv-signed", both, run_all<k_intconv<int>, k_intconv<long>, k_intconv<long long>>);
    m.job("intconv-unsigned", both, run_all<k_intconv<unsigned>, k_intconv<unsigned long>, k_intconv<unsigned long long>>);
#elif MC_PART == 8
    m.job("charconv-32", both, run_all<k_charconv<i32>, k_charconv<u32>>);
    m.job("charconv-64", both, run_all<k_charconv<i64>, k_charconv<u64>>);
    m.job("from_chars-strings", both, run_all<k_from_chars<i8>, k_from_chars<u8>, k_from_chars<i32>, k_from_chars<u64>>);
#elif MC_PART == 5
    m.job("chrono-civil", both, run_kernel<k_civil>);
    m.job("chrono-duration", both, run_kernel<k_duration>);
    m.job("chrono-boundary-days", both, run_kernel<k_civil_boundary>);
    {
        namespace ch = etl::chrono;
        m.job("chrono-unit-pairs", both, run_all<k_duration_pair<ch::nanoseconds, ch::microseconds, 1>, k_duration_pair<ch::seconds, ch::minutes, 2>,
            k_duration_pair<ch::hours, ch::days, 3>, k_duration_pair<ch::minutes, ch::seconds, 4>,
            k_duration_pair<ch::duration<int, etl::ratio<1, 3>>, ch::milliseconds, 5>,
            k_duration_pair<ch::duration<long, etl::ratio<7, 3>>, ch::duration<long, etl::ratio<5, 2>>, 6>,
            k_duration_pair<ch::duration<double, etl::ratio<1, 1000>>, ch::seconds, 7>, k_duration_pair<ch::seconds, ch::duration<double, etl::ratio<60>>, 8>,
            k_duration_pair<ch::days, ch::weeks, 9>, k_duration_pair<ch::duration<short, etl::ratio<1, 1000>>, ch::duration<signed char, etl::ratio<1>>, 10>>);
    }
#else
    m.job("algorithms", both, run_kernel<k_algorithms>);
    m.job("algorithms2", both, run_kernel<k_algorithms2>);
#endif
    return m.run();
}
