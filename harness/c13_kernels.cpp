// C13, single-path constexpr kernels: a representative set of library operations whose code
// is the same at compile time and at run time.  Here constant evaluation is the stricter
// executor (the compiler's abstract machine rejects out-of-bounds accesses inside an object,
// reads of uninitialised members and signed overflow), so the "constant evaluation succeeds for
// every in-domain argument" half of the property carries the weight; equality of the two
// executions is checked as everywhere else.
//
// MC_PART: 1 basic_string_view searches;  2 inplace_string<7> histories (small layout);  3 static_vector /
// inplace_vector histories;  4 to_chars / from_chars;  5 chrono;  6 algorithms;  7 inplace_string<40>
// histories;  8 to_chars / from_chars for 32/64 bits and from_chars on short strings.  Table sizes are set by the compiler memory the constant evaluator needs (up to 250 KB per
// history entry), not by run time.
#include "mc.hpp"

#include <etl/algorithm.hpp>
#include <etl/array.hpp>
#include <etl/charconv.hpp>
#include <etl/chrono.hpp>
#include <etl/inplace_vector.hpp>
#include <etl/string.hpp>
#include <etl/string_view.hpp>
#include <etl/vector.hpp>

#include "c13_common.hpp"

#ifndef MC_PART
    #define MC_PART 1
#endif

namespace {
using namespace c13;

#if defined(C13_THOROUGH)
constexpr bool thorough_tables = true;
#else
constexpr bool thorough_tables = false;
#endif

using ll = long long;

constexpr std::size_t ipow_sz(std::size_t b, int e)
{
    std::size_t r = 1;
    for (int i = 0; i < e; ++i) { r *= b; }
    return r;
}
constexpr ll mix(ll h, ll v) { return static_cast<ll>((static_cast<u64>(h) ^ static_cast<u64>(v)) * 1099511628211ULL + 0x9e37ULL); }

// ------------------------------------------------------------------------- short strings
struct SStr {
    char s[8];
    int len;
};
/// i-th string over {a, b} in length-then-lexicographic order
constexpr SStr nth_ab(std::size_t i)
{
    SStr out{};
    std::size_t block = 1;
    while (i >= block) {
        i -= block;
        block *= 2;
        ++out.len;
    }
    for (int p = out.len - 1; p >= 0; --p) {
        out.s[p] = (i % 2) ? 'b' : 'a';
        i /= 2;
    }
    return out;
}
constexpr std::size_t count_ab(int maxLen) { return (std::size_t(1) << (maxLen + 1)) - 1; }
inline std::string show_s(SStr const& s) { return mc::show_chars(s.s, s.s + s.len); }

#if MC_PART == 1
// ------------------------------------------------------------------------- string_view
constexpr int sv_hay_len    = thorough_tables ? 5 : 4;
constexpr int sv_needle_len = thorough_tables ? 3 : 2;
struct SvIn {
    SStr hay;
    SStr needle;
    int pos; // 0..hay_len+1, then npos
};
struct k_string_view {
    using In = SvIn;
    using R  = std::array<ll, 16>;
    static constexpr std::size_t NH = count_ab(sv_hay_len);
    static constexpr std::size_t NN = count_ab(sv_needle_len);
    static constexpr std::size_t NP = std::size_t(sv_hay_len) + 3;
    static constexpr std::size_t N  = NH * NN * NP;
    static std::string subject() { return "basic_string_view search/compare family"; }
    static constexpr In in(std::size_t i)
    {
        In a{};
        a.pos = int(i % NP);
        i /= NP;
        a.needle = nth_ab(i % NN);
        a.hay    = nth_ab(i / NN);
        return a;
    }
    static constexpr bool valid(In const&) { return true; }
    static constexpr R call(In const& a)
    {
        using sv        = etl::string_view;
        auto const npos = sv::npos;
        // the views live in exact-size allocations: in constant evaluation any read outside a view is
        // rejected by the compiler (an empty string is the null view)
        char* hb = a.hay.len > 0 ? new char[std::size_t(a.hay.len)] : nullptr;
        char* nb = a.needle.len > 0 ? new char[std::size_t(a.needle.len)] : nullptr;
        for (int i = 0; i < a.hay.len; ++i) { hb[i] = a.hay.s[i]; }
        for (int i = 0; i < a.needle.len; ++i) { nb[i] = a.needle.s[i]; }
        sv const h = hb != nullptr ? sv{hb, std::size_t(a.hay.len)} : sv{};
        sv const n = nb != nullptr ? sv{nb, std::size_t(a.needle.len)} : sv{};
        auto const pos = a.pos == int(NP) - 1 ? npos : std::size_t(a.pos);
        auto const fwd = pos == npos ? std::size_t(0) : pos; // forward searches take pos from the front
        auto const c   = a.needle.len > 0 ? a.needle.s[0] : 'a';
        auto const sub = fwd <= h.size() ? h.substr(fwd, std::size_t(a.needle.len)) : sv{};
        auto const cmp = h.compare(n);
        R const out{ll(h.find(n, fwd)), ll(h.rfind(n, pos)), ll(h.find_first_of(n, fwd)), ll(h.find_last_of(n, pos)),
            ll(h.find_first_not_of(n, fwd)), ll(h.find_last_not_of(n, pos)), ll(h.find(c, fwd)), ll(h.rfind(c, pos)),
            ll((cmp > 0) - (cmp < 0)), ll(h.starts_with(n)), ll(h.ends_with(n)), ll(h.contains(n)), ll(sub.size()),
            ll(sub.empty() ? 0 : sub.front()), ll(h == n), ll(h < n)};
        delete[] hb;
        delete[] nb;
        return out;
    }
    static std::string cls(In const& a)
    {
        std::string s = a.hay.len == 0 ? "hay_empty" : "hay";
        s += a.needle.len == 0 ? ",needle_empty" : a.needle.len > a.hay.len ? ",needle_longer" : ",needle";
        s += a.pos == int(NP) - 1 ? ",pos_npos" : a.pos > a.hay.len ? ",pos_gt_size" : a.pos == a.hay.len ? ",pos_eq_size" : ",pos";
        return s;
    }
    static std::string show(In const& a)
    {
        return "hay=" + show_s(a.hay) + " needle=" + show_s(a.needle) + " pos=" + (a.pos == int(NP) - 1 ? std::string("npos") : std::to_string(a.pos));
    }
    static bool nontrivial(In const& a) { return a.hay.len > 0 && a.needle.len > 0; }
};
#endif

// ---------------------------------------------------------------- operation histories
/// table of all operation sequences of length exactly Len over an alphabet of K operations
template <int K, int Len>
struct History {
    using In = u32;
    static constexpr std::size_t N = ipow_sz(K, Len);
    static constexpr In in(std::size_t i) { return static_cast<In>(i); }
    static constexpr bool valid(In const&) { return true; }
    static std::string show(In const& code)
    {
        std::string s = "ops=";
        u32 c         = code;
        for (int i = 0; i < Len; ++i) {
            s += char('0' + c % K);
            c /= K;
        }
        return s;
    }
    static bool nontrivial(In const& code) { return code != 0; }
};

#if MC_PART == 2 || MC_PART == 7
constexpr int str_len = thorough_tables ? 4 : 3;
template <std::size_t Cap>
struct k_inplace_string : History<10, str_len> {
    using R = std::array<ll, 12>;
    static std::string subject() { return "inplace_string<" + std::to_string(Cap) + "> history"; }
    static std::string cls(In const& code)
    {
        // class = the set of operation kinds used (one bit per kind) reduced to "uses insert/replace/erase"
        bool ins = false, rep = false, era = false;
        u32 c = code;
        for (int i = 0; i < str_len; ++i) {
            int const op = int(c % 10);
            c /= 10;
            ins = ins || op == 2;
            rep = rep || op == 6;
            era = era || op == 3 || op == 8;
        }
        return std::string(ins ? "insert" : "") + (rep ? "+replace" : "") + (era ? "+erase" : "") + ((ins || rep || era) ? "" : "append_only");
    }
    static constexpr R call(In const& code)
    {
        etl::inplace_string<Cap> s;
        ll h  = 0;
        u32 c = code;
        for (int step = 0; step < str_len; ++step) {
            int const op = int(c % 10);
            c /= 10;
            auto const room = s.capacity() - s.size();
            switch (op) {
            case 0:
                if (room >= 1) { s.push_back(char('a' + step)); }
                break;
            case 1:
                if (room >= 2) { s.append("xy"); }
                break;
            case 2:
                if (room >= 2) { s.insert(s.size() / 2, "ij"); }
                break;
            case 3:
                if (!s.empty()) { s.erase(0, 1); }
                break;
            case 4:
                if (!s.empty()) { s.pop_back(); }
                break;
            case 5: s.resize(2, 'z'); break;
            case 6:
                if (!s.empty() && room >= 1) { s.replace(0, 1, "RS"); }
                break;
            case 7: s.clear(); break;
            case 8:
                if (s.size() >= 2) { s.erase(s.begin() + 1); }
                break;
            case 9:
                if (room >= 1) { s.append(1, 'q'); }
                break;
            default: break;
            }
            h = mix(h, ll(s.size()));
            for (auto ch : s) { h = mix(h, ll(ch)); }
            h = mix(h, ll(s.c_str()[s.size()])); // terminator
            h = mix(h, ll(s.find('y')));
            h = mix(h, ll(s.rfind("x", etl::inplace_string<Cap>::npos)));
        }
        R out{};
        out[0] = h;
        out[1] = ll(s.size());
        for (std::size_t i = 0; i < s.size() && i < 8; ++i) { out[2 + i] = ll(s[i]); }
        out[10] = ll(s.compare("ab") > 0) - ll(s.compare("ab") < 0);
        out[11] = ll(s.substr(s.size() / 2).size());
        return out;
    }
};
#endif

#if MC_PART == 3
constexpr int vec_len = 4;
struct k_static_vector : History<9, vec_len> {
    using R = std::array<ll, 8>;
    static std::string subject() { return "static_vector<int,4> history"; }
    static std::string cls(In const&) { return "general"; }
    static constexpr R call(In const& code)
    {
        etl::static_vector<int, 4> v;
        ll h  = 0;
        u32 c = code;
        for (int step = 0; step < vec_len; ++step) {
            int const op = int(c % 9);
            c /= 9;
            switch (op) {
            case 0:
                if (!v.full()) { v.push_back(1 + step); }
                break;
            case 1:
                if (!v.empty()) { v.pop_back(); }
                break;
            case 2:
                if (!v.full()) {
                    auto it = v.insert(v.begin(), 70 + step);
                    h       = mix(h, ll(it - v.begin()));
                }
                break;
            case 3:
                if (!v.empty()) {
                    auto it = v.erase(v.begin());
                    h       = mix(h, ll(it - v.begin()));
                }
                break;
            case 4:
                if (!v.full()) {
                    auto it = v.emplace(v.begin() + v.size() / 2, 90 + step);
                    h       = mix(h, ll(it - v.begin()));
                }
                break;
            case 5: v.clear(); break;
            case 6: v.resize(2); break;
            case 7:
                if (v.size() >= 2) {
                    auto it = v.erase(v.begin(), v.begin() + 2);
                    h       = mix(h, ll(it - v.begin()));
                }
                break;
            case 8: {
                auto w = v; // copy, compare, assign back
                h      = mix(h, ll(w == v));
                if (!w.full()) { w.push_back(5); }
                h = mix(h, ll(v < w));
                v = w;
                break;
            }
            default: break;
            }
            h = mix(h, ll(v.size()));
            for (auto x : v) { h = mix(h, ll(x)); }
        }
        R out{};
        out[0] = h;
        out[1] = ll(v.size());
        for (std::size_t i = 0; i < v.size(); ++i) { out[2 + i] = ll(v[i]); }
        out[6] = v.empty() ? -1 : ll(v.front());
        out[7] = v.empty() ? -1 : ll(v.back());
        return out;
    }
};
struct k_inplace_vector : History<6, vec_len + 1> {
    using R = std::array<ll, 8>;
    static std::string subject() { return "inplace_vector<int,4> history"; }
    static std::string cls(In const&) { return "general"; }
    static constexpr R call(In const& code)
    {
        etl::inplace_vector<int, 4> v{}; // value-initialised: `inplace_vector v;` leaves _size indeterminate (known finding of C02)
        ll h  = 0;
        u32 c = code;
        for (int step = 0; step < vec_len + 1; ++step) {
            int const op = int(c % 6);
            c /= 6;
            switch (op) {
            case 0: h = mix(h, ll(v.try_push_back(1 + step) != nullptr)); break;
            case 1:
                if (!v.empty()) { v.pop_back(); }
                break;
            case 2: h = mix(h, ll(v.try_emplace_back(40 + step) != nullptr)); break;
            case 3:
                if (v.size() < v.capacity()) { v.unchecked_push_back(60 + step); }
                break;
            case 4: v.clear(); break;
            case 5: {
                auto w = v;
                h      = mix(h, ll(w.size()));
                for (auto x : w) { h = mix(h, ll(x)); }
                break;
            }
            default: break;
            }
            h = mix(h, ll(v.size()));
            for (auto x : v) { h = mix(h, ll(x)); }
        }
        R out{};
        out[0] = h;
        out[1] = ll(v.size());
        for (std::size_t i = 0; i < v.size(); ++i) { out[2 + i] = ll(v.data()[i]); }
        out[6] = v.empty() ? -1 : ll(v.front());
        out[7] = v.empty() ? -1 : ll(v.back());
        return out;
    }
};
#endif

#if MC_PART == 4 || MC_PART == 8
// ---------------------------------------------------------------------------- charconv
template <typename T>
char const* iname()
{
    if constexpr (std::is_same_v<T, u8>) { return "u8"; }
    if constexpr (std::is_same_v<T, i8>) { return "i8"; }
    if constexpr (std::is_same_v<T, i32>) { return "i32"; }
    if constexpr (std::is_same_v<T, u32>) { return "u32"; }
    if constexpr (std::is_same_v<T, i64>) { return "i64"; }
    if constexpr (std::is_same_v<T, u64>) { return "u64"; }
    return "?";
}
template <typename T>
constexpr auto conv_values()
{
    if constexpr (sizeof(T) == 1) {
        std::array<T, 256> a{};
        for (int i = 0; i < 256; ++i) { a[std::size_t(i)] = static_cast<T>(static_cast<u8>(i)); }
        return a;
    } else {
        using U = std::make_unsigned_t<T>;
        std::array<T, 96> a{};
        std::size_t n = 0;
        for (U x : {U(0), U(1), U(7), U(9), U(10), U(35), U(36), U(99), U(100), U(255), U(256), U(1000), U(65535), U(65536), U(1000000007)}) {
            a[n++] = static_cast<T>(x);
            a[n++] = static_cast<T>(U(0) - x);
        }
        for (int k = 7; k < int(sizeof(T) * 8); k += 8) {
            U const b = static_cast<U>(U(1) << k);
            a[n++]    = static_cast<T>(b);
            a[n++]    = static_cast<T>(b - 1);
            a[n++]    = static_cast<T>(b + 1);
            a[n++]    = static_cast<T>(~b);
        }
        a[n++] = static_cast<T>(U(0x0123456789ABCDEFULL));
        a[n++] = static_cast<T>(U(12345678901234567890ULL));
        // the tail stays 0: duplicates of an existing entry are harmless for the comparison and
        // excluded from distinct_nontrivial by content hashing
        return a;
    }
}
constexpr int conv_bases[] = {2, 3, 8, 10, 16, 36};
template <typename T>
struct ConvIn {
    T value;
    int base;
    int room; // buffer size handed to to_chars: 0 = exactly enough, 1 = one short, 2 = roomy
};
template <typename T>
struct k_charconv {
    using In = ConvIn<T>;
    using R  = std::array<ll, 6>;
    static constexpr auto vals     = conv_values<T>();
    static constexpr std::size_t N = vals.size() * 6 * 3;
    static std::string subject() { return std::string("to_chars/from_chars(") + iname<T>() + ",base)"; }
    static constexpr In in(std::size_t i) { return In{vals[i / 18], conv_bases[(i / 3) % 6], int(i % 3)}; }
    static constexpr bool valid(In const&) { return true; }
    static constexpr int digits_needed(T v, int base)
    {
        using U = std::make_unsigned_t<T>;
        int n   = v < 0 ? 1 : 0;
        U m     = v < 0 ? static_cast<U>(U(0) - static_cast<U>(v)) : static_cast<U>(v);
        do {
            ++n;
            m = static_cast<U>(m / static_cast<U>(base));
        } while (m != 0);
        return n;
    }
    static constexpr R call(In const& a)
    {
        R out{};
        char buf[68] = {};
        for (auto& ch : buf) { ch = '#'; }
        int const need = digits_needed(a.value, a.base);
        int const size = a.room == 0 ? need : a.room == 1 ? need - 1 : 66;
        auto const res = etl::to_chars(buf, buf + size, a.value, a.base);
        out[0]         = ll(res.ec == etl::errc{});
        out[1]         = ll(res.ptr - buf); // on value_too_large: == size (last) by the standard
        if (res.ec == etl::errc{}) {
            ll h = 0; // the digits written
            for (char const* p = buf; p != res.ptr; ++p) { h = mix(h, ll(*p)); }
            out[4] = h;
            ll untouched = 0; // nothing behind the result may be written
            for (char const* p = res.ptr; p != buf + 68; ++p) { untouched += ll(*p == '#'); }
            out[5] = untouched - ll(buf + 68 - res.ptr);
            T back{};
            auto const fr = etl::from_chars(buf, res.ptr, back, a.base);
            out[2]        = ll(fr.ec == etl::errc{}) + 2 * ll(fr.ptr - buf);
            out[3]        = ll(back == a.value);
        } else {
            // buffer content inside [first, last) after value_too_large is unspecified: only the part behind last is observed
            ll untouched = 0;
            for (char const* p = buf + (size < 0 ? 0 : size); p != buf + 68; ++p) { untouched += ll(*p == '#'); }
            out[5] = untouched - ll(68 - (size < 0 ? 0 : size));
        }
        return out;
    }
    static std::string cls(In const& a)
    {
        return std::string(a.value < 0 ? "negative" : a.value == 0 ? "zero" : "positive") + (a.base == 10 ? ",base10" : ",base_other")
             + (a.room == 0 ? ",exact_fit" : a.room == 1 ? ",one_short" : ",roomy");
    }
    static std::string show(In const& a)
    {
        return "value=" + show_val(a.value) + " base=" + std::to_string(a.base) + " room=" + std::to_string(a.room);
    }
    static bool nontrivial(In const& a) { return a.value != 0; }
};
// from_chars on short digit strings: every string of length <= 3 (thorough 4) over {'-','0','1','9','a','z',' '}
constexpr int fc_len           = thorough_tables ? 4 : 3;
constexpr char fc_alphabet[7]  = {'-', '0', '1', '9', 'a', 'z', ' '};
struct FcIn {
    char s[8];
    int len;
    int base;
};
template <typename T>
struct k_from_chars {
    using In = FcIn;
    using R  = std::array<ll, 3>;
    static constexpr std::size_t NS = (ipow_sz(7, fc_len + 1) - 1) / 6;
    static constexpr std::size_t N  = NS * 3;
    static std::string subject() { return std::string("from_chars(") + iname<T>() + ",base) on short strings"; }
    static constexpr In in(std::size_t i)
    {
        In a{};
        constexpr int bases[3] = {10, 16, 36};
        a.base                 = bases[i % 3];
        i /= 3;
        std::size_t block = 1;
        while (i >= block) {
            i -= block;
            block *= 7;
            ++a.len;
        }
        for (int p = a.len - 1; p >= 0; --p) {
            a.s[p] = fc_alphabet[i % 7];
            i /= 7;
        }
        return a;
    }
    static constexpr bool valid(In const&) { return true; }
    static constexpr R call(In const& a)
    {
        T v           = T(77);
        auto const fr = etl::from_chars(a.s, a.s + a.len, v, a.base);
        return R{ll(int(fr.ec)), ll(fr.ptr - a.s), fr.ec == etl::errc{} ? ll(v) : ll(0)};
    }
    static std::string cls(In const& a)
    {
        return std::string(a.len == 0 ? "empty" : a.s[0] == '-' ? "minus_first" : a.s[0] == ' ' ? "space_first" : "digit_or_letter_first")
             + ",base" + std::to_string(a.base);
    }
    static std::string show(In const& a) { return "s=" + mc::show_chars(a.s, a.s + a.len) + " base=" + std::to_string(a.base); }
    static bool nontrivial(In const& a) { return a.len > 0; }
};
#endif

#if MC_PART == 5
// ------------------------------------------------------------------------------ chrono
constexpr int day_span = thorough_tables ? 9000 : 4000;
struct k_civil {
    using In = int; // days since 1970-01-01
    using R  = std::array<ll, 8>;
    static constexpr std::size_t N = std::size_t(2 * day_span + 1);
    static std::string subject() { return "year_month_day <-> sys_days, weekday"; }
    static constexpr In in(std::size_t i) { return int(i) - day_span; }
    static constexpr bool valid(In const&) { return true; }
    static constexpr R call(In const& d)
    {
        namespace ch = etl::chrono;
        auto const sd  = ch::sys_days{ch::days{d}};
        auto const ymd = ch::year_month_day{sd};
        auto const wd  = ch::weekday{sd};
        auto const rt  = ch::sys_days{ymd};
        auto const ymdl = ch::year_month_day_last{ymd.year(), ch::month_day_last{ymd.month()}};
        return R{ll(int(ymd.year())), ll(unsigned(ymd.month())), ll(unsigned(ymd.day())), ll(wd.c_encoding()), ll(rt.time_since_epoch().count()),
            ll(ymd.ok()), ll(unsigned(ymdl.day())), ll(ymd.year().is_leap())};
    }
    static std::string cls(In const& d) { return d < 0 ? "before_epoch" : "epoch_or_later"; }
    static std::string show(In const& d) { return "days=" + std::to_string(d); }
    static bool nontrivial(In const& d) { return d != 0; }
};
struct k_duration {
    using In = int; // milliseconds
    using R  = std::array<ll, 10>;
    static constexpr int span      = thorough_tables ? 7000 : 3000;
    static constexpr std::size_t N = std::size_t(2 * span + 1);
    static std::string subject() { return "duration_cast/floor/ceil/round/abs(milliseconds)"; }
    static constexpr In in(std::size_t i) { return int(i) - span; }
    static constexpr bool valid(In const&) { return true; }
    static constexpr R call(In const& v)
    {
        namespace ch = etl::chrono;
        using ms     = ch::milliseconds;
        using s      = ch::seconds;
        using odd    = ch::duration<long long, etl::ratio<5, 7>>;
        ms const d{v};
        return R{ll(ch::duration_cast<s>(d).count()), ll(ch::floor<s>(d).count()), ll(ch::ceil<s>(d).count()), ll(ch::round<s>(d).count()),
            ll(ch::abs(d).count()), ll(ch::duration_cast<odd>(d).count()), ll(ch::floor<odd>(d).count()), ll(ch::ceil<odd>(d).count()),
            ll(ch::round<odd>(d).count()), ll((d + s{1}).count())};
    }
    static std::string cls(In const& v) { return v < 0 ? "negative" : v % 1000 == 0 ? "whole_seconds" : v % 500 == 0 ? "tie" : "general"; }
    static std::string show(In const& v) { return "ms=" + std::to_string(v); }
    static bool nontrivial(In const& v) { return v != 0; }
};
#endif

#if MC_PART == 6
// -------------------------------------------------------------------------- algorithms
constexpr int alg_len = thorough_tables ? 6 : 5;
struct AlgIn {
    int a[8];
    int n;
    int k; // split point / searched value
};
/// all sequences of length <= alg_len over {0,1,2}, times k in [0, alg_len]
struct k_algorithms {
    using In = AlgIn;
    using R  = std::array<ll, 20>;
    static constexpr std::size_t NS = (ipow_sz(3, alg_len + 1) - 1) / 2;
    static constexpr std::size_t NK = std::size_t(alg_len) + 1;
    static constexpr std::size_t N  = NS * NK;
    static std::string subject() { return "algorithms on short sequences"; }
    static constexpr In in(std::size_t i)
    {
        In a{};
        a.k = int(i % NK);
        i /= NK;
        std::size_t block = 1;
        while (i >= block) {
            i -= block;
            block *= 3;
            ++a.n;
        }
        for (int p = a.n - 1; p >= 0; --p) {
            a.a[p] = int(i % 3);
            i /= 3;
        }
        return a;
    }
    static constexpr bool valid(In const& a) { return a.k <= a.n; }
    template <typename It>
    static constexpr ll fold(It f, It l)
    {
        ll h = 7;
        for (; f != l; ++f) { h = h * 5 + ll(*f) + 1; }
        return h;
    }
    static constexpr R call(In const& a)
    {
        R out{};
        auto const n   = std::size_t(a.n);
        auto const mid = std::size_t(a.k);
        int const val  = a.k % 3;
        auto fresh     = [&] {
            etl::array<int, 8> x{};
            for (std::size_t i = 0; i < 8; ++i) { x[i] = a.a[i]; }
            return x;
        };
        {
            auto x = fresh();
            etl::sort(x.begin(), x.begin() + n);
            out[0] = fold(x.begin(), x.begin() + n);
            out[1] = ll(etl::lower_bound(x.begin(), x.begin() + n, val) - x.begin());
            out[2] = ll(etl::upper_bound(x.begin(), x.begin() + n, val) - x.begin());
            out[3] = ll(etl::binary_search(x.begin(), x.begin() + n, val));
            auto e = etl::unique(x.begin(), x.begin() + n);
            out[4] = fold(x.begin(), e);
        }
        {
            auto x = fresh();
            auto r = etl::rotate(x.begin(), x.begin() + mid, x.begin() + n);
            out[5] = fold(x.begin(), x.begin() + n) * 16 + ll(r - x.begin());
        }
        {
            auto x = fresh();
            etl::reverse(x.begin(), x.begin() + n);
            out[6] = fold(x.begin(), x.begin() + n);
        }
        {
            auto x = fresh();
            auto e = etl::remove(x.begin(), x.begin() + n, val);
            out[7] = fold(x.begin(), e);
        }
        {
            auto x = fresh();
            auto p = etl::partition(x.begin(), x.begin() + n, [&](int v) { return v < val; });
            out[8] = ll(p - x.begin());
            etl::stable_sort(x.begin(), x.begin() + n);
            out[9] = fold(x.begin(), x.begin() + n);
        }
        {
            auto x  = fresh();
            out[10] = ll(etl::find(x.begin(), x.begin() + n, val) - x.begin());
            out[11] = ll(etl::count(x.begin(), x.begin() + n, val));
            out[12] = ll(etl::min_element(x.begin(), x.begin() + n) - x.begin());
            out[13] = ll(etl::max_element(x.begin(), x.begin() + n) - x.begin());
            out[14] = ll(etl::is_sorted(x.begin(), x.begin() + n));
            out[15] = ll(etl::adjacent_find(x.begin(), x.begin() + n) - x.begin());
            out[16] = ll(etl::equal(x.begin(), x.begin() + mid, x.begin() + (n - mid)));
            out[17] = ll(etl::lexicographical_compare(x.begin(), x.begin() + mid, x.begin() + mid, x.begin() + n));
        }
        {
            auto x = fresh();
            etl::array<int, 8> y{};
            auto e  = etl::copy_if(x.begin(), x.begin() + n, y.begin(), [&](int v) { return v != val; });
            out[18] = fold(y.begin(), e);
            etl::fill(y.begin(), y.end(), 0);
            auto e2 = etl::reverse_copy(x.begin(), x.begin() + n, y.begin());
            out[19] = fold(y.begin(), e2);
        }
        return out;
    }
    static std::string cls(In const& a) { return a.n == 0 ? "empty" : a.k == 0 ? "k_zero" : a.k == a.n ? "k_eq_n" : "general"; }
    static std::string show(In const& a)
    {
        std::string s = "seq=[";
        for (int i = 0; i < a.n; ++i) { s += char('0' + a.a[i]); }
        return s + "] k=" + std::to_string(a.k);
    }
    static bool nontrivial(In const& a) { return a.n >= 2; }
};
#endif

} // namespace

int main(int argc, char** argv)
{
    mc::Main m(argc, argv);
    std::vector<std::string> const both{"quick", "thorough"};
#if MC_PART == 1
    m.job("string_view", both, run_kernel<k_string_view>);
#elif MC_PART == 2
    m.job("inplace_string-7", both, run_kernel<k_inplace_string<7>>);
#elif MC_PART == 7
    m.job("inplace_string-40", both, run_kernel<k_inplace_string<40>>);
#elif MC_PART == 3
    m.job("static_vector", both, run_kernel<k_static_vector>);
    m.job("inplace_vector", both, run_kernel<k_inplace_vector>);
#elif MC_PART == 4
    m.job("charconv-8", both, run_all<k_charconv<i8>, k_charconv<u8>>);
#elif MC_PART == 8
    m.job("charconv-32", both, run_all<k_charconv<i32>, k_charconv<u32>>);
    m.job("charconv-64", both, run_all<k_charconv<i64>, k_charconv<u64>>);
    m.job("from_chars-strings", both, run_all<k_from_chars<i8>, k_from_chars<u8>, k_from_chars<i32>, k_from_chars<u64>>);
#elif MC_PART == 5
    m.job("chrono-civil", both, run_kernel<k_civil>);
    m.job("chrono-duration", both, run_kernel<k_duration>);
#else
    m.job("algorithms", both, run_kernel<k_algorithms>);
#endif
    return m.run();
}
