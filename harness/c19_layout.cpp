// C19, layout half: for every extents type (same generation as c19_extents.cpp) and every
// assignment of the dynamic extents, every provided layout mapping
//   layout_left, layout_right            (from extents, default, copy, converting from / to the
//                                         all-dynamic extents type, left<->right at rank <= 1)
//   layout_stride                        (from etl::array / etl::span of strides, two stride
//                                         element types; strides = every permutation of the
//                                         dimensions as nesting order x padding {0,1,3} x
//                                         innermost stride {1,2})
//   linalg::layout_transpose<left|right> (rank 2)
// is run on EVERY in-range multi-index.  Oracle: closed-form offset sum(i_k * stride_k) with
// the reference strides, 0 <= offset < required span size, injectivity (bitmap), exhaustive
// for left/right/transpose, stride(r), required_span_size(), extents(), the is_* observers.
// Declared-but-undefined members (layout_stride::required_span_size / is_exhaustive /
// operator== / converting constructors) are not "provided" and are not called.
//
// Compiled per (MC_ITYPE index type, MC_SLICE part of the extents-type list), see main().
#include "c19_common.hpp"

#include <etl/linalg.hpp>

#include <algorithm>
#include <new>

using namespace c19;

#ifndef MC_ITYPE
    #define MC_ITYPE 1
#endif
#ifndef MC_SLICE
    #define MC_SLICE 0
#endif

namespace {

// MC_ITYPE: index type; MC_SLICE: 0 = rank 0..2, 1/2 = the two halves of rank 3, 3/4 = the two halves of rank 4, 5 = rank 5-6 (12 patterns)
#if MC_ITYPE == 1
using PartIndex = int;
#elif MC_ITYPE == 2
using PartIndex = unsigned long;
#elif MC_ITYPE == 3
using PartIndex = signed char;
#elif MC_ITYPE == 4
using PartIndex = unsigned char;
#elif MC_ITYPE == 5
using PartIndex = short;
#elif MC_ITYPE == 6
using PartIndex = unsigned short;
#elif MC_ITYPE == 7
using PartIndex = unsigned;
#elif MC_ITYPE == 8
using PartIndex = long;
#endif

using A5 = alpha<2, 3, DC, 1, 0>;
using A3 = alpha<2, 3, DC>;

// ---------------------------------------------------------------------------------------
// type-erased observation of one mapping object
// ---------------------------------------------------------------------------------------
struct MapObs {
    ll ext[MAXR]{};
    bool has_span{false};
    ll span{0};
    bool has_stride{false};
    ll stride[MAXR]{};
    bool has_strides_array{false};
    ll strides_array[MAXR]{};
    std::vector<ll> off; // offsets of the given indices, in the given order
    int is_unique{-1}, is_exhaustive{-1}, is_strided{-1};
    int always_unique{-1}, always_exhaustive{-1}, always_strided{-1};
    int eq_same{-1}, eq_dext{-1};
    char const* volatile phase{"construction"}; // volatile: the attribution must not be reordered around the calls
};

struct Indices {
    std::size_t rank{0};
    std::size_t n{0};
    std::vector<ll> flat; // n * rank
};

enum class Kind { left, right, stride, transpose };

template <typename T, typename M, std::size_t... Is>
ll call_at(M const& m, ll const* idx, std::index_sequence<Is...> /*s*/)
{
    return static_cast<ll>(m(static_cast<T>(idx[Is])...));
}

/// T = type the indices are passed as
template <Kind K, typename T, typename M>
[[gnu::noinline]] void observe_map(M const& m, Indices const& ix, MapObs& o)
{
    using E          = typename M::extents_type;
    constexpr auto R = E::rank();
    o.phase          = "extents()";
    {
        auto const& e = m.extents();
        for (std::size_t r = 0; r < R; ++r) { o.ext[r] = static_cast<ll>(e.extent(r)); }
    }
    if constexpr (K != Kind::stride) {
        o.phase    = "required_span_size()";
        o.has_span = true;
        o.span     = static_cast<ll>(m.required_span_size());
    }
    o.phase = "operator()";
    o.off.reserve(ix.n);
    for (std::size_t k = 0; k < ix.n; ++k) { o.off.push_back(call_at<T>(m, ix.flat.data() + k * R, std::make_index_sequence<R>{})); }
    if constexpr (R > 0) {
        o.phase      = "stride(r)";
        o.has_stride = true;
        for (std::size_t r = 0; r < R; ++r) { o.stride[r] = static_cast<ll>(m.stride(r)); }
    }
    if constexpr (K == Kind::stride) {
        o.phase             = "strides()";
        o.has_strides_array = true;
        auto const s        = m.strides();
        for (std::size_t r = 0; r < R; ++r) { o.strides_array[r] = static_cast<ll>(s[r]); }
    }
    o.phase         = "is_unique()/is_strided()";
    o.is_unique     = m.is_unique();
    o.is_strided    = m.is_strided();
    o.always_unique = M::is_always_unique();
    o.always_strided = M::is_always_strided();
    if constexpr (K == Kind::left || K == Kind::right) {
        o.is_exhaustive     = m.is_exhaustive();
        o.always_exhaustive = M::is_always_exhaustive();
    }
    if constexpr (K == Kind::stride) { o.always_exhaustive = M::is_always_exhaustive(); }
    if constexpr (K != Kind::stride) {
        o.phase = "operator==";
        M const copy(m);
        o.eq_same = (m == copy) && (copy == m);
    }
    o.phase = "construction";
}

struct Expect {
    std::vector<ll> ext;
    std::vector<ll> strides;
    ll span{0};
    bool exhaustive{false}; // every slot of [0, span) must be hit
    int always_exhaustive{-1};
};

void verify_map(Ctx& c, MapObs const& o, Indices const& ix, Expect const& x)
{
    std::size_t const R = x.ext.size();
    // the constructor decides the extents; with wrong extents every other observer differs as a consequence
    if (!c.eq("extents()", show(std::vector<ll>(o.ext, o.ext + R)), show(x.ext))) { return; }
    if (o.has_span) { c.eq_o("required_span_size()", o.span, x.span); }
    std::vector<unsigned char> hit(static_cast<std::size_t>(x.span), 0);
    std::size_t bad = 0;
    for (std::size_t k = 0; k < ix.n; ++k) {
        ll ref = 0;
        for (std::size_t r = 0; r < R; ++r) { ref += ix.flat[k * R + r] * x.strides[r]; }
        ll const got = o.off[k];
        ++c.evals;
        if (got != ref || got < 0 || got >= x.span) {
            if (bad++ == 0) {
                std::vector<ll> const idx(ix.flat.begin() + static_cast<std::ptrdiff_t>(k * R), ix.flat.begin() + static_cast<std::ptrdiff_t>((k + 1) * R));
                c.fail_o("operator()", cat("index ", show(idx), ": tetl=", got, " reference=", ref, " (required span size ", x.span, ")"));
            }
            continue;
        }
        if (hit[static_cast<std::size_t>(got)]++) { c.fail_o("operator()", cat("mapping is not injective: offset ", got, " produced twice")); }
    }
    if (x.exhaustive && bad == 0) { c.eq_o("operator()", cat(ix.n, " distinct offsets"), cat(x.span, " distinct offsets")); }
    if (o.has_stride) { c.eq_o("stride(r)", show(std::vector<ll>(o.stride, o.stride + R)), show(x.strides)); }
    if (o.has_strides_array) { c.eq_o("strides()", show(std::vector<ll>(o.strides_array, o.strides_array + R)), show(x.strides)); }
    c.eq_o("is_unique()", o.is_unique, 1);
    c.eq_o("is_strided()", o.is_strided, 1);
    c.eq_o("is_always_unique()", o.always_unique, 1);
    c.eq_o("is_always_strided()", o.always_strided, 1);
    if (o.is_exhaustive != -1) { c.eq_o("is_exhaustive()", o.is_exhaustive, 1); }
    if (o.always_exhaustive != -1) { c.eq_o("is_always_exhaustive()", o.always_exhaustive, x.always_exhaustive); }
    if (o.eq_same != -1) { c.eq_o("operator==", cat("equal to a copy: ", o.eq_same), cat("equal to a copy: ", 1)); }
    if (o.eq_dext != -1) { c.eq_o("operator==", cat("equal to the equivalent mapping: ", o.eq_dext), cat("equal to the equivalent mapping: ", 1)); }
    c.r.outcome(mc::hash_str(cat(show(x.ext), show(x.strides), show(o.off))));
}

/// constructs one mapping and observes it; `a` = dynamic extent values of the mapping's extents
/// type (or what the maker documents), `s` = strides (layout_stride makers)
using MapFn = void (*)(ll const* a, ll const* s, Indices const& ix, MapObs& o);

void run_map(Ctx& c, MapFn fn, ll const* a, ll const* s, Indices const& ix, Expect const& x)
{
    MapObs o;
    auto const t = mc::guarded([&] { fn(a, s, ix, o); });
    if (t == mc::Trap::none) {
        verify_map(c, o, ix, x);
    } else {
        c.trap_o(t, o.phase);
    }
    c.san_check();
}

template <typename E>
E make_ext(ll const* dv)
{
    return E(to_etl_array<typename E::index_type, E::rank_dynamic()>(dv));
}

// makers: layout_left / layout_right ---------------------------------------------------------
template <Kind K, typename L, typename E, typename T>
void mk_from_extents(ll const* a, ll const* /*s*/, Indices const& ix, MapObs& o)
{
    typename L::template mapping<E> const m(make_ext<E>(a));
    observe_map<K, T>(m, ix, o);
}
template <Kind K, typename L, typename E>
void mk_default(ll const* /*a*/, ll const* /*s*/, Indices const& ix, MapObs& o)
{
    typename L::template mapping<E> const m{};
    observe_map<K, typename E::index_type>(m, ix, o);
}
template <Kind K, typename L, typename E>
void mk_copy_assign(ll const* a, ll const* /*s*/, Indices const& ix, MapObs& o)
{
    using M = typename L::template mapping<E>;
    M const src(make_ext<E>(a));
    M m(src);
    M m2{};
    m2 = m;
    observe_map<K, typename E::index_type>(m2, ix, o);
}
/// mapping<E>(mapping<dextents<J,R>>): a = all R extents
template <Kind K, typename L, typename E, typename LFrom = L>
void mk_from_dext(ll const* a, ll const* /*s*/, Indices const& ix, MapObs& o)
{
    using J  = other_t<typename E::index_type>;
    using DE = etl::dextents<J, E::rank()>;
    typename LFrom::template mapping<DE> const src(make_ext<DE>(a));
    typename L::template mapping<E> const m(src);
    o.eq_dext = (m == typename L::template mapping<DE>(make_ext<DE>(a)));
    observe_map<K, typename E::index_type>(m, ix, o);
}
/// mapping<dextents<J,R>>(mapping<E>): a = dynamic extents of E
template <Kind K, typename L, typename E, typename LFrom = L>
void mk_to_dext(ll const* a, ll const* /*s*/, Indices const& ix, MapObs& o)
{
    using J  = other_t<typename E::index_type>;
    using DE = etl::dextents<J, E::rank()>;
    typename LFrom::template mapping<E> const src(make_ext<E>(a));
    typename L::template mapping<DE> const m(src);
    observe_map<K, J>(m, ix, o);
}

// makers: layout_stride ------------------------------------------------------------------------
template <typename E, typename T, bool ViaSpan>
void mk_stride(ll const* a, ll const* s, Indices const& ix, MapObs& o)
{
    constexpr auto R = E::rank();
    using M          = etl::layout_stride::mapping<E>;
    auto arr         = to_etl_array<T, R>(s);
    if constexpr (ViaSpan) {
        M const m(make_ext<E>(a), etl::span<T, R>(arr));
        observe_map<Kind::stride, typename E::index_type>(m, ix, o);
    } else {
        M const m(make_ext<E>(a), arr);
        observe_map<Kind::stride, T>(m, ix, o);
    }
}
template <typename E>
void mk_stride_copy(ll const* a, ll const* s, Indices const& ix, MapObs& o)
{
    constexpr auto R = E::rank();
    using I          = typename E::index_type;
    using M          = etl::layout_stride::mapping<E>;
    M const src(make_ext<E>(a), to_etl_array<I, R>(s));
    M m{};
    m = src;
    M const m2(m);
    observe_map<Kind::stride, I>(m2, ix, o);
}

// makers: layout_transpose (rank 2) ---------------------------------------------------------------
template <typename L, typename E>
void mk_transpose(ll const* a, ll const* /*s*/, Indices const& ix, MapObs& o)
{
    // a = dynamic extents of E (own order); the nested mapping has the transposed extents
    using NE     = etl::linalg::detail::transpose_extents_t<E>;
    using Nested = typename L::template mapping<NE>;
    using M      = typename etl::linalg::layout_transpose<L>::template mapping<E>;
    ll nd[2]{};
    {
        // dynamic values of NE = dynamic values of E in swapped dimension order
        std::size_t d = 0;
        ll own[2]{};
        for (std::size_t r = 0; r < 2; ++r) { own[r] = E::static_extent(r) == dyn ? a[d++] : 0; }
        std::size_t n = 0;
        if (NE::static_extent(0) == dyn) { nd[n++] = own[1]; }
        if (NE::static_extent(1) == dyn) { nd[n++] = own[0]; }
    }
    Nested const nested(make_ext<NE>(nd));
    M const m(nested);
    observe_map<Kind::transpose, typename E::index_type>(m, ix, o);
    o.eq_dext = (m.nested_mapping() == nested);
}

// ---------------------------------------------------------------------------------------
// per-type function table (constant-initialised)
// ---------------------------------------------------------------------------------------
struct LayoutFns {
    MapFn left[7];  // from_extents<I>, from_extents<J>, default, copy_assign, from_dext, to_dext, from_right (rank<=1)
    MapFn right[7]; //                                                                      ..., from_left
    MapFn stride[5]; // array<I>, array<J>, span<I>, span<J>, copy
    MapFn transpose[2]; // over left, over right (rank 2)
};
template <typename E>
constexpr LayoutFns make_layout_fns()
{
    using I          = typename E::index_type;
    using J          = other_t<I>;
    using LL         = etl::layout_left;
    using LR         = etl::layout_right;
    constexpr auto R = E::rank();
    LayoutFns f{};
    f.left[0]  = &mk_from_extents<Kind::left, LL, E, I>;
    f.left[1]  = &mk_from_extents<Kind::left, LL, E, J>;
    f.left[2]  = &mk_default<Kind::left, LL, E>;
    f.left[3]  = &mk_copy_assign<Kind::left, LL, E>;
    f.left[4]  = &mk_from_dext<Kind::left, LL, E>;
    f.left[5]  = &mk_to_dext<Kind::left, LL, E>;
    f.right[0] = &mk_from_extents<Kind::right, LR, E, I>;
    f.right[1] = &mk_from_extents<Kind::right, LR, E, J>;
    f.right[2] = &mk_default<Kind::right, LR, E>;
    f.right[3] = &mk_copy_assign<Kind::right, LR, E>;
    f.right[4] = &mk_from_dext<Kind::right, LR, E>;
    f.right[5] = &mk_to_dext<Kind::right, LR, E>;
    if constexpr (R <= 1) {
        f.left[6]  = &mk_from_dext<Kind::left, LL, E, LR>;
        f.right[6] = &mk_from_dext<Kind::right, LR, E, LL>;
    }
    if constexpr (R >= 1) { // rank 0: the constructor does not compile (CTAD of array{} from an empty pack) - API gap
        f.stride[0] = &mk_stride<E, I, false>;
        f.stride[1] = &mk_stride<E, J, false>;
        f.stride[2] = &mk_stride<E, I, true>;
        f.stride[3] = &mk_stride<E, J, true>;
        f.stride[4] = &mk_stride_copy<E>;
    }
    if constexpr (R == 2) {
        f.transpose[0] = &mk_transpose<LL, E>;
        f.transpose[1] = &mk_transpose<LR, E>;
    }
    return f;
}
template <typename E>
inline constexpr LayoutFns layout_fns = make_layout_fns<E>();

// ---------------------------------------------------------------------------------------
// the enumeration (compiled once)
// ---------------------------------------------------------------------------------------
Indices make_indices(std::vector<ll> const& e)
{
    Indices ix;
    ix.rank        = e.size();
    auto const all = all_indices(e);
    ix.n           = all.size();
    for (auto const& v : all) { ix.flat.insert(ix.flat.end(), v.begin(), v.end()); }
    return ix;
}

/// next nesting order of the dimensions: every permutation up to rank 4; at rank 5-6 only the
/// rotations of the identity and of the reversed order (2*R orders)
bool next_nesting_order(std::vector<std::size_t>& perm)
{
    std::size_t const R = perm.size();
    while (std::next_permutation(perm.begin(), perm.end())) {
        if (R < 5) { return true; }
        bool rot = true, rev = true;
        for (std::size_t k = 0; k + 1 < R; ++k) {
            rot = rot && (perm[k + 1] == (perm[k] + 1) % R);
            rev = rev && (perm[k] == (perm[k + 1] + 1) % R);
        }
        if (rot || rev) { return true; }
    }
    return false;
}

/// stride sets: nesting order = permutation of the dimensions (first = innermost), padding
/// added to each outer stride, innermost stride q.  All are unique (injective) by construction.
std::vector<std::vector<ll>> stride_sets(std::vector<ll> const& e, bool thorough)
{
    std::vector<std::vector<ll>> out;
    std::size_t const R = e.size();
    std::vector<std::size_t> perm(R);
    for (std::size_t i = 0; i < R; ++i) { perm[i] = i; }
    std::vector<ll> const pads = {0, 1, 3};
    std::vector<ll> const qs   = thorough ? std::vector<ll>{1, 2} : std::vector<ll>{1};
    do {
        for (ll pad : pads) {
            for (ll q : qs) {
                std::vector<ll> s(R, 0);
                ll cur = q;
                for (std::size_t k = 0; k < R; ++k) {
                    s[perm[k]] = cur;
                    cur        = cur * std::max<ll>(e[perm[k]], 1) + pad;
                }
                if (std::find(out.begin(), out.end(), s) == out.end()) { out.push_back(s); }
            }
        }
    } while (next_nesting_order(perm));
    return out;
}

struct Limits {
    ull index_max;
    ull other_max;
};

void run_layout_case(Ctx& c, TypeInfo const& ti, LayoutFns const& f, Limits lim, ll maxDyn)
{
    auto const st        = ti.statics();
    std::string const en = ti.name();
    std::string const pc = pattern_class(st);
    std::size_t const R  = ti.rank;
    char const* const names[2] = {"layout_left", "layout_right"};

    std::vector<ll> dv(ti.rank_dynamic, 0);
    bool first = true;
    do {
        auto const e   = full_extents(st, dv);
        auto const ix  = make_indices(e);
        bool const has_zero = std::find(e.begin(), e.end(), 0) != e.end();
        std::string const zc = R == 0 ? "rank0" : (has_zero ? "zero_extent" : "general");
        c.ocls               = zc;
        ll const prod        = product(e);
        // with a zero extent the size is 0 but stride(r) is still the product of the other extents: it must be representable as well
        ull largest = static_cast<ull>(prod);
        for (auto v : strides_left(e)) { largest = std::max(largest, static_cast<ull>(v)); }
        for (auto v : strides_right(e)) { largest = std::max(largest, static_cast<ull>(v)); }
        bool const fits = largest <= lim.index_max && largest <= lim.other_max;
        if (!fits) {
            ++c.skipped;
            continue;
        }
        c.nontrivial += (ix.n > 1) * 2;
        for (int side = 0; side < 2; ++side) {
            MapFn const* fns = side == 0 ? f.left : f.right;
            Expect x;
            x.ext               = e;
            x.strides           = side == 0 ? strides_left(e) : strides_right(e);
            x.span              = prod;
            x.exhaustive        = true;
            x.always_exhaustive = 1;
            std::string const ln = names[side];
            c.base               = cat(ln, "::mapping");
            c.at(cat(ln, "::mapping::mapping(extents)"), zc, cat(ln, "::mapping<", en, ">(extents", show(dv), "), indices as ", ti.index));
            run_map(c, fns[0], dv.data(), nullptr, ix, x);
            c.at(cat(ln, "::mapping::mapping(extents)"), zc, cat(ln, "::mapping<", en, ">(extents", show(dv), "), indices as other integer type"));
            run_map(c, fns[1], dv.data(), nullptr, ix, x);
            c.at(cat(ln, "::mapping copy/assignment"), zc, cat(ln, "::mapping<", en, "> m2; m2 = copy of mapping(extents", show(dv), ")"));
            run_map(c, fns[3], dv.data(), nullptr, ix, x);
            c.at(cat(ln, "::mapping::mapping(mapping<OtherExtents>)"), "dynamic_to_static",
                cat(ln, "::mapping<", en, ">(", ln, "::mapping<dextents>", show(e), ")"));
            run_map(c, fns[4], e.data(), nullptr, ix, x);
            c.at(cat(ln, "::mapping::mapping(mapping<OtherExtents>)"), "static_to_dynamic",
                cat(ln, "::mapping<dextents>(", ln, "::mapping<", en, ">(extents", show(dv), "))"));
            run_map(c, fns[5], dv.data(), nullptr, ix, x);
            if (R <= 1) {
                char const* on = names[1 - side];
                c.at(cat(ln, "::mapping::mapping(", on, "::mapping<OtherExtents>)"), zc, cat(ln, "::mapping<", en, ">(", on, "::mapping<dextents>", show(e), ")"));
                run_map(c, fns[6], e.data(), nullptr, ix, x);
            }
            if (first) {
                // default construction: dynamic extents are zero
                std::vector<ll> const zero(ti.rank_dynamic, 0);
                Expect xd             = x;
                xd.ext                = full_extents(st, zero);
                xd.strides            = side == 0 ? strides_left(xd.ext) : strides_right(xd.ext);
                xd.span               = product(xd.ext);
                auto const ixd        = make_indices(xd.ext);
                bool const dz         = std::find(xd.ext.begin(), xd.ext.end(), 0) != xd.ext.end();
                c.at(cat(ln, "::mapping::mapping()"), R == 0 ? "rank0" : (dz ? "zero_extent" : "general"), cat(ln, "::mapping<", en, ">()"));
                run_map(c, fns[2], nullptr, nullptr, ixd, xd);
            }
        }
        if (R >= 1) {
            for (auto const& s : stride_sets(e, c.r.thorough())) {
                Expect x;
                x.ext               = e;
                x.strides           = s;
                x.span              = span_size(e, s);
                x.exhaustive        = false;
                x.always_exhaustive = 0;
                ull const smax      = static_cast<ull>(*std::max_element(s.begin(), s.end()));
                ull const need      = std::max<ull>(static_cast<ull>(x.span), smax);
                if (need > lim.index_max || need > lim.other_max) {
                    ++c.skipped;
                    continue;
                }
                c.base              = "layout_stride::mapping";
                bool const rowmajor = (s == strides_right(e)), colmajor = (s == strides_left(e));
                std::string const sc = cat(rowmajor ? "row_major" : (colmajor ? "column_major" : "padded_or_permuted"), "+", zc);
                char const* const how[5] = {"etl::array<index_type>", "etl::array<other integer>", "etl::span<index_type>", "etl::span<other integer>", "copy/assignment of"};
                for (int k = 0; k < 5; ++k) {
                    c.at(k < 2 ? "layout_stride::mapping::mapping(extents,array)" : (k < 4 ? "layout_stride::mapping::mapping(extents,span)" : "layout_stride::mapping copy/assignment"),
                        sc, cat("layout_stride::mapping<", en, ">(extents", show(dv), ", ", how[k], " strides ", show(s), ")"));
                    run_map(c, f.stride[k], dv.data(), s.data(), ix, x);
                }
                c.nontrivial += (ix.n > 1);
            }
        }
        if (R == 2) {
            for (int over = 0; over < 2; ++over) {
                // transpose over layout_left  == row-major of the own extents; over layout_right == column-major
                Expect x;
                x.ext        = e;
                x.strides    = over == 0 ? strides_right(e) : strides_left(e);
                x.span       = prod;
                x.exhaustive = true;
                c.base = cat("layout_transpose<", names[over], ">::mapping");
                c.at(cat("layout_transpose<", names[over], ">::mapping::mapping(nested_mapping)"), zc,
                    cat("layout_transpose<", names[over], ">::mapping<", en, ">(", names[over], "::mapping(transposed extents of ", show(e), "))"));
                run_map(c, f.transpose[over], dv.data(), nullptr, ix, x);
                c.nontrivial += (ix.n > 1);
            }
        }
        if (c.r.wants_sample()) { c.r.sample(cat("every mapping of ", en, show(dv), " on all ", ix.n, " indices")); }
        first = false;
    } while (next_values(dv, maxDyn));
    c.r.count("extents_types");
}

template <typename I, typename A, std::size_t R, std::size_t Lo, std::size_t Count>
void job_layout(mc::Reporter& r, ll maxDyn)
{
    Ctx c(r);
    Limits const lim{static_cast<ull>(std::numeric_limits<I>::max()), static_cast<ull>(std::numeric_limits<other_t<I>>::max())};
    for_patterns<I, A, R, Lo, Count>([&]<typename E>() {
        if (r.deadline_passed()) {
            if (r.exhaustive) { r.not_exhaustive("deadline"); }
            return;
        }
        run_layout_case(c, tinfo<E>, layout_fns<E>, lim, maxDyn);
    });
    c.flush();
}

template <typename I, typename List>
void job_layout_list(mc::Reporter& r, ll maxDyn)
{
    Ctx c(r);
    Limits const lim{static_cast<ull>(std::numeric_limits<I>::max()), static_cast<ull>(std::numeric_limits<other_t<I>>::max())};
    for_types([&]<typename E>() {
        if (r.deadline_passed()) {
            if (r.exhaustive) { r.not_exhaustive("deadline"); }
            return;
        }
        run_layout_case(c, tinfo<E>, layout_fns<E>, lim, maxDyn);
    }, List{});
    c.flush();
}

} // namespace

int main(int argc, char** argv)
{
    mc::Main m(argc, argv);
    std::vector<std::string> const both{"quick", "thorough"};
    std::vector<std::string> const th{"thorough"};
    using I              = PartIndex;
    std::string const in = iname<I>();
    // quick: int (all slices up to rank 3) and size_t (rank 0..2); everything else thorough only
    auto const tiers = (MC_ITYPE == 1 || (MC_ITYPE == 2 && MC_SLICE == 0)) ? both : th;
#if MC_SLICE == 0
    m.job(cat("layout/", in, "/rank0-2"), tiers, [](mc::Reporter& r) {
        job_layout<I, A5, 0, 0, 1>(r, 4);
        job_layout<I, A5, 1, 0, 5>(r, 4);
        job_layout<I, A5, 2, 0, 25>(r, 4);
    });
    
#elif MC_SLICE == 1
    m.job(cat("layout/", in, "/rank3a"), tiers, [](mc::Reporter& r) { job_layout<I, A5, 3, 0, 63>(r, 4); });
#elif MC_SLICE == 2
    m.job(cat("layout/", in, "/rank3b"), tiers, [](mc::Reporter& r) { job_layout<I, A5, 3, 63, 62>(r, 4); });
#elif MC_SLICE == 3
    m.job(cat("layout/", in, "/rank4a"), th, [](mc::Reporter& r) { job_layout<I, A3, 4, 0, 41>(r, 3); });
#elif MC_SLICE == 4
    m.job(cat("layout/", in, "/rank4b"), th, [](mc::Reporter& r) { job_layout<I, A3, 4, 41, 40>(r, 3); });
#elif MC_SLICE == 5
    // rank 5 and 6: six patterns each (c19_common.hpp), dynamic extents 0..3
    m.job(cat("layout/", in, "/rank5"), th, [](mc::Reporter& r) { job_layout_list<I, rank5_types<I>>(r, 3); });
    m.job(cat("layout/", in, "/rank6"), th, [](mc::Reporter& r) { job_layout_list<I, rank6_types<I>>(r, 3); });
#endif
    return m.run();
}
