// The class, union and enumeration types of the C15 type zoo (no includes: this header is also
// pasted in front of the stand-alone snippets that c15_probe.cpp hands to the compiler).
#pragma once

// ---------------------------------------------------------------------------------------
// the type zoo
// ---------------------------------------------------------------------------------------
namespace zoo {

struct Incomplete;
struct Empty { };
struct EmptyFinal final { };
struct Agg {
    int a;
    double b;
};
struct Base {
    int x;
};
struct AggDerived : Agg { };
struct Derived : Base {
    int y;
};
struct DerivedPriv : private Base { };
struct DerivedVirt : virtual Base { };
struct Poly {
    virtual void f();
};
struct PolyVDtor {
    virtual ~PolyVDtor();
};
struct PolyFinal final : Poly {
    void f() override;
};
struct Abstract {
    virtual void f() = 0;
};
struct AbstractProtDtor {
    virtual void f() = 0;

protected:
    ~AbstractProtDtor();
};
struct NonTrivial {
    NonTrivial();
    NonTrivial(NonTrivial const&);
    NonTrivial& operator=(NonTrivial const&);
    ~NonTrivial();
    int v;
};
struct TrivDefUserCopy { // trivial default constructor, user-provided copy (DESIGN 6.3 #27)
    TrivDefUserCopy() = default;
    TrivDefUserCopy(TrivDefUserCopy const&);
    int v;
};
struct UserDefTrivCopy { // user-provided default constructor, trivial copy
    UserDefTrivCopy();
    int v;
};
struct NoDefault {
    NoDefault(int);
};
struct DeletedDefault {
    DeletedDefault() = delete;
};
struct MoveOnly {
    MoveOnly()                      = default;
    MoveOnly(MoveOnly&&)            = default;
    MoveOnly& operator=(MoveOnly&&) = default;
};
struct CopyOnly {
    CopyOnly()                           = default;
    CopyOnly(CopyOnly const&)            = default;
    CopyOnly& operator=(CopyOnly const&) = default;
    CopyOnly(CopyOnly&&)                 = delete;
    CopyOnly& operator=(CopyOnly&&)      = delete;
};
struct NoAssign {
    NoAssign& operator=(NoAssign const&) = delete;
};
struct Immovable {
    Immovable()                            = default;
    Immovable(Immovable const&)            = delete;
    Immovable& operator=(Immovable const&) = delete;
};
struct DeletedDtor {
    ~DeletedDtor() = delete;
};
struct PrivateDtor {
private:
    ~PrivateDtor();
};
struct ProtectedDtor {
protected:
    ~ProtectedDtor();
};
struct ThrowDefault {
    ThrowDefault() noexcept(false);
};
struct ThrowCopy {
    ThrowCopy() noexcept;
    ThrowCopy(ThrowCopy const&) noexcept(false);
    ThrowCopy(ThrowCopy&&) noexcept;
    ThrowCopy& operator=(ThrowCopy const&) noexcept(false);
    ThrowCopy& operator=(ThrowCopy&&) noexcept;
};
struct ThrowMove {
    ThrowMove() noexcept;
    ThrowMove(ThrowMove const&) noexcept;
    ThrowMove(ThrowMove&&) noexcept(false);
    ThrowMove& operator=(ThrowMove const&) noexcept;
    ThrowMove& operator=(ThrowMove&&) noexcept(false);
};
struct ThrowDtor {
    ~ThrowDtor() noexcept(false);
};
struct NothrowAll {
    NothrowAll() noexcept;
    NothrowAll(NothrowAll const&) noexcept;
    NothrowAll(NothrowAll&&) noexcept;
    NothrowAll& operator=(NothrowAll const&) noexcept;
    NothrowAll& operator=(NothrowAll&&) noexcept;
    ~NothrowAll() noexcept;
};
struct ExplicitDefault {
    explicit ExplicitDefault() = default;
};
struct ExplicitCopy {
    ExplicitCopy() = default;
    explicit ExplicitCopy(ExplicitCopy const&) = default;
};
struct ToInt {
    operator int() const noexcept;
};
struct ToIntThrow {
    operator int() const;
};
struct ExplicitToBool {
    explicit operator bool() const;
};
struct FromInt {
    FromInt(int) noexcept;
};
struct ExplicitFromInt {
    explicit ExplicitFromInt(int);
};
struct ConstMember {
    int const c;
};
struct RefMember {
    int& r;
};
struct BitField {
    int a : 3;
    int b : 5;
};
struct MixedAccess {
    int a;

private:
    int b;
};
struct Padded {
    char c;
    int i;
};
struct TwoInts {
    int a;
    int b;
};
struct WithFloat {
    float f;
};
struct Functor {
    int operator()(int) const;
};
struct FunctorNoexcept {
    void operator()() noexcept;
};
struct Pred {
    bool operator()(int, int) const;
};
struct EqComparable {
    friend bool operator==(EqComparable const&, EqComparable const&);
};
struct AdlSwap {
    AdlSwap(AdlSwap&&) = delete;
    friend void swap(AdlSwap&, AdlSwap&) noexcept;
};
struct NoSwap {
    friend void swap(NoSwap&, NoSwap&) = delete;
};
union UnionTriv {
    int a;
    float b;
};
union UnionNonTriv {
    NonTrivial n;
    int i;
    UnionNonTriv();
    ~UnionNonTriv();
};
union UnionEmpty { };
enum Unscoped { u0, u1 };
enum UnscopedU8 : unsigned char { v0 };
enum class Scoped { a };
enum class ScopedChar : char { a };
enum class ScopedLL : long long { a };
enum class ScopedBool : bool { a };
using Lambda    = decltype([] { });
using LambdaCap = decltype([x = 0] { return x; });

} // namespace zoo

