// The class, union and enumeration types of the C15 type zoo (no includes: this header is also
// pasted in front of the stand-alone snippets that c15_probe.cpp hands to the compiler).
#pragma once

// ---------------------------------------------------------------------------------------
// the type zoo
// ---------------------------------------------------------------------------------------
namespace zoo {

struct Incomplete;
struct Empty { };
struct EmptyFinal final { };
struct Agg {
    int a;
    double b;
};
struct Base {
    int x;
};
struct AggDerived : Agg { };
struct Derived : Base {
    int y;
};
struct DerivedPriv : private Base { };
struct DerivedVirt : virtual Base { };
struct Poly {
    virtual void f();
};
struct PolyVDtor {
    virtual ~PolyVDtor();
};
struct PolyFinal final : Poly {
    void f() override;
};
struct Abstract {
    virtual void f() = 0;
};
struct AbstractProtDtor {
    virtual void f() = 0;

protected:
    ~AbstractProtDtor();
};
struct NonTrivial {
    NonTrivial();
    NonTrivial(NonTrivial const&);
    NonTrivial& operator=(NonTrivial const&);
    ~NonTrivial();
    int v;
};
struct TrivDefUserCopy { // trivial default constructor, user-provided copy (DESIGN 6.3 #27)
    TrivDefUserCopy() = default;
    TrivDefUserCopy(TrivDefUserCopy const&);
    int v;
};
struct UserDefTrivCopy { // user-provided default constructor, trivial copy
    UserDefTrivCopy();
    int v;
};
struct NoDefault {
    NoDefault(int);
};
struct DeletedDefault {
    DeletedDefault() = delete;
};
struct MoveOnly {
    MoveOnly()                      = default;
    MoveOnly(MoveOnly&&)            = default;
    MoveOnly& operator=(MoveOnly&&) = default;
};
struct CopyOnly {
    CopyOnly()                           = default;
    CopyOnly(CopyOnly const&)            = default;
    CopyOnly& operator=(CopyOnly const&) = default;
    CopyOnly(CopyOnly&&)                 = delete;
    CopyOnly& operator=(CopyOnly&&)      = delete;
};
struct NoAssign {
    NoAssign& operator=(NoAssign const&) = delete;
};
struct Immovable {
    Immovable()                            = default;
    Immovable(Immovable const&)            = delete;
    Immovable& operator=(Immovable const&) = delete;
};
struct DeletedDtor {
    ~DeletedDtor() = delete;
};
struct PrivateDtor {
private:
    ~PrivateDtor();
};
struct ProtectedDtor {
protected:
    ~ProtectedDtor();
};
struct ThrowDefault {
    ThrowDefault() noexcept(false);
};
struct ThrowCopy {
    ThrowCopy() noexcept;
    ThrowCopy(ThrowCopy const&) noexcept(false);
    ThrowCopy(ThrowCopy&&) noexcept;
    ThrowCopy& operator=(ThrowCopy const&) noexcept(false);
    ThrowCopy& operator=(ThrowCopy&&) noexcept;
};
struct ThrowMove {
    ThrowMove() noexcept;
    ThrowMove(ThrowMove const&) noexcept;
    ThrowMove(ThrowMove&&) noexcept(false);
    ThrowMove& operator=(ThrowMove const&) noexcept;
    ThrowMove& operator=(ThrowMove&&) noexcept(false);
};
struct ThrowDtor {
    ~ThrowDtor() noexcept(false);
};
struct NothrowAll {
    NothrowAll() noexcept;
    NothrowAll(NothrowAll const&) noexcept;
    NothrowAll(NothrowAll&&) noexcept;
    NothrowAll& operator=(NothrowAll const&) noexcept;
    NothrowAll& operator=(NothrowAll&&) noexcept;
    ~NothrowAll() noexcept;
};
struct ExplicitDefault {
    explicit ExplicitDefault() = default;
};
// aggregates whose member has an explicit default constructor: T() and `new T` are fine, T{} is not (copy-list-
// initialisation of the member from {}), so is_default_constructible is true and default_initializable is false
// (added after seeded breakage c15_default_initializable_drops_brace_init)
struct AggOfExplicit {
    ExplicitDefault m;
};
struct AggOfAggOfExplicit {
    int i;
    AggOfExplicit inner;
};
struct ExplicitCopy {
    ExplicitCopy() = default;
    explicit ExplicitCopy(ExplicitCopy const&) = default;
};
struct ToInt {
    operator int() const noexcept;
};
struct ToIntThrow {
    operator int() const;
};
struct ExplicitToBool {
    explicit operator bool() const;
};
struct FromInt {
    FromInt(int) noexcept;
};
struct ExplicitFromInt {
    explicit ExplicitFromInt(int);
};
struct ConstMember {
    int const c;
};
struct RefMember {
    int& r;
};
struct BitField {
    int a : 3;
    int b : 5;
};
struct MixedAccess {
    int a;

private:
    int b;
};
struct Padded {
    char c;
    int i;
};
struct TwoInts {
    int a;
    int b;
};
struct WithFloat {
    float f;
};
struct Functor {
    int operator()(int) const;
};
struct FunctorNoexcept {
    void operator()() noexcept;
};
struct Pred {
    bool operator()(int, int) const;
};
struct EqComparable {
    friend bool operator==(EqComparable const&, EqComparable const&);
};
struct AdlSwap {
    AdlSwap(AdlSwap&&) = delete;
    friend void swap(AdlSwap&, AdlSwap&) noexcept;
};
struct NoSwap {
    friend void swap(NoSwap&, NoSwap&) = delete;
};
union UnionTriv {
    int a;
    float b;
};
union UnionNonTriv {
    NonTrivial n;
    int i;
    UnionNonTriv();
    ~UnionNonTriv();
};
union UnionEmpty { };
enum Unscoped { u0, u1 };
enum UnscopedU8 : unsigned char { v0 };
enum class Scoped { a };
enum class ScopedChar : char { a };
enum class ScopedLL : long long { a };
enum class ScopedBool : bool { a };
using Lambda    = decltype([] { });
using LambdaCap = decltype([x = 0] { return x; });

// ---------------------------------------------------------------------------------------
// round 2: types that were missing from the zoo
// ---------------------------------------------------------------------------------------
// enumerations: fixed underlying type bool / char / char16_t, negative enumerators, no enumerators, opaque
enum UnscopedBool : bool { ub0 };
enum UnscopedChar : char { uc0 };
enum UnscopedNeg { un_lo = -5, un_hi = 5 };
enum UnscopedBig : unsigned long long { ubig = ~0ULL };
enum UnscopedEmpty { };
enum class ScopedNeg : signed char { lo = -128 };
enum class ScopedC16 : char16_t { a };
enum class ScopedU64 : unsigned long { a };
enum class Opaque : short;

// class hierarchies: protected base, ambiguous (repeated) base, virtual diamond, two bases with members
struct DerivedProt : protected Base { };
struct Left : Base { };
struct Right : Base { };
struct Diamond : Left, Right { };
struct VLeft : virtual Base { };
struct VRight : virtual Base { };
struct VDiamond : VLeft, VRight { };
struct TwoBases : Base, Agg { };
struct EmptyBaseMember : Empty {
    int x;
};
struct EmptySameFirst : Empty { // base of the type of the first member: not standard layout
    Empty e;
    int x;
};
struct FinalVDtor final {
    virtual ~FinalVDtor();
};

// layout / object representation
struct alignas(32) Over {
    char c;
};
struct TailPad {
    int i;
    char c;
};
struct BitFull {
    unsigned a : 16;
    unsigned b : 16;
};
struct ArrMember {
    int a[3];
};
struct WithBool {
    bool b;
};
struct WithPtr {
    int* p;
};
struct WithLongDouble {
    long double ld;
};
struct AggNSDMI {
    int a = 1;
};
struct AggOfNonTrivial {
    NonTrivial n;
    int i;
};

// constructors: conditionally explicit, templated, constrained, protected, private copy, non-const / volatile copy
template <typename T>
struct CondExplicit {
    explicit(sizeof(T) != sizeof(int)) CondExplicit(T) noexcept;
};
struct FromAny {
    template <typename T>
    FromAny(T&&);
};
struct FromArith {
    template <typename T>
        requires requires(T t) { t * 2; }
    FromArith(T) noexcept;
};
struct FromTwoInts {
    FromTwoInts(int, int) noexcept;
};
struct ExplicitFromTwo {
    explicit ExplicitFromTwo(int, double);
};
struct FromInitPtr {
    FromInitPtr(int const*, int const*);
};
struct DefaultedAll {
    DefaultedAll()                               = default;
    DefaultedAll(DefaultedAll const&)            = default;
    DefaultedAll& operator=(DefaultedAll const&) = default;
    ~DefaultedAll()                              = default;
};
struct ProtectedCtor {
protected:
    ProtectedCtor();
};
struct PrivateCopy {
    PrivateCopy();

private:
    PrivateCopy(PrivateCopy const&);
    PrivateCopy& operator=(PrivateCopy const&);
};
struct NonConstCopy {
    NonConstCopy();
    NonConstCopy(NonConstCopy&);
    NonConstCopy& operator=(NonConstCopy&);
};
struct VolatileCopy {
    VolatileCopy();
    VolatileCopy(VolatileCopy const volatile&);
    VolatileCopy& operator=(VolatileCopy const volatile&);
    void operator=(VolatileCopy const volatile&) volatile;
};
struct DeletedMoveAssign {
    DeletedMoveAssign(DeletedMoveAssign const&)            = default;
    DeletedMoveAssign(DeletedMoveAssign&&)                 = default;
    DeletedMoveAssign& operator=(DeletedMoveAssign const&) = default;
    DeletedMoveAssign& operator=(DeletedMoveAssign&&)      = delete;
};

// assignment: ref-qualified, from another type, through a const proxy
struct RefQualAssign {
    RefQualAssign& operator=(RefQualAssign const&) & = default;
};
struct AssignFromInt {
    AssignFromInt& operator=(int) noexcept;
};
struct ConstAssign {
    ConstAssign const& operator=(ConstAssign const&) const noexcept;
};
struct AssignReturnsVoid {
    void operator=(AssignReturnsVoid const&);
};

// destructors
struct DtorNoexceptExpr {
    ~DtorNoexceptExpr() noexcept(sizeof(int) == 1);
};
struct ThrowDtorMember {
    ThrowDtor m;
};
struct ThrowDtorBase : ThrowDtor { };
struct DeletedDtorMember { // implicitly deleted destructor
    DeletedDtor m;
};
struct VirtualPrivateDtor {
private:
    virtual ~VirtualPrivateDtor();
};

// conversion functions: only non-const, only rvalue, only lvalue, to a reference, to a function pointer, templated
struct ToIntNonConst {
    operator int();
};
struct ToIntRvalue {
    operator int() &&;
};
struct ToIntLvalue {
    operator int() &;
};
struct ToIntRef {
    operator int&() const noexcept;
};
struct ToBasePtr {
    operator Base*() const;
};
struct ToFnPtr {
    using fp = int (*)(int);
    operator fp() const;
};
struct ToAny {
    template <typename T>
    operator T() const;
};
struct ToAggRef {
    operator Agg&() const;
};
struct ExplicitToInt {
    explicit operator int() const noexcept;
};
struct ToCopyOnlyCRef { // converts to a const lvalue of a class whose move constructor is deleted
    operator CopyOnly const&() const;
};
struct AmbiguousToNumber {
    operator int() const;
    operator long() const;
};

// comparison
struct EqNonBool {
    struct R { };
    R operator==(EqNonBool const&) const;
};
struct EqNonConst {
    bool operator==(EqNonConst const&);
};
struct EqExplicitBool {
    struct B {
        explicit operator bool() const;
    };
    B operator==(EqExplicitBool const&) const;
};
struct EqWithInt {
    friend bool operator==(EqWithInt const&, EqWithInt const&);
    friend bool operator==(EqWithInt const&, int);
};
struct EqDeleted {
    friend bool operator==(EqDeleted const&, EqDeleted const&) = delete;
};
struct BoolLikeNoNot { // converts to bool, but !x is deleted: not boolean-testable
    operator bool() const;
    void operator!() const = delete;
};

// call operators
struct GenericFunctor {
    template <typename... A>
    int operator()(A&&...) const;
};
struct RefQualFunctor {
    int operator()() &;
    double operator()() const&;
    char operator()() &&;
};
struct MutableFunctor {
    int operator()(int);
};
struct DeletedCall {
    void operator()(int) = delete;
    void operator()(double);
};
struct OverloadFunctor {
    int operator()(int) const;
    void* operator()(void*) const;
};
struct VariadicFunctor {
    int operator()(...) const;
};
struct DefaultArgFunctor {
    int operator()(int, int = 0) const;
};
struct ReturnsImmovable {
    Immovable operator()() const;
};
struct ReturnsRef {
    int& operator()() const noexcept;
};
struct ReturnsBoolLike {
    ToInt operator()(int, int) const;
};
struct TakesRef {
    void operator()(int&) const;
};
struct TakesRvalueRef {
    void operator()(MoveOnly&&) const;
};
struct TakesMoveOnly {
    bool operator()(MoveOnly) const;
};
struct PrivateCall {
private:
    void operator()() const;
};

// swap customisation
struct MemberSwapOnly {
    MemberSwapOnly(MemberSwapOnly&&) = delete;
    void swap(MemberSwapOnly&);
};
// swap overloads between two DIFFERENT types with asymmetric exception specifications / only one argument order
// (added after seeded breakage c15_nothrow_swappable_with_one_order: is_nothrow_swappable_with tested
// noexcept(swap(t,u)) only, not also swap(u,t))
struct SwapA { };
struct SwapB { };
void swap(SwapA&, SwapB&) noexcept;
void swap(SwapB&, SwapA&) noexcept(false);
struct SwapC { };
struct SwapD { };
void swap(SwapC&, SwapD&) noexcept;
void swap(SwapD&, SwapC&) noexcept;
struct SwapE { };
struct SwapF { };
void swap(SwapE&, SwapF&) noexcept; // one order only: not swappable_with
// copy / move constructors that exist for some value categories of the source only (added after seeded breakage
// c15_copy_constructible_const_rvalue_clause: copy_constructible lost its constructible_from<T, const T> clause; only a
// class with a DELETED const-rvalue constructor next to working const-lvalue and rvalue ones tells the difference)
struct ConstRvalueDeleted {
    ConstRvalueDeleted();
    ConstRvalueDeleted(ConstRvalueDeleted const&);
    ConstRvalueDeleted(ConstRvalueDeleted&&);
    ConstRvalueDeleted(ConstRvalueDeleted const&&) = delete;
    ConstRvalueDeleted& operator=(ConstRvalueDeleted const&);
    friend bool operator==(ConstRvalueDeleted const&, ConstRvalueDeleted const&);
};
struct NonConstLvalueDeleted {
    NonConstLvalueDeleted();
    NonConstLvalueDeleted(NonConstLvalueDeleted const&);
    NonConstLvalueDeleted(NonConstLvalueDeleted&) = delete;
    NonConstLvalueDeleted(NonConstLvalueDeleted&&);
    NonConstLvalueDeleted& operator=(NonConstLvalueDeleted const&);
    friend bool operator==(NonConstLvalueDeleted const&, NonConstLvalueDeleted const&);
};
struct ConstRvalueAssignDeleted {
    ConstRvalueAssignDeleted();
    ConstRvalueAssignDeleted(ConstRvalueAssignDeleted const&);
    ConstRvalueAssignDeleted& operator=(ConstRvalueAssignDeleted const&);
    ConstRvalueAssignDeleted& operator=(ConstRvalueAssignDeleted&&);
    ConstRvalueAssignDeleted& operator=(ConstRvalueAssignDeleted const&&) = delete;
    friend bool operator==(ConstRvalueAssignDeleted const&, ConstRvalueAssignDeleted const&);
};
struct ThrowingAdlSwap {
    friend void swap(ThrowingAdlSwap&, ThrowingAdlSwap&) noexcept(false);
};
struct SwapWithInt {
    friend void swap(SwapWithInt&, int&) noexcept;
    friend void swap(int&, SwapWithInt&) noexcept;
};
struct OverloadedAddr {
    void operator&() const = delete;
    int v;
};

// unions
union UnionDeleted { // every special member implicitly deleted
    NonTrivial n;
    int i;
};
union UnionWithCtor {
    int i;
    float f;
    UnionWithCtor(int) noexcept;
};
union UnionConstMember {
    int const c;
    float f;
};
union UnionOfArrays {
    char c[8];
    double d;
};

// closure types
using LambdaGeneric  = decltype([](auto x) { return x; });
using LambdaMutable  = decltype([i = 0]() mutable { return ++i; });
using LambdaNoexcept = decltype([](int) noexcept { return true; });
using LambdaRefRet   = decltype([](int& r) -> int& { return r; });

} // namespace zoo

