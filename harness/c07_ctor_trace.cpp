// C07, element types that are trivially ASSIGNABLE and trivially DESTRUCTIBLE but whose copy / move CONSTRUCTORS are
// user-provided and leave a trace in the value (added after seeded breakage c07_variant_assign_trivial_dtor_concept:
// the concepts that keep variant's assignment operators defaulted asked for is_trivially_destructible instead of
// is_trivially_copy/move_constructible, so assigning between DIFFERENT alternatives byte-copied the object instead
// of constructing it; instrumented types with a destructor or an own operator= never take that path, and the
// lifetime registry cannot follow a trivially destructible type).
// The standard pins the number of constructor calls down for these operations ([variant.assign]: same index ->
// assignment, different index with a nothrow constructor -> emplace<j>(get<j>(rhs)), exactly one construction;
// [optional.assign], [expected.object.assign] likewise), so the value reached - original + 100 per copy
// construction + 10000 per move construction - is an exact oracle.  Enumerated: every (target state, source state)
// pair over {each alternative x 2 values} for variant<Gen,GenB>, variant<int,Gen>, variant<Gen,int,GenB>;
// {empty, 2 values}^2 for optional<Gen>; {value, error} x 2 values squared for expected<Gen,GenB> and
// expected<int,Gen>; operations: copy construction, move construction, copy assignment, move assignment,
// emplace / in-place construction; compared with std::variant / std::optional run on the same types (expected:
// closed form, std::expected does not exist in libstdc++ 12).
#include "mc.hpp"

#include <etl/expected.hpp>
#include <etl/optional.hpp>
#include <etl/utility.hpp>
#include <etl/variant.hpp>

#include <optional>
#include <string>
#include <utility>
#include <variant>

using mc::cat;

namespace {

template <int Tag>
struct GenT {
    int v{0};
    GenT() = default;
    explicit(false) GenT(int x) noexcept : v(x) { }
    GenT(GenT const& o) noexcept : v(o.v + 100) { }
    GenT(GenT&& o) noexcept : v(o.v + 10000) { }
    GenT& operator=(GenT const&) = default;
    GenT& operator=(GenT&&)      = default;
    // trivial destructor
    friend bool operator==(GenT const& a, GenT const& b) { return a.v == b.v; }
};
using Gen  = GenT<0>;
using GenB = GenT<1>;
static_assert(std::is_trivially_copy_assignable_v<Gen> && std::is_trivially_destructible_v<Gen> && !std::is_trivially_copy_constructible_v<Gen>);

inline int val(int x) { return x; }
template <int T>
int val(GenT<T> const& g)
{
    return g.v;
}

// ---- variant --------------------------------------------------------------------------------------------------
template <typename V>
std::string show_v(V const& v)
{
    return cat("index ", v.index(), " value ", [&] {
        if constexpr (requires { std::visit([](auto const&) { return 0; }, v); }) {
            return std::visit([](auto const& x) { return val(x); }, v);
        } else {
            return etl::visit([](auto const& x) { return val(x); }, v);
        }
    }());
}

template <typename V, std::size_t I = 0>
void set_alt(V& v, std::size_t idx, int value)
{
    if constexpr (requires { typename std::variant_size<V>::type; }) {
        if constexpr (I < std::variant_size_v<V>) {
            if (idx == I) {
                v.template emplace<I>(value);
            } else {
                set_alt<V, I + 1>(v, idx, value);
            }
        }
    } else {
        if constexpr (I < etl::variant_size_v<V>) {
            if (idx == I) {
                v.template emplace<I>(value);
            } else {
                set_alt<V, I + 1>(v, idx, value);
            }
        }
    }
}

template <typename EV, typename SV, std::size_t N>
void variant_sweep(mc::Reporter& r, char const* name, std::uint64_t& ev)
{
    for (std::size_t ti = 0; ti < N; ++ti) {
        for (std::size_t si = 0; si < N; ++si) {
            for (int tv : {1, 2}) {
                for (int sv : {3, 4}) {
                    auto const cls = ti == si ? "same_alternative" : "different_alternative";
                    auto run       = [&](char const* subject, char const* op, auto&& f) {
                        EV et, es;
                        SV st, ss;
                        set_alt(et, ti, tv);
                        set_alt(es, si, sv);
                        set_alt(st, ti, tv);
                        set_alt(ss, si, sv);
                        std::string const e = f(et, es);
                        std::string const s = f(st, ss);
                        ++ev;
                        r.outcome(mc::hash_str(s));
                        if (e != s) {
                            r.violation("C07", subject, cls, cat(name, ": target holds alternative ", ti, " = ", tv, ", source holds alternative ", si, " = ", sv, ": ", op), cat("tetl: ", e, " | std: ", s));
                        }
                    };
                    run("variant::operator=(variant const&)", "target = source", [](auto& t, auto& s) {
                        t = s;
                        return cat("target ", show_v(t), ", source ", show_v(s));
                    });
                    run("variant::operator=(variant&&)", "target = move(source)", [](auto& t, auto& s) {
                        t = std::move(s);
                        return cat("target ", show_v(t), ", source index ", s.index());
                    });
                    run("variant::variant(variant const&)", "copy construction from source", [](auto& /*t*/, auto& s) {
                        auto c = s;
                        return cat("copy ", show_v(c), ", source ", show_v(s));
                    });
                    run("variant::variant(variant&&)", "move construction from source", [](auto& /*t*/, auto& s) {
                        auto c = std::move(s);
                        return cat("target ", show_v(c));
                    });
                    run("variant::operator=(variant const&)", "target = source; target = source", [](auto& t, auto& s) {
                        t = s;
                        t = s; // second time: same alternative, plain assignment
                        return cat("target ", show_v(t));
                    });
                }
            }
        }
    }
    r.sample(cat(name, ": every (target alternative, source alternative) x 2x2 values x copy/move assignment, copy/move construction, repeated assignment"));
}

// ---- optional -------------------------------------------------------------------------------------------------
template <typename O>
std::string show_o(O const& o)
{
    return o.has_value() ? cat("engaged ", val(*o)) : std::string("empty");
}
template <typename EO, typename SO>
void optional_sweep(mc::Reporter& r, char const* name, std::uint64_t& ev)
{
    for (int tv : {0, 1, 2}) {     // 0 = empty
        for (int sv : {0, 3, 4}) { // 0 = empty
            auto const cls = (tv != 0) == (sv != 0) ? "same_engagement" : "different_engagement";
            auto run       = [&](char const* subject, char const* op, auto&& f) {
                EO et, es;
                SO st, ss;
                if (tv != 0) {
                    et.emplace(tv);
                    st.emplace(tv);
                }
                if (sv != 0) {
                    es.emplace(sv);
                    ss.emplace(sv);
                }
                std::string const e = f(et, es);
                std::string const s = f(st, ss);
                ++ev;
                r.outcome(mc::hash_str(s));
                if (e != s) { r.violation("C07", subject, cls, cat(name, ": target ", tv ? cat("engaged ", tv) : std::string("empty"), ", source ", sv ? cat("engaged ", sv) : std::string("empty"), ": ", op), cat("tetl: ", e, " | std: ", s)); }
            };
            run("optional::operator=(optional const&)", "target = source", [](auto& t, auto& s) {
                t = s;
                return cat("target ", show_o(t), ", source ", show_o(s));
            });
            run("optional::operator=(optional&&)", "target = move(source)", [](auto& t, auto& s) {
                t = std::move(s);
                return cat("target ", show_o(t), ", source engaged: ", s.has_value());
            });
            run("optional::optional(optional const&)", "copy construction", [](auto& /*t*/, auto& s) {
                auto c = s;
                return cat("copy ", show_o(c));
            });
            run("optional::optional(optional&&)", "move construction", [](auto& /*t*/, auto& s) {
                auto c = std::move(s);
                return cat("target ", show_o(c));
            });
        }
    }
    r.sample(cat(name, ": {empty, 2 values}^2 x copy/move assignment and construction"));
}

// ---- expected (closed form) -----------------------------------------------------------------------------------
template <typename T, typename E>
std::string show_e(etl::expected<T, E> const& x)
{
    return x.has_value() ? cat("value ", val(*x)) : cat("error ", val(x.error()));
}
template <typename T, typename E>
void expected_sweep(mc::Reporter& r, char const* name, std::uint64_t& ev)
{
    using X = etl::expected<T, E>;
    auto mk = [](bool has, int v) { return has ? X(etl::in_place, v) : X(etl::unexpect, v); };
    for (bool th : {true, false}) {
        for (bool sh : {true, false}) {
            for (int tv : {1, 2}) {
                for (int sv : {3, 4}) {
                    auto const cls  = th == sh ? "same_state" : "different_state";
                    auto const kase = cat(name, ": target ", th ? "value " : "error ", tv, ", source ", sh ? "value " : "error ", sv);
                    // a constructor call adds 100 (copy) / 10000 (move) when the held type is Gen; int adds nothing
                    auto const traced = [&](bool has) { return has ? !std::is_same_v<T, int> : !std::is_same_v<E, int>; };
                    {
                        X t = mk(th, tv), s = mk(sh, sv);
                        t = s;
                        // same state: assignment (no trace); different state: one copy construction
                        int const want = sv + ((th != sh && traced(sh)) ? 100 : 0);
                        ++ev;
                        std::string const got = show_e(t);
                        std::string const ref = cat(sh ? "value " : "error ", want);
                        r.outcome(mc::hash_str(ref));
                        if (got != ref) { r.violation("C07", "expected::operator=(expected const&)", cls, cat(kase, ": target = source"), cat("tetl: ", got, " | [expected.object.assign]: ", ref)); }
                    }
                    {
                        X t = mk(th, tv), s = mk(sh, sv);
                        t = etl::move(s);
                        int const want = sv + ((th != sh && traced(sh)) ? 10000 : 0);
                        ++ev;
                        std::string const got = show_e(t);
                        std::string const ref = cat(sh ? "value " : "error ", want);
                        if (got != ref) { r.violation("C07", "expected::operator=(expected&&)", cls, cat(kase, ": target = move(source)"), cat("tetl: ", got, " | [expected.object.assign]: ", ref)); }
                    }
                    {
                        X s = mk(sh, sv);
                        X c(s);
                        int const want = sv + (traced(sh) ? 100 : 0);
                        ++ev;
                        std::string const got = show_e(c);
                        std::string const ref = cat(sh ? "value " : "error ", want);
                        if (got != ref) { r.violation("C07", "expected::expected(expected const&)", "general", cat(kase, ": copy construction"), cat("tetl: ", got, " | reference: ", ref)); }
                    }
                    {
                        X s = mk(sh, sv);
                        X c(etl::move(s));
                        int const want = sv + (traced(sh) ? 10000 : 0);
                        ++ev;
                        std::string const got = show_e(c);
                        std::string const ref = cat(sh ? "value " : "error ", want);
                        if (got != ref) { r.violation("C07", "expected::expected(expected&&)", "general", cat(kase, ": move construction"), cat("tetl: ", got, " | reference: ", ref)); }
                    }
                }
            }
        }
    }
    r.sample(cat(name, ": {value, error} x 2 values squared x copy/move assignment and construction"));
}

} // namespace

int main(int argc, char** argv)
{
    mc::Main m(argc, argv);
    m.job("ctor-trace/variant", {"quick", "thorough"}, [](mc::Reporter& r) {
        std::uint64_t ev = 0;
        variant_sweep<etl::variant<Gen, GenB>, std::variant<Gen, GenB>, 2>(r, "variant<Gen,GenB>", ev);
        variant_sweep<etl::variant<int, Gen>, std::variant<int, Gen>, 2>(r, "variant<int,Gen>", ev);
        variant_sweep<etl::variant<Gen, int, GenB>, std::variant<Gen, int, GenB>, 3>(r, "variant<Gen,int,GenB>", ev);
        variant_sweep<etl::variant<Gen, Gen>, std::variant<Gen, Gen>, 2>(r, "variant<Gen,Gen>", ev);
        r.count("evaluations", ev);
        r.count("distinct_nontrivial", ev);
    });
    m.job("ctor-trace/optional", {"quick", "thorough"}, [](mc::Reporter& r) {
        std::uint64_t ev = 0;
        optional_sweep<etl::optional<Gen>, std::optional<Gen>>(r, "optional<Gen>", ev);
        r.count("evaluations", ev);
        r.count("distinct_nontrivial", ev);
    });
    m.job("ctor-trace/expected", {"quick", "thorough"}, [](mc::Reporter& r) {
        std::uint64_t ev = 0;
        expected_sweep<Gen, GenB>(r, "expected<Gen,GenB>", ev);
        expected_sweep<int, Gen>(r, "expected<int,Gen>", ev);
        expected_sweep<Gen, int>(r, "expected<Gen,int>", ev);
        r.count("evaluations", ev);
        r.count("distinct_nontrivial", ev);
    });
    return m.run();
}
