// C15, unary type traits: every etl trait with a std namesake x the type zoo, both spellings
// (`X<T>::value` and `X_v<T>`, `X<T>::type` and `X_t<T>`), as constexpr tables (engine E4).
//
// MC_PART selects the trait group compiled into this binary:
//   1 primary/composite categories, cv, sign, array shape      (no completeness precondition)
//   2 class properties, alignment                               (complete types only)
//   3 construct/assign/destroy/swap operations                  (complete types only)
//   4 type transformations
//   0 all of them in one binary (used with the small round-2 core zoo in the quick tier)
// -DC15_R2_ZOO selects the round-2 zoo (c15_common.hpp); the job names then end in "/zoo2".
#include "c15_common.hpp"

#ifndef MC_PART
    #define MC_PART 1
#endif

namespace c15 {

// std preconditions -------------------------------------------------------------------
// "T shall be a complete type, cv void, or an array of unknown bound"
template <typename T>
inline constexpr bool complete_ok = !incomplete_core<T>;
template <typename T>
inline constexpr bool alignof_ok = complete_ok<T> && std::is_object_v<std::remove_reference_t<T>>
                                && !std::is_unbounded_array_v<std::remove_reference_t<T>>;
template <typename T>
inline constexpr bool make_signed_ok
    = (std::is_integral_v<T> && !std::is_same_v<std::remove_cv_t<T>, bool>) || std::is_enum_v<T>;

// etl hard errors found by compiling (see c15_probe.cpp, where each of them is a probe)
template <typename T>
inline constexpr bool is_builtin_int_nocv = std::is_same_v<T, signed char> || std::is_same_v<T, unsigned char>
                                         || std::is_same_v<T, short> || std::is_same_v<T, unsigned short>
                                         || std::is_same_v<T, int> || std::is_same_v<T, unsigned int>
                                         || std::is_same_v<T, long> || std::is_same_v<T, unsigned long>
                                         || std::is_same_v<T, long long> || std::is_same_v<T, unsigned long long>;

template <typename T>
inline constexpr bool array_of_indestructible = std::is_array_v<T> && !std::is_destructible_v<std::remove_all_extents_t<T>>;
template <typename T>
inline constexpr bool abominable = std::is_function_v<T> && !can_point_to<T>;

// is_nothrow_swappable<T> does not compile whenever etl::is_swappable<T> is false, nor for arrays
// (ambiguous etl::swap(T(&)[N], T(&)[N]), see c15_binary.cpp)
template <typename T>
constexpr bool nothrow_swappable_gap()
{
    if constexpr (std::rank_v<std::remove_reference_t<T>> >= 1) {
        return true;
    } else {
        return !etl::is_swappable_v<T>;
    }
}

#if MC_PART == 1 || MC_PART == 0
C15_VALUE1(is_void, true, false)
C15_VALUE1(is_null_pointer, true, false)
C15_VALUE1(is_integral, !int128_quirk<T>, false)
C15_VALUE1(is_floating_point, true, false)
C15_VALUE1(is_array, true, false)
C15_VALUE1(is_enum, true, false)
C15_VALUE1(is_union, true, false)
C15_VALUE1(is_class, true, false)
C15_VALUE1(is_function, true, false)
C15_VALUE1(is_pointer, true, false)
C15_VALUE1(is_lvalue_reference, true, false)
C15_VALUE1(is_rvalue_reference, true, false)
C15_VALUE1(is_member_object_pointer, true, false)
C15_VALUE1(is_member_function_pointer, true, false)
C15_VALUE1(is_fundamental, !int128_quirk<T>, false)
C15_VALUE1(is_arithmetic, !int128_quirk<T>, false)
C15_VALUE1(is_scalar, !int128_quirk<T>, false)
C15_VALUE1(is_object, true, false)
C15_VALUE1(is_compound, !int128_quirk<T>, false)
C15_VALUE1(is_reference, true, false)
C15_VALUE1(is_member_pointer, true, false)
C15_VALUE1(is_const, true, false)
C15_VALUE1(is_volatile, true, false)
C15_VALUE1(is_bounded_array, true, false)
C15_VALUE1(is_unbounded_array, true, false)
C15_VALUE1(is_signed, !int128_quirk<T>, false)
C15_VALUE1(is_unsigned, !int128_quirk<T>, false)
C15_VALUE1(is_scoped_enum, true, false)
C15_VALUE1(rank, true, false)

// extent<T, N> for N = 0, 1, 2
template <unsigned N>
struct extent_S {
    static constexpr char const* name = N == 0 ? "extent<T,0>" : N == 1 ? "extent<T,1>" : "extent<T,2>";
    static constexpr char const* form = "@::value";
    template <typename T>
    static constexpr bool ok = true;
    template <typename T>
    static constexpr bool gap = false;
    template <typename T>
    static constexpr long long e()
    {
        return static_cast<long long>(etl::extent<T, N>::value);
    }
    template <typename T>
    static constexpr long long s()
    {
        return static_cast<long long>(std::extent<T, N>::value);
    }
    template <typename T>
    static constexpr ShowFn show = nullptr;
    template <typename T>
    static constexpr bool nontrivial(long long sv)
    {
        return sv != 0;
    }
};
template <unsigned N>
struct extent_V {
    static constexpr char const* name = N == 0 ? "extent_v<T,0>" : N == 1 ? "extent_v<T,1>" : "extent_v<T,2>";
    static constexpr char const* form = "@";
    template <typename T>
    static constexpr bool ok = true;
    template <typename T>
    static constexpr bool gap = false;
    template <typename T>
    static constexpr long long e()
    {
        return static_cast<long long>(etl::extent_v<T, N>);
    }
    template <typename T>
    static constexpr long long s()
    {
        return static_cast<long long>(std::extent_v<T, N>);
    }
    template <typename T>
    static constexpr ShowFn show = nullptr;
    template <typename T>
    static constexpr bool nontrivial(long long sv)
    {
        return sv != 0;
    }
};
#endif

#if MC_PART == 2 || MC_PART == 0
C15_VALUE1(is_trivial, complete_ok<T>, false)
C15_VALUE1(is_trivially_copyable, complete_ok<T>, false)
C15_VALUE1(is_standard_layout, complete_ok<T>, false)
C15_VALUE1(has_unique_object_representations, complete_ok<T>, false)
C15_VALUE1(is_empty, complete_ok<T>, false)
C15_VALUE1(is_polymorphic, complete_ok<T>, false)
C15_VALUE1(is_abstract, complete_ok<T>, false)
C15_VALUE1(is_final, complete_ok<T>, false)
C15_VALUE1(is_aggregate, complete_ok<T>, false)
C15_VALUE1(has_virtual_destructor, complete_ok<T>, false)
C15_VALUE1(alignment_of, alignof_ok<T>, false)
#endif

#if MC_PART == 3 || MC_PART == 0
C15_VALUE1(is_default_constructible, complete_ok<T>, false)
C15_VALUE1(is_trivially_default_constructible, complete_ok<T>, false)
C15_VALUE1(is_nothrow_default_constructible, complete_ok<T> && !lwg2116<T>, false)
C15_VALUE1(is_copy_constructible, complete_ok<T>, false)
C15_VALUE1(is_trivially_copy_constructible, complete_ok<T>, false)
C15_VALUE1(is_nothrow_copy_constructible, complete_ok<T> && !lwg2116<T>, false)
C15_VALUE1(is_move_constructible, complete_ok<T>, false)
C15_VALUE1(is_trivially_move_constructible, complete_ok<T>, false)
C15_VALUE1(is_nothrow_move_constructible, complete_ok<T> && !lwg2116<T>, false)
C15_VALUE1(is_copy_assignable, complete_ok<T>, false)
C15_VALUE1(is_trivially_copy_assignable, complete_ok<T>, false)
C15_VALUE1(is_nothrow_copy_assignable, complete_ok<T>, false)
C15_VALUE1(is_move_assignable, complete_ok<T>, false)
C15_VALUE1(is_trivially_move_assignable, complete_ok<T>, false)
C15_VALUE1(is_nothrow_move_assignable, complete_ok<T>, false)
C15_VALUE1(is_destructible, complete_ok<T>, false)
C15_VALUE1(is_trivially_destructible, complete_ok<T>, false)
C15_VALUE1(is_nothrow_destructible, complete_ok<T>, false)
C15_VALUE1(is_swappable, complete_ok<T>, false)
C15_VALUE1(is_nothrow_swappable, complete_ok<T>, false)
#endif

#if MC_PART == 4 || MC_PART == 0
C15_TYPE1(remove_cv, true, false)
C15_TYPE1(remove_const, true, false)
C15_TYPE1(remove_volatile, true, false)
C15_TYPE1(add_cv, true, false)
C15_TYPE1(add_const, true, false)
C15_TYPE1(add_volatile, true, false)
C15_TYPE1(remove_reference, true, false)
C15_TYPE1(add_lvalue_reference, true, false)
C15_TYPE1(add_rvalue_reference, true, false)
C15_TYPE1(remove_pointer, true, false)
C15_TYPE1(add_pointer, true, false)
C15_TYPE1(make_signed, make_signed_ok<T>, false)
C15_TYPE1(make_unsigned, make_signed_ok<T>, false)
C15_TYPE1(remove_extent, true, false)
C15_TYPE1(remove_all_extents, true, false)
C15_TYPE1(decay, true, false)
C15_TYPE1(remove_cvref, true, false)
C15_TYPE1(underlying_type, complete_ok<T>, false)
C15_TYPE1(type_identity, true, false)
C15_TYPE1(common_type, complete_ok<T>, false)
C15_TYPE1(common_reference, true, false)
#endif

} // namespace c15

int main(int argc, char** argv)
{
    using namespace c15;
    using cases = wrap1_t<zoo_t>;
    mc::Main m(argc, argv);
#if MC_PART == 1 || MC_PART == 0
    m.job(C15_JOB("unary-primary-categories"), {"quick", "thorough"}, [](mc::Reporter& r) {
        run_columns<cases, is_void_S, is_void_V, is_null_pointer_S, is_null_pointer_V, is_integral_S, is_integral_V,
            is_floating_point_S, is_floating_point_V, is_array_S, is_array_V, is_enum_S, is_enum_V, is_union_S, is_union_V,
            is_class_S, is_class_V, is_function_S, is_function_V, is_pointer_S, is_pointer_V, is_lvalue_reference_S,
            is_lvalue_reference_V, is_rvalue_reference_S, is_rvalue_reference_V, is_member_object_pointer_S,
            is_member_object_pointer_V, is_member_function_pointer_S, is_member_function_pointer_V>(r);
    });
    m.job(C15_JOB("unary-composite-categories"), {"quick", "thorough"}, [](mc::Reporter& r) {
        run_columns<cases, is_fundamental_S, is_fundamental_V, is_arithmetic_S, is_arithmetic_V, is_scalar_S, is_scalar_V,
            is_object_S, is_object_V, is_compound_S, is_compound_V, is_reference_S, is_reference_V, is_member_pointer_S,
            is_member_pointer_V>(r);
    });
    m.job(C15_JOB("unary-cv-sign-shape"), {"quick", "thorough"}, [](mc::Reporter& r) {
        run_columns<cases, is_const_S, is_const_V, is_volatile_S, is_volatile_V, is_bounded_array_S, is_bounded_array_V,
            is_unbounded_array_S, is_unbounded_array_V, is_signed_S, is_signed_V, is_unsigned_S, is_unsigned_V,
            is_scoped_enum_S, is_scoped_enum_V, rank_S, rank_V, extent_S<0>, extent_V<0>, extent_S<1>, extent_V<1>,
            extent_S<2>, extent_V<2>>(r);
    });
#endif
#if MC_PART == 2 || MC_PART == 0
    m.job(C15_JOB("unary-class-properties"), {"quick", "thorough"}, [](mc::Reporter& r) {
        run_columns<cases, is_trivial_S, is_trivial_V, is_trivially_copyable_S, is_trivially_copyable_V,
            is_standard_layout_S, is_standard_layout_V, has_unique_object_representations_S,
            has_unique_object_representations_V, is_empty_S, is_empty_V, is_polymorphic_S, is_polymorphic_V, is_abstract_S,
            is_abstract_V, is_final_S, is_final_V, is_aggregate_S, is_aggregate_V, has_virtual_destructor_S,
            has_virtual_destructor_V, alignment_of_S, alignment_of_V>(r);
    });
#endif
#if MC_PART == 3 || MC_PART == 0
    m.job(C15_JOB("unary-construct"), {"quick", "thorough"}, [](mc::Reporter& r) {
        run_columns<cases, is_default_constructible_S, is_default_constructible_V, is_trivially_default_constructible_S,
            is_trivially_default_constructible_V, is_nothrow_default_constructible_S, is_nothrow_default_constructible_V,
            is_copy_constructible_S, is_copy_constructible_V, is_trivially_copy_constructible_S,
            is_trivially_copy_constructible_V, is_nothrow_copy_constructible_S, is_nothrow_copy_constructible_V,
            is_move_constructible_S, is_move_constructible_V, is_trivially_move_constructible_S,
            is_trivially_move_constructible_V, is_nothrow_move_constructible_S, is_nothrow_move_constructible_V>(r);
    });
    m.job(C15_JOB("unary-assign-destroy-swap"), {"quick", "thorough"}, [](mc::Reporter& r) {
        run_columns<cases, is_copy_assignable_S, is_copy_assignable_V, is_trivially_copy_assignable_S,
            is_trivially_copy_assignable_V, is_nothrow_copy_assignable_S, is_nothrow_copy_assignable_V, is_move_assignable_S,
            is_move_assignable_V, is_trivially_move_assignable_S, is_trivially_move_assignable_V,
            is_nothrow_move_assignable_S, is_nothrow_move_assignable_V, is_destructible_S, is_destructible_V,
            is_trivially_destructible_S, is_trivially_destructible_V, is_nothrow_destructible_S, is_nothrow_destructible_V,
            is_swappable_S, is_swappable_V, is_nothrow_swappable_S, is_nothrow_swappable_V>(r);
    });
#endif
#if MC_PART == 4 || MC_PART == 0
    m.job(C15_JOB("unary-transform-cv-ref-ptr"), {"quick", "thorough"}, [](mc::Reporter& r) {
        run_columns<cases, remove_cv_T, remove_cv_A, remove_const_T, remove_const_A, remove_volatile_T, remove_volatile_A,
            add_cv_T, add_cv_A, add_const_T, add_const_A, add_volatile_T, add_volatile_A, remove_reference_T,
            remove_reference_A, add_lvalue_reference_T, add_lvalue_reference_A, add_rvalue_reference_T,
            add_rvalue_reference_A, remove_pointer_T, remove_pointer_A, add_pointer_T, add_pointer_A>(r);
    });
    m.job(C15_JOB("unary-transform-other"), {"quick", "thorough"}, [](mc::Reporter& r) {
        run_columns<cases, make_signed_T, make_signed_A, make_unsigned_T, make_unsigned_A, remove_extent_T, remove_extent_A,
            remove_all_extents_T, remove_all_extents_A, decay_T, decay_A, remove_cvref_T, remove_cvref_A, underlying_type_T,
            underlying_type_A, type_identity_T, type_identity_A, common_type_T, common_type_A, common_reference_T,
            common_reference_A>(r);
    });
#endif
    return m.run();
}
