// C20 round 2, direction 5: pair / tuple / invoke / reference_wrapper / not_fn during CONSTANT EVALUATION.
// Every scenario is a constexpr function template over the library (etl or std) that pushes everything observable into
// a digest (element values, whether an element was copy- or move-constructed, the state of the sources afterwards,
// comparison results, which overload a callable was invoked through).  Compared:
//   constant evaluation of the tetl scenario  ==  the same tetl scenario executed at run time (called through a
//   volatile function pointer)  ==  the std scenario (constant-evaluated)
// Scenarios: pair construction (values, converting copy/move, copy, move), assignment (copy, move, converting), member
// and free swap, all six relations over all 81 ordered pairs of pair values from {0,1,2}^2, get<I> on four value
// categories, make_pair, structured bindings; tuple construction, copy, move, swap, == / != over all 729 ordered pairs
// from {0,1,2}^3, get<I>, apply, make_from_tuple, tuple_cat of 1-3 arguments of mixed value categories, make_tuple,
// tie, forward_as_tuple; invoke / invoke_r with closures, member function and member data pointers on object /
// pointer / reference_wrapper; reference_wrapper rebinding and call; not_fn in four value categories.
// The element type L records how it was constructed (1 = copy, 2 = move) and reads -1 once moved from.
//
// API gaps (probed with a requires-expression over a captureless lambda, written to the notes): inplace_function,
// function_ref and bind_front are not usable in constant expressions.
#include "mc.hpp"

#include <etl/utility.hpp> // first (see c20_tuple_states.cpp)

#include <etl/functional.hpp>
#include <etl/tuple.hpp>

#include <functional>
#include <string>
#include <tuple>
#include <type_traits>
#include <utility>

using mc::cat;

namespace {

struct Dig {
    int a[4096]{};
    int n{0};
    constexpr void push(int x)
    {
        if (n < 4096) { a[n] = x; }
        ++n;
    }
    constexpr bool operator==(Dig const& o) const
    {
        if (n != o.n) { return false; }
        for (int i = 0; i < n && i < 4096; ++i) {
            if (a[i] != o.a[i]) { return false; }
        }
        return true;
    }
};
std::string first_difference(Dig const& x, Dig const& y)
{
    if (x.n != y.n) { return cat("length ", x.n, " vs ", y.n); }
    for (int i = 0; i < x.n && i < 4096; ++i) {
        if (x.a[i] != y.a[i]) { return cat("entry ", i, ": ", x.a[i], " vs ", y.a[i]); }
    }
    return "none";
}

struct L {
    int v{0};
    int how{0}; // 0 = from a value, 1 = copy-constructed, 2 = move-constructed, +10 per copy assignment, +20 per move assignment
    constexpr L() = default;
    constexpr explicit(false) L(int x) : v(x) { }
    constexpr L(L const& o) : v(o.v), how(1) { }
    constexpr L(L&& o) noexcept : v(o.v), how(2) { o.v = -1; }
    constexpr L& operator=(L const& o)
    {
        v = o.v;
        how += 10;
        return *this;
    }
    constexpr L& operator=(L&& o) noexcept
    {
        int const t = o.v;
        o.v         = -1;
        v           = t;
        how += 20;
        return *this;
    }
    friend constexpr bool operator==(L const& a, L const& b) { return a.v == b.v; }
    friend constexpr bool operator<(L const& a, L const& b) { return a.v < b.v; }
};
constexpr void put(Dig& d, L const& x)
{
    d.push(x.v);
    d.push(x.how);
}
constexpr void put(Dig& d, int x) { d.push(x); }
constexpr void put(Dig& d, short x) { d.push(x); }
constexpr void put(Dig& d, bool x) { d.push(x ? 1 : 0); }

struct EtlLib {
    template <typename... T>
    using tuple = etl::tuple<T...>;
    template <typename A, typename B>
    using pair = etl::pair<A, B>;
    template <typename T>
    using reference_wrapper = etl::reference_wrapper<T>;
    template <std::size_t I, typename T>
    static constexpr decltype(auto) get(T&& t)
    {
        return etl::get<I>(std::forward<T>(t));
    }
    template <typename... T>
    static constexpr auto tuple_cat(T&&... t)
    {
        return etl::tuple_cat(std::forward<T>(t)...);
    }
    template <typename F, typename T>
    static constexpr decltype(auto) apply(F&& f, T&& t)
    {
        return etl::apply(std::forward<F>(f), std::forward<T>(t));
    }
    template <typename R, typename T>
    static constexpr R make_from_tuple(T&& t)
    {
        return etl::make_from_tuple<R>(std::forward<T>(t));
    }
    template <typename A, typename B>
    static constexpr auto make_pair(A&& a, B&& b)
    {
        return etl::make_pair(std::forward<A>(a), std::forward<B>(b));
    }
    template <typename... A>
    static constexpr auto make_tuple(A&&... a)
    {
        return etl::make_tuple(std::forward<A>(a)...);
    }
    template <typename... A>
    static constexpr auto tie(A&... a)
    {
        return etl::tie(a...);
    }
    template <typename... A>
    static constexpr auto forward_as_tuple(A&&... a)
    {
        return etl::forward_as_tuple(std::forward<A>(a)...);
    }
    template <typename T>
    static constexpr void swap2(T& a, T& b)
    {
        using etl::swap;
        swap(a, b);
    }
    template <typename F, typename... A>
    static constexpr decltype(auto) invoke(F&& f, A&&... a)
    {
        return etl::invoke(std::forward<F>(f), std::forward<A>(a)...);
    }
    template <typename R, typename F, typename... A>
    static constexpr R invoke_r(F&& f, A&&... a)
    {
        return etl::invoke_r<R>(std::forward<F>(f), std::forward<A>(a)...);
    }
    template <typename T>
    static constexpr auto ref(T& t)
    {
        return etl::ref(t);
    }
    template <typename T>
    static constexpr auto cref(T const& t)
    {
        return etl::cref(t);
    }
    template <typename F>
    static constexpr auto not_fn(F&& f)
    {
        return etl::not_fn(std::forward<F>(f));
    }
};
struct StdLib {
    template <typename... T>
    using tuple = std::tuple<T...>;
    template <typename A, typename B>
    using pair = std::pair<A, B>;
    template <typename T>
    using reference_wrapper = std::reference_wrapper<T>;
    template <std::size_t I, typename T>
    static constexpr decltype(auto) get(T&& t)
    {
        return std::get<I>(std::forward<T>(t));
    }
    template <typename... T>
    static constexpr auto tuple_cat(T&&... t)
    {
        return std::tuple_cat(std::forward<T>(t)...);
    }
    template <typename F, typename T>
    static constexpr decltype(auto) apply(F&& f, T&& t)
    {
        return std::apply(std::forward<F>(f), std::forward<T>(t));
    }
    template <typename R, typename T>
    static constexpr R make_from_tuple(T&& t)
    {
        return std::make_from_tuple<R>(std::forward<T>(t));
    }
    template <typename A, typename B>
    static constexpr auto make_pair(A&& a, B&& b)
    {
        return std::make_pair(std::forward<A>(a), std::forward<B>(b));
    }
    template <typename... A>
    static constexpr auto make_tuple(A&&... a)
    {
        return std::make_tuple(std::forward<A>(a)...);
    }
    template <typename... A>
    static constexpr auto tie(A&... a)
    {
        return std::tie(a...);
    }
    template <typename... A>
    static constexpr auto forward_as_tuple(A&&... a)
    {
        return std::forward_as_tuple(std::forward<A>(a)...);
    }
    template <typename T>
    static constexpr void swap2(T& a, T& b)
    {
        using std::swap;
        swap(a, b);
    }
    template <typename F, typename... A>
    static constexpr decltype(auto) invoke(F&& f, A&&... a)
    {
        return std::invoke(std::forward<F>(f), std::forward<A>(a)...);
    }
    template <typename R, typename F, typename... A>
    static constexpr R invoke_r(F&& f, A&&... a)
    {
        if constexpr (std::is_void_v<R>) {
            std::invoke(std::forward<F>(f), std::forward<A>(a)...);
        } else {
            return std::invoke(std::forward<F>(f), std::forward<A>(a)...);
        }
    }
    template <typename T>
    static constexpr auto ref(T& t)
    {
        return std::ref(t);
    }
    template <typename T>
    static constexpr auto cref(T const& t)
    {
        return std::cref(t);
    }
    template <typename F>
    static constexpr auto not_fn(F&& f)
    {
        return std::not_fn(std::forward<F>(f));
    }
};

// ---- scenarios -------------------------------------------------------------------------------
template <typename Lib, typename P>
constexpr void put_pair(Dig& d, P const& p)
{
    put(d, p.first);
    put(d, p.second);
}

template <typename Lib>
constexpr Dig pair_lifecycle()
{
    using P  = typename Lib::template pair<L, int>;
    using PU = typename Lib::template pair<int, short>;
    Dig d;
    P a;
    put_pair<Lib>(d, a);
    L l1(1);
    int const i2 = 2;
    P b(l1, i2); // (T1 const&, T2 const&)
    put_pair<Lib>(d, b);
    put(d, l1);
    P c(L(3), 4); // (U1&&, U2&&)
    put_pair<Lib>(d, c);
    PU const u(5, short(6));
    P e(u); // converting copy
    put_pair<Lib>(d, e);
    P f(PU(7, short(8))); // converting move
    put_pair<Lib>(d, f);
    P g(c); // copy
    put_pair<Lib>(d, g);
    put_pair<Lib>(d, c);
    P h(std::move(c)); // move
    put_pair<Lib>(d, h);
    put_pair<Lib>(d, c);
    a = b; // copy assignment
    put_pair<Lib>(d, a);
    a = std::move(h); // move assignment
    put_pair<Lib>(d, a);
    put_pair<Lib>(d, h);
    a = u; // converting copy assignment
    put_pair<Lib>(d, a);
    a = PU(9, short(10)); // converting move assignment
    put_pair<Lib>(d, a);
    a.swap(b);
    put_pair<Lib>(d, a);
    put_pair<Lib>(d, b);
    Lib::swap2(a, b);
    put_pair<Lib>(d, a);
    put_pair<Lib>(d, b);
    auto m = Lib::make_pair(L(11), 12);
    static_assert(std::is_same_v<decltype(m), P>);
    put_pair<Lib>(d, m);
    // get on four value categories: names the members
    put(d, &Lib::template get<0>(a) == &a.first && &Lib::template get<1>(a) == &a.second);
    put(d, &Lib::template get<0>(std::as_const(a)) == &a.first);
    L taken = Lib::template get<0>(std::move(a)); // moves the element out
    put(d, taken);
    put_pair<Lib>(d, a);
    L copied = Lib::template get<0>(std::move(std::as_const(b))); // const rvalue: copies
    put(d, copied);
    put_pair<Lib>(d, b);
    // structured bindings
    auto [x, y] = b;
    put(d, x);
    put(d, y);
    auto&& [rx, ry] = std::move(b);
    put(d, &rx == &b.first && &ry == &b.second);
    return d;
}

template <typename Lib>
constexpr Dig pair_relations()
{
    using P = typename Lib::template pair<L, int>;
    Dig d;
    for (int a = 0; a < 9; ++a) {
        for (int b = 0; b < 9; ++b) {
            P const x(L(a / 3), a % 3);
            P const y(L(b / 3), b % 3);
            int bits = 0;
            bits |= (x == y) ? 1 : 0;
            bits |= (x != y) ? 2 : 0;
            bits |= (x < y) ? 4 : 0;
            bits |= (x <= y) ? 8 : 0;
            bits |= (x > y) ? 16 : 0;
            bits |= (x >= y) ? 32 : 0;
            d.push(bits);
        }
    }
    return d;
}

template <typename Lib, typename T>
constexpr void put_tuple3(Dig& d, T const& t)
{
    put(d, Lib::template get<0>(t));
    put(d, Lib::template get<1>(t));
    put(d, Lib::template get<2>(t));
}

struct Made {
    L a;
    int b;
    short c;
    constexpr Made(L x, int y, short z) : a(std::move(x)), b(y), c(z) { }
};

template <typename Lib>
constexpr Dig tuple_lifecycle()
{
    using T = typename Lib::template tuple<L, int, short>;
    Dig d;
    T a;
    put_tuple3<Lib>(d, a);
    L l1(1);
    int const i2   = 2;
    short const s3 = 3;
    T b(l1, i2, s3);
    put_tuple3<Lib>(d, b);
    put(d, l1);
    T c(L(4), 5, short(6));
    put_tuple3<Lib>(d, c);
    T e(7, 8L, 'a'); // converting element construction
    put_tuple3<Lib>(d, e);
    T g(c);
    put_tuple3<Lib>(d, g);
    T h(std::move(c));
    put_tuple3<Lib>(d, h);
    put_tuple3<Lib>(d, c);
    g.swap(b);
    put_tuple3<Lib>(d, g);
    put_tuple3<Lib>(d, b);
    auto m = Lib::make_tuple(L(9), 10, short(11));
    static_assert(std::is_same_v<decltype(m), T>);
    put_tuple3<Lib>(d, m);
    // get
    put(d, &Lib::template get<1>(std::as_const(g)) == &Lib::template get<1>(g));
    L taken = Lib::template get<0>(std::move(g));
    put(d, taken);
    put_tuple3<Lib>(d, g);
    // apply on four categories: the consumer takes the L by value (copy from lvalues / const rvalues, move from rvalues)
    auto consume = [](L x, int y, short z) { return x.v * 10000 + x.how * 1000 + y * 10 + z; };
    put(d, Lib::apply(consume, h));
    put_tuple3<Lib>(d, h);
    put(d, Lib::apply(consume, std::as_const(h)));
    put(d, Lib::apply(consume, std::move(std::as_const(h))));
    put(d, Lib::apply(consume, std::move(h)));
    put_tuple3<Lib>(d, h);
    // make_from_tuple
    Made const m1 = Lib::template make_from_tuple<Made>(b);
    put(d, m1.a);
    put(d, m1.b);
    put(d, m1.c);
    Made const m2 = Lib::template make_from_tuple<Made>(std::move(b));
    put(d, m2.a);
    put_tuple3<Lib>(d, b);
    // tuple_cat of 1-3 arguments of mixed categories
    T p(L(1), 2, short(3));
    T q(L(4), 5, short(6));
    typename Lib::template pair<L, int> r(L(7), 8);
    auto c1 = Lib::tuple_cat(p);
    put_tuple3<Lib>(d, c1);
    put_tuple3<Lib>(d, p);
    auto c2 = Lib::tuple_cat(std::move(p), std::as_const(q));
    put(d, Lib::template get<0>(c2));
    put(d, Lib::template get<3>(c2));
    put(d, Lib::template get<5>(c2));
    put_tuple3<Lib>(d, p);
    put_tuple3<Lib>(d, q);
    auto c3 = Lib::tuple_cat(q, std::move(r), Lib::make_tuple(9));
    static_assert(std::is_same_v<std::remove_cvref_t<decltype(Lib::template get<5>(c3))>, int>);
    put(d, Lib::template get<0>(c3));
    put(d, Lib::template get<3>(c3));
    put(d, Lib::template get<4>(c3));
    put(d, Lib::template get<5>(c3));
    put(d, r.first);
    // tie / forward_as_tuple alias their arguments
    int i = 1;
    L l(2);
    auto t = Lib::tie(i, l);
    Lib::template get<0>(t) = 42;
    put(d, i);
    put(d, &Lib::template get<1>(t) == &l);
    auto&& fw = Lib::forward_as_tuple(i, std::move(l));
    static_assert(std::is_same_v<decltype(Lib::template get<1>(std::move(fw))), L&&>);
    L moved_out = Lib::template get<1>(std::move(fw));
    put(d, moved_out);
    put(d, l);
    return d;
}

template <typename Lib>
constexpr Dig tuple_equality()
{
    using T = typename Lib::template tuple<L, int, short>;
    using U = typename Lib::template tuple<int, long, int>;
    Dig d;
    int eq = 0, ne = 0, mixed = 0;
    for (int a = 0; a < 27; ++a) {
        for (int b = 0; b < 27; ++b) {
            T const x(L(a / 9), (a / 3) % 3, short(a % 3));
            T const y(L(b / 9), (b / 3) % 3, short(b % 3));
            U const z(b / 9, (b / 3) % 3, b % 3);
            bool const e = x == y;
            bool const n = x != y;
            bool const m = x == z;
            d.push((e ? 1 : 0) | (n ? 2 : 0) | (m ? 4 : 0));
            eq += e ? 1 : 0;
            ne += n ? 1 : 0;
            mixed += m ? 1 : 0;
        }
    }
    d.push(eq);
    d.push(ne);
    d.push(mixed);
    return d;
}

struct Obj {
    int v;
    int data;
    constexpr int mf(int x) { return v * 10 + x; }
    constexpr int cmf(int x) const { return v * 100 + x; }
    constexpr int rmf(int x) && { return v * 1000 + x; }
};
struct Quals {
    constexpr int operator()(int x) & { return 1000 + x; }
    constexpr int operator()(int x) const& { return 2000 + x; }
    constexpr int operator()(int x) && { return 3000 + x; }
    constexpr int operator()(int x) const&& { return 4000 + x; }
};
struct BoolQuals {
    constexpr bool operator()(int x) & { return x == 1; }
    constexpr bool operator()(int x) const& { return x == 2; }
    constexpr bool operator()(int x) && { return x == 3; }
    constexpr bool operator()(int x) const&& { return x == 4; }
};

template <typename Lib>
constexpr Dig callables()
{
    Dig d;
    Quals q;
    Quals const cq;
    d.push(Lib::invoke(q, 1));
    d.push(Lib::invoke(cq, 2));
    d.push(Lib::invoke(std::move(q), 3));
    d.push(Lib::invoke(std::move(cq), 4));
    d.push(static_cast<int>(Lib::template invoke_r<long>(q, 5)));
    Lib::template invoke_r<void>(q, 6);
    int captured = 10;
    auto lam     = [&captured](int x) { return captured += x; };
    d.push(Lib::invoke(lam, 5));
    d.push(captured);
    Obj o{1, 11};
    Obj const co{2, 22};
    Obj* po = &o;
    d.push(Lib::invoke(&Obj::mf, o, 4));
    d.push(Lib::invoke(&Obj::cmf, co, 4));
    d.push(Lib::invoke(&Obj::rmf, std::move(o), 4));
    d.push(Lib::invoke(&Obj::mf, po, 4));
    d.push(Lib::invoke(&Obj::mf, Lib::ref(o), 4));
    d.push(Lib::invoke(&Obj::cmf, Lib::cref(o), 4));
    d.push(Lib::invoke(&Obj::data, o));
    d.push(Lib::invoke(&Obj::data, po));
    d.push(Lib::invoke(&Obj::data, Lib::ref(o)));
    Lib::invoke(&Obj::data, o) = 99;
    d.push(o.data);
    d.push(static_cast<int>(Lib::template invoke_r<long>(&Obj::data, co)));
    // reference_wrapper: get, conversion, rebinding, call
    int a = 1, b = 2;
    auto r = Lib::ref(a);
    r.get() += 10;
    d.push(a);
    int& conv = r;
    d.push(&conv == &a);
    r = Lib::ref(b);
    d.push(&r.get() == &b);
    d.push(a);
    auto rc = Lib::cref(a);
    d.push(rc.get());
    auto rq  = Lib::ref(q);
    auto rcq = Lib::cref(q);
    d.push(rq(7));
    d.push(rcq(8));
    d.push(std::as_const(rq)(9));
    // not_fn in four categories
    auto nf        = Lib::not_fn(BoolQuals{});
    auto const cnf = Lib::not_fn(BoolQuals{});
    for (int x = 1; x <= 4; ++x) {
        put(d, nf(x));
        put(d, cnf(x));
        put(d, std::move(nf)(x));
        put(d, std::move(cnf)(x));
    }
    auto nm = Lib::not_fn(&Obj::cmf);
    put(d, nm(co, 0));
    put(d, nm(Obj{0, 0}, 0));
    return d;
}

template <typename L_>
constexpr bool usable_in_constant_expression(L_)
{
    return requires { typename std::bool_constant<(L_{}(), true)>; };
}

using Scenario = Dig (*)();
template <Scenario E, Scenario S>
void scenario(mc::Reporter& r, std::string const& subject, std::string const& name)
{
    static constexpr Dig ct_etl = E();
    static constexpr Dig ct_std = S();
    Scenario volatile run_time  = E;
    Dig const rt_etl            = run_time();
    r.count("evaluations", 2);
    r.count("distinct_nontrivial", 2);
    r.count("comparisons", 2 * static_cast<std::uint64_t>(ct_std.n));
    r.outcome(mc::hash_str(cat(name, ct_std.n)));
    if (r.wants_sample()) { r.sample(cat(name, ": ", ct_std.n, " observations, first ", ct_std.a[0], ",", ct_std.a[1], ",", ct_std.a[2], ",", ct_std.a[3])); }
    if (!(ct_etl == rt_etl)) {
        r.violation("C20", subject, "constant_evaluation_vs_run_time", name, cat("tetl constant evaluation differs from tetl at run time: first difference ", first_difference(ct_etl, rt_etl)));
    }
    if (!(ct_etl == ct_std)) {
        r.violation("C20", subject, "constant_evaluation_vs_std", name, cat("tetl constant evaluation differs from std: first difference (tetl vs std) ", first_difference(ct_etl, ct_std)));
    }
    if (ct_std.n > 4096) { r.violation("C20", subject, "harness", name, "digest overflow"); }
}

int plain_fn(int x) { return x + 1; }

} // namespace

int main(int argc, char** argv)
{
    mc::Main m(argc, argv);
    m.job("constant-evaluation/pair+tuple+callables", {"quick", "thorough"}, [](mc::Reporter& r) {
        scenario<&pair_lifecycle<EtlLib>, &pair_lifecycle<StdLib>>(r, "pair (constant evaluation)", "pair construction / assignment / swap / get / bindings");
        scenario<&pair_relations<EtlLib>, &pair_relations<StdLib>>(r, "pair relational operators (constant evaluation)", "six relations over 81 ordered pairs");
        scenario<&tuple_lifecycle<EtlLib>, &tuple_lifecycle<StdLib>>(r, "tuple (constant evaluation)", "tuple construction / swap / get / apply / make_from_tuple / tuple_cat / tie");
        scenario<&tuple_equality<EtlLib>, &tuple_equality<StdLib>>(r, "tuple::operator== (constant evaluation)", "== and != over 729 ordered pairs, mixed element types");
        scenario<&callables<EtlLib>, &callables<StdLib>>(r, "invoke / reference_wrapper / not_fn (constant evaluation)", "invoke, invoke_r, member pointers, reference_wrapper, not_fn");
        // what cannot be constant-evaluated at all (API gaps, never violations)
        bool const ipf = usable_in_constant_expression([] {
            etl::inplace_function<int(int)> f{[](int x) { return x; }};
            return f(1);
        });
        bool const fr  = usable_in_constant_expression([] {
            etl::function_ref<int(int)> f{plain_fn};
            return 0;
        });
        bool const bf  = usable_in_constant_expression([] {
            auto b = etl::bind_front([](int a, int b) { return a + b; }, 1);
            return b(2);
        });
        bool const sbf = usable_in_constant_expression([] {
            auto b = std::bind_front([](int a, int b) { return a + b; }, 1);
            return b(2);
        });
        r.count("api_presence_checks", 3);
        r.note(cat("constant evaluation: inplace_function with a captureless lambda usable=", ipf, ", function_ref usable=", fr, ", bind_front usable=", bf, " (std::bind_front usable=", sbf,
            "): API differences, not violations"));
    });
    return m.run();
}
