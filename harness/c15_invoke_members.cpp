// C15, is_invocable / is_invocable_r / invoke_result / invocable for POINTER-TO-MEMBER callables over every kind of
// object argument INVOKE knows (added after seeded breakage c15_invoke_const_reference_wrapper: the object argument
// was classified with remove_reference_t instead of decay_t, so a CONST reference_wrapper was no longer unwrapped;
// the main table has no reference_wrapper arguments because etl and std only recognise their own wrapper).
// Not enumerated: member FUNCTIONS of a union - libstdc++ 12 tests only is_base_of there (no is_same), so the oracle
// itself deviates from [func.require]; union data members are in.
// Enumerated: 11 member-pointer callables (data members, member functions with cv/ref/noexcept qualifiers, of a
// class, of its base, of a union) x 33 object-argument kinds (objects, references, pointers, derived classes, a
// pointer-like class with operator*, reference_wrapper<X> / <X const> / <Derived> in every cv/ref flavour, an
// unrelated class) x 3 trailing argument lists; the reference_wrapper kinds are instantiated with
// etl::reference_wrapper on the etl side and std::reference_wrapper on the std side.  Every cell is a table entry
// computed at compile time: {std invocable, etl invocable, same result type, is_invocable_r<int> agree,
// invocable concept agrees}.
#include "mc.hpp"

#include <etl/concepts.hpp>
#include <etl/functional.hpp>
#include <etl/type_traits.hpp>

#include <array>
#include <concepts>
#include <functional>
#include <string>
#include <tuple>
#include <type_traits>
#include <utility>

using mc::cat;

namespace {

struct Base {
    int bm{0};
    int bf(int) { return 0; }
};
struct X : Base {
    int m{0};
    int const cm{0};
    int f(int) { return 0; }
    int fc(int) const { return 0; }
    int fl(int) & { return 0; }
    int fr(int) && { return 0; }
    void fn() noexcept { }
};
struct D : X { };
union U {
    int um;
    float uf;
    int ufn(int) { return 0; }
};
struct Other { };
struct PtrLike {
    X& operator*() const;
};
struct PtrToConst {
    X const& operator*() const;
};

// the wrapper family of one library
struct EtlLib {
    template <typename T>
    using rw = etl::reference_wrapper<T>;
    template <typename F, typename... A>
    static constexpr bool inv = etl::is_invocable_v<F, A...>;
    template <typename F, typename... A>
    static constexpr bool inv_s = etl::is_invocable<F, A...>::value;
    template <typename R, typename F, typename... A>
    static constexpr bool inv_r = etl::is_invocable_r_v<R, F, A...>;
    template <typename F, typename... A>
    static constexpr bool conc = etl::invocable<F, A...>;
    template <typename F, typename... A>
    static constexpr bool has_result = requires { typename etl::invoke_result<F, A...>::type; };
    template <typename F, typename... A>
    using result = typename etl::invoke_result<F, A...>::type;
};
struct StdLib {
    template <typename T>
    using rw = std::reference_wrapper<T>;
    template <typename F, typename... A>
    static constexpr bool inv = std::is_invocable_v<F, A...>;
    template <typename F, typename... A>
    static constexpr bool inv_s = std::is_invocable<F, A...>::value;
    template <typename R, typename F, typename... A>
    static constexpr bool inv_r = std::is_invocable_r_v<R, F, A...>;
    template <typename F, typename... A>
    static constexpr bool conc = std::invocable<F, A...>;
    template <typename F, typename... A>
    static constexpr bool has_result = requires { typename std::invoke_result<F, A...>::type; };
    template <typename F, typename... A>
    using result = typename std::invoke_result<F, A...>::type;
};

constexpr std::size_t NOBJ = 37; // 33..36 added in round 2: volatile object, pointer to const derived, rvalue pointer-like, pointer-like to const
constexpr char const* obj_names[NOBJ] = {"X", "X&", "X const&", "X&&", "X const", "X*", "X const*", "X* const&", "D", "D&", "D const&", "D*", "U", "U&", "U const&", "U*",
    "Other&", "Other*", "PtrLike", "PtrLike const&", "reference_wrapper<X>", "reference_wrapper<X>&", "reference_wrapper<X> const", "reference_wrapper<X> const&",
    "reference_wrapper<X> const&&", "reference_wrapper<X>&&", "reference_wrapper<X const>", "reference_wrapper<X const> const&", "reference_wrapper<D>",
    "reference_wrapper<D> const&", "reference_wrapper<U>", "reference_wrapper<U> const&", "reference_wrapper<Other> const&", "X volatile&", "D const*", "PtrLike&&",
    "PtrToConst"};

template <typename L, std::size_t I>
struct Obj;
#define OBJ(i, ...)                                                                                                                                                            \
    template <typename L>                                                                                                                                                      \
    struct Obj<L, i> {                                                                                                                                                         \
        using type = __VA_ARGS__;                                                                                                                                              \
    };
OBJ(0, X)
OBJ(1, X&)
OBJ(2, X const&)
OBJ(3, X&&)
OBJ(4, X const)
OBJ(5, X*)
OBJ(6, X const*)
OBJ(7, X* const&)
OBJ(8, D)
OBJ(9, D&)
OBJ(10, D const&)
OBJ(11, D*)
OBJ(12, U)
OBJ(13, U&)
OBJ(14, U const&)
OBJ(15, U*)
OBJ(16, Other&)
OBJ(17, Other*)
OBJ(18, PtrLike)
OBJ(19, PtrLike const&)
OBJ(20, typename L::template rw<X>)
OBJ(21, typename L::template rw<X>&)
OBJ(22, typename L::template rw<X> const)
OBJ(23, typename L::template rw<X> const&)
OBJ(24, typename L::template rw<X> const&&)
OBJ(25, typename L::template rw<X>&&)
OBJ(26, typename L::template rw<X const>)
OBJ(27, typename L::template rw<X const> const&)
OBJ(28, typename L::template rw<D>)
OBJ(29, typename L::template rw<D> const&)
OBJ(30, typename L::template rw<U>)
OBJ(31, typename L::template rw<U> const&)
OBJ(32, typename L::template rw<Other> const&)
OBJ(33, X volatile&)
OBJ(34, D const*)
OBJ(35, PtrLike&&)
OBJ(36, PtrToConst)
#undef OBJ

constexpr std::size_t NF = 11;
constexpr char const* f_names[NF] = {"int X::*", "int const X::*", "int Base::*", "int U::*", "int (X::*)(int)", "int (X::*)(int) const", "int (X::*)(int) &",
    "int (X::*)(int) &&", "void (X::*)() noexcept", "int (Base::*)(int)", "int (X::* const&)(int) const"};
template <std::size_t I>
struct Fn;
#define FN(i, ...)                                                                                                                                                             \
    template <>                                                                                                                                                                \
    struct Fn<i> {                                                                                                                                                             \
        using type = __VA_ARGS__;                                                                                                                                              \
    };
FN(0, int X::*)
FN(1, int const X::*)
FN(2, int Base::*)
FN(3, int U::*)
FN(4, int (X::*)(int))
FN(5, int (X::*)(int) const)
FN(6, int (X::*)(int) &)
FN(7, int (X::*)(int) &&)
FN(8, void (X::*)() noexcept)
FN(9, int (Base::*)(int))
FN(10, int (X::* const&)(int) const)
#undef FN

constexpr std::size_t NT = 3; // trailing arguments: none, (int), (int,int)
constexpr char const* t_names[NT] = {"", ", int", ", int, int"};

struct Cell {
    bool s_inv, e_inv, e_inv_s, same_type, s_r, e_r, s_c, e_c, e_has;
};

template <typename L, typename F, typename O, std::size_t T>
struct Probe {
    static constexpr bool inv   = T == 0 ? L::template inv<F, O> : (T == 1 ? L::template inv<F, O, int> : L::template inv<F, O, int, int>);
    static constexpr bool inv_s = T == 0 ? L::template inv_s<F, O> : (T == 1 ? L::template inv_s<F, O, int> : L::template inv_s<F, O, int, int>);
    static constexpr bool inv_r = T == 0 ? L::template inv_r<int, F, O> : (T == 1 ? L::template inv_r<int, F, O, int> : L::template inv_r<int, F, O, int, int>);
    static constexpr bool conc  = T == 0 ? L::template conc<F, O> : (T == 1 ? L::template conc<F, O, int> : L::template conc<F, O, int, int>);
    static constexpr bool has   = T == 0 ? L::template has_result<F, O> : (T == 1 ? L::template has_result<F, O, int> : L::template has_result<F, O, int, int>);
};
template <typename L, typename F, typename O, std::size_t T>
struct ResultOf;
template <typename L, typename F, typename O>
struct ResultOf<L, F, O, 0> {
    using type = typename L::template result<F, O>;
};
template <typename L, typename F, typename O>
struct ResultOf<L, F, O, 1> {
    using type = typename L::template result<F, O, int>;
};
template <typename L, typename F, typename O>
struct ResultOf<L, F, O, 2> {
    using type = typename L::template result<F, O, int, int>;
};

template <std::size_t FI, std::size_t OI, std::size_t T>
constexpr Cell cell()
{
    using F  = typename Fn<FI>::type;
    using EO = typename Obj<EtlLib, OI>::type;
    using SO = typename Obj<StdLib, OI>::type;
    using PE = Probe<EtlLib, F, EO, T>;
    using PS = Probe<StdLib, F, SO, T>;
    bool same = true;
    if constexpr (PE::has && PS::has) { same = std::is_same_v<typename ResultOf<EtlLib, F, EO, T>::type, typename ResultOf<StdLib, F, SO, T>::type>; }
    return {PS::inv, PE::inv, PE::inv_s, same, PS::inv_r, PE::inv_r, PS::conc, PE::conc, PE::has};
}

template <std::size_t FI>
constexpr auto table_for()
{
    std::array<Cell, NOBJ * NT> t{};
    [&]<std::size_t... K>(std::index_sequence<K...>) { ((t[K] = cell<FI, K / NT, K % NT>()), ...); }(std::make_index_sequence<NOBJ * NT>{});
    return t;
}

// ---------------------------------------------------------------------------------------------------------------
// round 2: unwrap_reference / unwrap_ref_decay (both spellings).  Like INVOKE, each library only knows its own
// reference_wrapper, so the argument list is built per library and a result is encoded as its index in a per-library
// candidate list (every argument type and every type one of the two traits can produce from it).
template <typename L>
struct UnwrapLists {
    template <typename T>
    using rw   = typename L::template rw<T>;
    using args = std::tuple<int*, int, int&, int const, int const&, int&&, X, X&, int[3], int (&)[3], void(), void (&)(), rw<int>, rw<int>&, rw<int> const,
        rw<int> const&, rw<int>&&, rw<int> volatile, rw<int> const volatile&, rw<int const>, rw<int const> const&, rw<X>, rw<X const>&&, rw<rw<int>>,
        rw<rw<int>> const&, rw<int>*, rw<int>[2], rw<int> (&)[2], rw<void()>, rw<int[3]> const&>;
    // candidates: the arguments themselves, then what decay / unwrapping adds
    using extra = std::tuple<int const&, X const&, int*, void (*)(), rw<int>&, rw<int>*, rw<int>* const, int const, X, void (&)(), int (&)[3], rw<int>**, rw<rw<int>>>;
};
constexpr std::size_t NUW = std::tuple_size_v<UnwrapLists<StdLib>::args>;
constexpr char const* uw_names[NUW] = {"int*", "int", "int&", "int const", "int const&", "int&&", "X", "X&", "int[3]", "int (&)[3]", "void()", "void (&)()",
    "reference_wrapper<int>", "reference_wrapper<int>&", "reference_wrapper<int> const", "reference_wrapper<int> const&", "reference_wrapper<int>&&",
    "reference_wrapper<int> volatile", "reference_wrapper<int> const volatile&", "reference_wrapper<int const>", "reference_wrapper<int const> const&",
    "reference_wrapper<X>", "reference_wrapper<X const>&&", "reference_wrapper<reference_wrapper<int>>", "reference_wrapper<reference_wrapper<int>> const&",
    "reference_wrapper<int>*", "reference_wrapper<int>[2]", "reference_wrapper<int> (&)[2]", "reference_wrapper<void()>", "reference_wrapper<int[3]> const&"};

template <typename T, typename Tuple>
struct index_in;
template <typename T, typename... C>
struct index_in<T, std::tuple<C...>> {
    static constexpr int value = [] {
        bool const hit[] = {std::is_same_v<T, C>...};
        for (std::size_t i = 0; i < sizeof...(C); ++i) {
            if (hit[i]) { return int(i); }
        }
        return -1;
    }();
};
template <typename L, typename T>
constexpr int code_of()
{
    using A = typename UnwrapLists<L>::args;
    using E = typename UnwrapLists<L>::extra;
    if constexpr (index_in<T, A>::value >= 0) {
        return index_in<T, A>::value;
    } else if constexpr (index_in<T, E>::value >= 0) {
        return 100 + index_in<T, E>::value;
    } else {
        return -1;
    }
}
struct UwCell {
    int s_u, e_u, e_ut, s_d, e_d, e_dt; // unwrap_reference (std, etl ::type, etl _t), unwrap_ref_decay
};
template <std::size_t I>
constexpr UwCell uw_cell()
{
    using SA = std::tuple_element_t<I, UnwrapLists<StdLib>::args>;
    using EA = std::tuple_element_t<I, UnwrapLists<EtlLib>::args>;
    return {code_of<StdLib, typename std::unwrap_reference<SA>::type>(), code_of<EtlLib, typename etl::unwrap_reference<EA>::type>(),
        code_of<EtlLib, etl::unwrap_reference_t<EA>>(), code_of<StdLib, typename std::unwrap_ref_decay<SA>::type>(),
        code_of<EtlLib, typename etl::unwrap_ref_decay<EA>::type>(), code_of<EtlLib, etl::unwrap_ref_decay_t<EA>>()};
}
constexpr auto uw_table()
{
    std::array<UwCell, NUW> t{};
    [&]<std::size_t... K>(std::index_sequence<K...>) { ((t[K] = uw_cell<K>()), ...); }(std::make_index_sequence<NUW>{});
    return t;
}

} // namespace

int main(int argc, char** argv)
{
    mc::Main m(argc, argv);
    m.job("unwrap-reference", {"quick", "thorough"}, [](mc::Reporter& r) {
        static constexpr auto t = uw_table();
        std::uint64_t ev = 0, nt = 0;
        for (std::size_t k = 0; k < t.size(); ++k) {
            UwCell const& c       = t[k];
            std::string const a   = cat("<", uw_names[k], ">");
            bool const wrapper    = std::string(uw_names[k]).rfind("reference_wrapper", 0) == 0;
            std::string const cls = !wrapper ? "not_a_wrapper" : (std::string(uw_names[k]).find_first_of("&*[", std::string(uw_names[k]).rfind('>')) != std::string::npos ? "wrapper_ref_ptr_array" : (std::string(uw_names[k]).find("const", std::string(uw_names[k]).rfind('>')) != std::string::npos || std::string(uw_names[k]).find("volatile", std::string(uw_names[k]).rfind('>')) != std::string::npos ? "cv_wrapper" : "wrapper"));
            ev += 4;
            if (c.s_u != int(k)) { ++nt; }
            if (c.s_d != int(k)) { ++nt; }
            r.outcome(mc::hash_str(cat(c.s_u, "/", c.s_d)));
            if (c.s_u < 0 || c.s_d < 0) {
                r.not_exhaustive(cat("harness: std result of unwrap_reference / unwrap_ref_decay", a, " is not in the candidate list"));
                continue;
            }
            if (c.e_u != c.s_u) { r.violation("C15", "unwrap_reference<T>::type", cls, cat("unwrap_reference", a, "::type"), cat("result code etl ", c.e_u, ", std ", c.s_u, " (index in the argument list; 100+ = decayed / unwrapped candidates; -1 = another type)")); }
            if (c.e_ut != c.s_u) { r.violation("C15", "unwrap_reference_t<T>", cls, cat("unwrap_reference_t", a), cat("result code etl ", c.e_ut, ", std ", c.s_u)); }
            if (c.e_d != c.s_d) { r.violation("C15", "unwrap_ref_decay<T>::type", cls, cat("unwrap_ref_decay", a, "::type"), cat("result code etl ", c.e_d, ", std ", c.s_d)); }
            if (c.e_dt != c.s_d) { r.violation("C15", "unwrap_ref_decay_t<T>", cls, cat("unwrap_ref_decay_t", a), cat("result code etl ", c.e_dt, ", std ", c.s_d)); }
        }
        r.sample("unwrap_ref_decay<reference_wrapper<int> const&> -> int& ... 30 argument types x {unwrap_reference, unwrap_ref_decay} x {::type, _t}");
        r.count("evaluations", ev);
        r.count("distinct_nontrivial", nt);
    });
    m.job("invoke-member-pointers", {"quick", "thorough"}, [](mc::Reporter& r) {
        std::uint64_t ev = 0, nt = 0;
        [&]<std::size_t... FI>(std::index_sequence<FI...>) {
            (([&] {
                static constexpr auto t = table_for<FI>();
                for (std::size_t k = 0; k < t.size(); ++k) {
                    Cell const& c       = t[k];
                    std::string const a = cat("<", f_names[FI], ", ", obj_names[k / NT], t_names[k % NT], ">");
                    // class of the case: kind of object argument
                    std::string const oc = std::string(obj_names[k / NT]).rfind("reference_wrapper", 0) == 0
                                             ? (std::string(obj_names[k / NT]).find("const", std::string(obj_names[k / NT]).find('>')) != std::string::npos ? "const_reference_wrapper" : "reference_wrapper")
                                             : ((k / NT >= 12 && k / NT <= 15) || FI == 3 ? "union" : "object_or_pointer");
                    ev += 5;
                    if (c.s_inv) { ++nt; }
                    r.outcome(mc::hash_str(cat(c.s_inv, c.s_r, c.s_c, c.same_type)));
                    if (c.e_inv != c.s_inv || c.e_inv_s != c.s_inv) { r.violation("C15", "is_invocable", oc, cat("is_invocable", a), cat("etl ", c.e_inv, " (::value ", c.e_inv_s, "), std ", c.s_inv)); }
                    if (c.e_has != c.s_inv) { r.violation("C15", "invoke_result", oc, cat("invoke_result", a), cat("etl has ::type: ", c.e_has, ", std: ", c.s_inv)); }
                    if (!c.same_type) { r.violation("C15", "invoke_result", cat(oc, "+different_type"), cat("invoke_result", a), "etl and std name different result types"); }
                    if (c.e_r != c.s_r) { r.violation("C15", "is_invocable_r", oc, cat("is_invocable_r<int, ", a.substr(1)), cat("etl ", c.e_r, ", std ", c.s_r)); }
                    if (c.e_c != c.s_c) { r.violation("C15", "invocable", oc, cat("invocable", a), cat("etl ", c.e_c, ", std ", c.s_c)); }
                }
            }()),
                ...);
        }(std::make_index_sequence<NF>{});
        r.sample("is_invocable<int (X::*)(int) const, reference_wrapper<X> const&, int> ... 11 member pointers x 37 object kinds x 3 trailing lists");
        r.count("evaluations", ev);
        r.count("distinct_nontrivial", nt);
    });
    return m.run();
}
