// C19 shared support: compile-time generation of etl::extents types from pattern numbers,
// closed-form reference (nested-loop row-/column-major/strided offsets), type-erased
// observations so that the heavily instantiated template code stays thin.
#pragma once
#include "mc.hpp"

#include <etl/array.hpp>
#include <etl/mdspan.hpp>
#include <etl/span.hpp>

#include <array>
#include <cstdint>
#include <limits>
#include <string>
#include <type_traits>
#include <utility>
#include <vector>

#if defined(MC_FLAVOUR_SAN)
// ASan in recover mode keeps a table of 25 reporting PCs and calls Die() when a 26th distinct
// PC reports (suppress_equal_pcs).  Every extents type has its own copy of the reporting code,
// so an unrepaired constructor exceeds that at once; switch the table off (the environment
// options of check.py are merged over these defaults).
extern "C" __attribute__((used, visibility("default"))) char const* __asan_default_options() { return "suppress_equal_pcs=0:print_legend=0"; } // one TU per binary
#endif

namespace c19 {

using ll  = long long;
using ull = unsigned long long;
using mc::cat;

inline constexpr std::size_t dyn = etl::dynamic_extent;
inline constexpr std::size_t DC  = 9; // pattern code of a dynamic dimension (static codes are the extent itself)

// ----------------------------------------------------------------------------------------
// pattern number -> extents type.  A pattern of rank R over an alphabet A (list of codes) is
// the number N in [0, |A|^R), most significant digit = dimension 0.
// ----------------------------------------------------------------------------------------
template <std::size_t... Cs>
struct alpha {
    static constexpr std::size_t n = sizeof...(Cs);
    static constexpr std::size_t at(std::size_t i)
    {
        constexpr std::size_t t[sizeof...(Cs)] = {Cs...};
        return t[i];
    }
};

constexpr std::size_t ipow(std::size_t b, std::size_t e)
{
    std::size_t r = 1;
    for (std::size_t i = 0; i < e; ++i) { r *= b; }
    return r;
}

template <typename A, std::size_t R>
constexpr std::size_t pattern_code(std::size_t n, std::size_t k)
{
    return A::at((n / ipow(A::n, R - 1 - k)) % A::n);
}

template <typename I, typename A, std::size_t R, std::size_t N, typename = std::make_index_sequence<R>>
struct pattern;
template <typename I, typename A, std::size_t R, std::size_t N, std::size_t... Ks>
struct pattern<I, A, R, N, std::index_sequence<Ks...>> {
    using type = etl::extents<I, (pattern_code<A, R>(N, Ks) == DC ? dyn : pattern_code<A, R>(N, Ks))...>;
};
template <typename I, typename A, std::size_t R, std::size_t N>
using pattern_t = typename pattern<I, A, R, N>::type;

/// calls f.template operator()<E>() for the patterns Lo .. Lo+Count-1
template <typename I, typename A, std::size_t R, std::size_t Lo, typename F, std::size_t... Ns>
void for_patterns_impl(F& f, std::index_sequence<Ns...> /*s*/)
{
    (f.template operator()<pattern_t<I, A, R, Lo + Ns>>(), ...);
}
template <typename I, typename A, std::size_t R, std::size_t Lo, std::size_t Count, typename F>
void for_patterns(F f)
{
    for_patterns_impl<I, A, R, Lo>(f, std::make_index_sequence<Count>{});
}

/// calls f.template operator()<E>() for every type of an explicit list (ranks 5-6: a few patterns)
template <typename... Es>
struct type_list {};
template <typename F, typename... Es>
void for_types(F f, type_list<Es...> /*l*/)
{
    (f.template operator()<Es>(), ...);
}

/// the rank 5 and rank 6 extents types of the harness: all dynamic, all static, the two
/// alternating patterns, a static and a dynamic block, static 0 / static 1 next to dynamic
template <typename I>
using rank5_types = type_list<etl::extents<I, dyn, dyn, dyn, dyn, dyn>, etl::extents<I, 2, 3, 2, 3, 2>, etl::extents<I, dyn, 2, dyn, 3, dyn>,
    etl::extents<I, 2, dyn, 3, dyn, 2>, etl::extents<I, 2, 3, dyn, dyn, dyn>, etl::extents<I, dyn, dyn, 1, 0, 3>>;
template <typename I>
using rank6_types = type_list<etl::extents<I, dyn, dyn, dyn, dyn, dyn, dyn>, etl::extents<I, 2, 3, 2, 3, 2, 3>, etl::extents<I, dyn, 2, dyn, 3, dyn, 2>,
    etl::extents<I, 2, dyn, 3, dyn, 2, dyn>, etl::extents<I, dyn, dyn, dyn, 2, 3, 2>, etl::extents<I, 1, dyn, 0, dyn, 3, dyn>>;

// ----------------------------------------------------------------------------------------
// names
// ----------------------------------------------------------------------------------------
template <typename I>
constexpr char const* iname()
{
    if constexpr (std::is_same_v<I, signed char>) { return "int8_t"; }
    if constexpr (std::is_same_v<I, unsigned char>) { return "uint8_t"; }
    if constexpr (std::is_same_v<I, short>) { return "int16_t"; }
    if constexpr (std::is_same_v<I, unsigned short>) { return "uint16_t"; }
    if constexpr (std::is_same_v<I, int>) { return "int"; }
    if constexpr (std::is_same_v<I, unsigned>) { return "uint32_t"; }
    if constexpr (std::is_same_v<I, long>) { return "int64_t"; }
    if constexpr (std::is_same_v<I, unsigned long>) { return "size_t"; }
    if constexpr (std::is_same_v<I, long long>) { return "long long"; }
    if constexpr (std::is_same_v<I, unsigned long long>) { return "unsigned long long"; }
    return "?";
}

/// "other" index type used for converting forms: differs from I in width or signedness
template <typename I>
using other_t = std::conditional_t<std::is_same_v<I, int>, unsigned long, int>;

inline std::string static_list(std::vector<std::size_t> const& st)
{
    std::string s;
    for (auto v : st) {
        s += ",";
        s += (v == dyn) ? std::string("dyn") : std::to_string(v);
    }
    return s;
}

inline std::string show_statics(std::vector<std::size_t> const& st)
{
    auto s = static_list(st);
    return "(" + (s.empty() ? s : s.substr(1)) + ")";
}

template <typename E>
std::vector<std::size_t> statics_of()
{
    std::vector<std::size_t> st;
    for (std::size_t r = 0; r < E::rank(); ++r) { st.push_back(E::static_extent(r)); }
    return st;
}

template <typename E>
std::string ename()
{
    return cat("extents<", iname<typename E::index_type>(), static_list(statics_of<E>()), ">");
}

inline std::string show(std::vector<ll> const& v)
{
    std::string s = "(";
    for (std::size_t i = 0; i < v.size(); ++i) {
        if (i) { s += ","; }
        s += std::to_string(v[i]);
    }
    return s + ")";
}

// ----------------------------------------------------------------------------------------
// run-time description of an extents type (constant-initialised: costs no code per type)
// ----------------------------------------------------------------------------------------
inline constexpr std::size_t MAXR = 6;
struct TypeInfo {
    char const* index;
    std::size_t rank;
    std::size_t rank_dynamic;
    std::size_t size; // sizeof
    std::size_t st[MAXR];

    std::vector<std::size_t> statics() const { return std::vector<std::size_t>(st, st + rank); }
    std::string name() const { return cat("extents<", index, static_list(statics()), ">"); }
};
template <typename E>
constexpr TypeInfo make_info()
{
    TypeInfo t{iname<typename E::index_type>(), E::rank(), E::rank_dynamic(), sizeof(E), {}};
    for (std::size_t r = 0; r < E::rank(); ++r) { t.st[r] = E::static_extent(r); }
    return t;
}
template <typename E>
inline constexpr TypeInfo tinfo = make_info<E>();

/// argument class of a static/dynamic pattern
inline char const* pattern_class(std::vector<std::size_t> const& st)
{
    std::size_t d = 0;
    for (auto v : st) { d += (v == dyn); }
    if (st.empty()) { return "rank0"; }
    if (d == 0) { return "all_static"; }
    if (d == st.size()) { return "all_dynamic"; }
    return "mixed";
}

// ----------------------------------------------------------------------------------------
// closed-form reference
// ----------------------------------------------------------------------------------------
inline ll product(std::vector<ll> const& e)
{
    ll p = 1;
    for (auto v : e) { p *= v; }
    return p;
}
inline std::vector<ll> strides_left(std::vector<ll> const& e)
{
    std::vector<ll> s(e.size());
    ll p = 1;
    for (std::size_t k = 0; k < e.size(); ++k) {
        s[k] = p;
        p *= e[k];
    }
    return s;
}
inline std::vector<ll> strides_right(std::vector<ll> const& e)
{
    std::vector<ll> s(e.size());
    ll p = 1;
    for (std::size_t k = e.size(); k-- > 0;) {
        s[k] = p;
        p *= e[k];
    }
    return s;
}
/// smallest n such that every offset of every in-range index is < n (0 when there is no index)
inline ll span_size(std::vector<ll> const& e, std::vector<ll> const& s)
{
    ll n = 1;
    for (std::size_t k = 0; k < e.size(); ++k) {
        if (e[k] == 0) { return 0; }
        n += (e[k] - 1) * s[k];
    }
    return n;
}
/// odometer over all multi-indices of e, last dimension fastest; false when exhausted
inline bool next_index(std::vector<ll>& idx, std::vector<ll> const& e)
{
    for (std::size_t k = e.size(); k-- > 0;) {
        if (++idx[k] < e[k]) { return true; }
        idx[k] = 0;
    }
    return false;
}
/// all multi-indices of e in odometer order (empty when some extent is 0; one empty index at rank 0)
inline std::vector<std::vector<ll>> all_indices(std::vector<ll> const& e)
{
    std::vector<std::vector<ll>> out;
    for (auto v : e) {
        if (v == 0) { return out; }
    }
    std::vector<ll> idx(e.size(), 0);
    do { out.push_back(idx); } while (next_index(idx, e));
    return out;
}
inline ll ref_offset(std::vector<ll> const& idx, std::vector<ll> const& s)
{
    ll o = 0;
    for (std::size_t k = 0; k < idx.size(); ++k) { o += idx[k] * s[k]; }
    return o;
}

template <typename I>
bool representable(ll v)
{
    return v >= 0 && static_cast<ull>(v) <= static_cast<ull>(std::numeric_limits<I>::max());
}

/// odometer over dynamic-extent values 0..maxv; false when exhausted
inline bool next_values(std::vector<ll>& v, ll maxv)
{
    for (std::size_t k = v.size(); k-- > 0;) {
        if (++v[k] <= maxv) { return true; }
        v[k] = 0;
    }
    return false;
}

/// the full extent vector of a pattern with the given values in its dynamic slots
inline std::vector<ll> full_extents(std::vector<std::size_t> const& st, std::vector<ll> const& dv)
{
    std::vector<ll> e;
    std::size_t d = 0;
    for (auto s : st) { e.push_back(s == dyn ? dv[d++] : static_cast<ll>(s)); }
    return e;
}

// ----------------------------------------------------------------------------------------
// attribution context shared by the harnesses: counts evaluations, turns sanitizer hits and
// traps into C02/C05 violations of the call that was running
// ----------------------------------------------------------------------------------------
struct Ctx {
    mc::Reporter& r;
    std::uint64_t san{mc::san_hits()};
    std::uint64_t evals{0};
    std::uint64_t nontrivial{0};
    std::uint64_t skipped{0};
    std::string subject; // call site running now (the constructor / factory of the object under test)
    std::string base;    // type under test; observer subjects are base + "::" + observer
    std::string cls;
    std::string ocls;    // class used for observer subjects (empty: cls)
    std::string kase;

    explicit Ctx(mc::Reporter& rep) : r(rep) {}

    void at(std::string s, std::string c, std::string k)
    {
        subject = std::move(s);
        cls     = std::move(c);
        kase    = std::move(k);
    }
    /// functional comparison of the call `subject`
    template <typename G, typename W>
    bool eq(char const* what, G const& got, W const& want)
    {
        ++evals;
        if (!(got == want)) {
            r.violation("C19", subject, cls, kase, cat(what, ": tetl=", got, " reference=", want));
            return false;
        }
        return true;
    }
    /// comparison of an observer of the object: subject = base::observer
    template <typename G, typename W>
    bool eq_o(char const* observer, G const& got, W const& want)
    {
        ++evals;
        if (!(got == want)) {
            r.violation("C19", cat(base, "::", observer), ocls.empty() ? cls : ocls, kase, cat("tetl=", got, " reference=", want));
            return false;
        }
        return true;
    }
    void fail_o(char const* observer, std::string const& detail) { r.violation("C19", cat(base, "::", observer), ocls.empty() ? cls : ocls, kase, detail); }
    /// trap while the observer `phase` ran ("construction" = the call site itself)
    void trap_o(mc::Trap t, char const* phase)
    {
        std::string const keep = subject, keepc = cls;
        if (std::string(phase) != "construction") {
            subject = cat(base, "::", phase);
            if (!ocls.empty()) { cls = ocls; }
        }
        trap(t);
        subject = keep;
        cls     = keepc;
    }
    void fail(std::string const& detail)
    {
        ++evals;
        r.violation("C19", subject, cls, kase, detail);
    }
    void c02(std::string const& detail) { r.violation("C02", subject, cls, kase, detail); }
    /// call after a batch of tetl calls belonging to `subject`
    void san_check()
    {
        auto const now = mc::san_hits();
        if (now != san) {
            san = now;
            r.violation("C02", subject, cls, kase, "ASan/UBSan report during this call (see job log)");
        }
    }
    void trap(mc::Trap t)
    {
        if (t == mc::Trap::none) { return; }
        bool const contract = (t == mc::Trap::assert_fired);
        r.violation(contract ? "C05" : "C02", subject, contract ? cat(cls, "/handler-on-valid-call") : cat(cls, "/", mc::trap_name(t)), kase,
            mc::describe_trap(t));
    }
    void flush()
    {
        r.count("evaluations", evals);
        r.count("distinct_nontrivial", nontrivial);
        if (skipped) { r.count("skipped_not_representable", skipped); }
        evals = nontrivial = skipped = 0;
    }
};

// pack-call helpers ------------------------------------------------------------------------
template <typename T, typename V, std::size_t... Is>
constexpr auto to_etl_array(V const& v, std::index_sequence<Is...> /*s*/)
{
    return etl::array<T, sizeof...(Is)>{static_cast<T>(v[Is])...};
}
template <typename T, std::size_t N, typename V>
constexpr auto to_etl_array(V const& v)
{
    return to_etl_array<T>(v, std::make_index_sequence<N>{});
}

template <typename T, std::size_t N>
constexpr auto to_etl_array(ll const* v)
{
    return to_etl_array<T>(v, std::make_index_sequence<N>{});
}

template <typename I, typename M, typename V, std::size_t... Is>
auto call_indices(M const& m, V const& idx, std::index_sequence<Is...> /*s*/)
{
    return m(static_cast<I>(idx[Is])...);
}

} // namespace c19
