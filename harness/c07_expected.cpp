// C07 (and the expected part of C03; C02/C05 ride along): etl::expected<T,E> explored to a fixed
// point in lock-step with std::expected<twin<T>,twin<E>> (libstdc++ 12, -std=c++2b).
// libstdc++ 12 has no monadic operations on std::expected; and_then / or_else are compared with
// the closed form of [expected.object.monadic] computed from the model (which callable is
// invoked, with which value and value category, and what is returned).
//
// etl::expected provides: explicit default ctor, in_place / unexpect ctors, implicit copy/move
// construction and assignment, emplace, has_value/bool, * and -> , error(), value_or, and_then,
// or_else.  Not provided (API gaps, nothing to compare): construction/assignment from a value or
// from unexpected<E>, value(), error_or, transform, transform_error, relational operators, member swap, and
// expected<void,E> (etl::expected stores variant<T,E>: T = void does not instantiate).
#include "c07_common.hpp"

#include <etl/expected.hpp>

#include <expected>

using namespace c07;

namespace {

enum Kind : int {
    e_value_init,
    e_in_place,
    e_unexpect,
    e_copy,
    e_move,
    m_emplace,
    self_copy_assign,
    self_move_assign,
    self_swap,
    move_out,
    value_or_r,
    and_then_r_byvalue,
    or_else_r_byvalue,
    b_copy_assign,
    b_move_assign,
    b_swap,
    kind_count
};

char const* kind_subject(int k)
{
    static char const* names[] = {"expected::expected() value-init", "expected::expected(in_place_t,args)", "expected::expected(unexpect_t,args)",
        "expected::expected(expected const&)", "expected::expected(expected&&)", "expected::emplace", "expected::operator=(expected const&) self",
        "expected::operator=(expected&&) self", "etl::swap(expected,self)", "expected::expected(expected&&) source", "expected::value_or(U&&) &&",
        "expected::and_then(F) && by-value", "expected::or_else(F) && by-value", "expected::operator=(expected const&)",
        "expected::operator=(expected&&)", "etl::swap(expected,expected)"};
    static_assert(sizeof(names) / sizeof(names[0]) == kind_count);
    return names[k];
}

// callable for and_then: logs category and value of its argument; mode 0 -> error result, mode 1 -> value result
template <typename R, typename E>
struct AndThen {
    int mode;
    std::string* log;
    template <typename X>
    R operator()(X&& x) const
    {
        *log += cat("f(", catname<X&&>(), ":", val(x), ")");
        if (mode == 0) { return R(etl::unexpect, make<E>(2)); }
        return R(etl::in_place, val(x) + 1);
    }
};
template <typename R, typename A>
struct ByValue {
    std::string* log;
    R operator()(A x) const
    {
        *log += cat("f(byvalue:", val(x), ")");
        return R(etl::in_place, val(x) + 10);
    }
};
// callable for or_else: logs category and value of the error; mode 0 -> value result, mode 1 -> error result
template <typename G, typename T, typename E>
struct OrElse {
    int mode;
    std::string* log;
    template <typename X>
    G operator()(X&& x) const
    {
        *log += cat("g(", catname<X&&>(), ":", val(x), ")");
        if (mode == 0) { return G(etl::in_place, make<T>(1)); }
        return G(etl::unexpect, make<E>(val(x) + 1));
    }
};
template <typename G, typename T, typename A>
struct OrElseByValue {
    std::string* log;
    G operator()(A x) const
    {
        *log += cat("g(byvalue:", val(x), ")");
        return G(etl::in_place, make<T>(val(x) + 10));
    }
};

template <typename X>
std::string show_exp(X const& e)
{
    if (e.has_value()) { return cat("value(", val(*e), ")"); }
    return cat("error(", val(e.error()), ")");
}

template <typename T, typename E, int K>
struct ExpectedSys {
    using V      = etl::expected<T, E>;
    using MT     = twin_t<T>;
    using ME     = twin_t<E>;
    using M      = std::expected<MT, ME>;
    using State  = Box<V, M>;
    using Action = c07::Action;
    static constexpr bool tracked  = mc::is_tracked_v<T> || mc::is_tracked_v<E>;
    static constexpr bool copyable = std::is_copy_constructible_v<T> && std::is_copy_constructible_v<E>;

    std::string name() const { return cat("expected<", aname<T>(), ",", aname<E>(), ">"); }
    std::string family() const { return "expected"; }
    std::string show(Action const& a) const { return cat(kind_subject(a.k), "[", a.a, "]"); }
    std::string subject(Action const& a) const { return kind_subject(a.k); }

    static int mval(M const& m) { return m.has_value() ? val(*m) : val(m.error()); }
    static std::string st(M const& m) { return cat(m.has_value() ? "value" : "error", mval(m) < 0 ? "-moved-from" : ""); }
    static std::string mshow(M const& m) { return cat(m.has_value() ? "V" : "E", mval(m)); }

    void unary(State const&, std::vector<Action>& out) const
    {
        out.push_back({e_value_init, 0, 0});
        for (int k = 0; k < K; ++k) {
            out.push_back({e_in_place, k, 0});
            out.push_back({e_unexpect, k, 0});
            out.push_back({m_emplace, k, 0});
            out.push_back({value_or_r, k, 0});
        }
        if constexpr (copyable) {
            out.push_back({e_copy, 0, 0});
            out.push_back({self_copy_assign, 0, 0});
        }
        out.push_back({e_move, 0, 0});
        out.push_back({self_move_assign, 0, 0});
        out.push_back({self_swap, 0, 0});
        out.push_back({move_out, 0, 0});
        // with a move-only T these two do not compile on the unrepaired tree (the && overloads pass an lvalue)
        if constexpr (copyable) {
            out.push_back({and_then_r_byvalue, 0, 0});
            out.push_back({or_else_r_byvalue, 0, 0});
        }
    }
    void binary(std::vector<Action>& out) const
    {
        if constexpr (copyable) { out.push_back({b_copy_assign, 0, 0}); }
        out.push_back({b_move_assign, 0, 0});
        out.push_back({b_swap, 0, 0});
    }

    bool same(Cx& cx, std::string const& subj, std::string const& cls, V const& v, M const& m, char const* what) const
    {
        cx.r.count("comparisons");
        bool const he = v.has_value();
        if (he != m.has_value()) {
            cx.fail("C07", subj, cls, cat(what, ": has_value() tetl=", he, " std=", m.has_value()));
            return false;
        }
        int const a = he ? val(*v) : val(v.error());
        int const b = mval(m);
        if (a != b) {
            cx.fail("C07", subj, cls, cat(what, ": ", he ? "value" : "error", " tetl=", a, " std=", b));
            return false;
        }
        return true;
    }

    void lifetimes(Cx& cx, std::string const& subj, std::string const& cls, State const& s, char const* what) const
    {
        if constexpr (tracked) {
            drain_lifetimes(cx, subj, cls);
            bool const live = s.m.has_value() ? mc::is_tracked_v<T> : mc::is_tracked_v<E>;
            check_live(cx, subj, cls, s.lo(), s.hi(), live ? 1U : 0U, what);
        }
    }

    void apply(State& s, Action const& a, State* p, Cx& cx)
    {
        V& v            = *s.v;
        M& m            = s.m;
        auto const subj = subject(a);
        std::string cls = st(m);
        if (p != nullptr) { cls += "+" + st(p->m); }
        note_case(cx, name(), mshow(m), a, p != nullptr ? mshow(p->m) : std::string());
        bool check_other = false;
        switch (a.k) {
        case e_value_init: {
            cls = "general";
            v.~V();
            std::memset(s.buf, s.poison, sizeof s.buf);
            s.v = ::new (static_cast<void*>(s.buf)) V{};
            m   = M{};
            break;
        }
        case e_in_place: {
            cls = "general";
            s.recreate(etl::in_place, make<T>(a.a));
            m = M(std::in_place, make<MT>(a.a));
            break;
        }
        case e_unexpect: {
            cls = "general";
            s.recreate(etl::unexpect, make<E>(a.a));
            m = M(std::unexpect, make<ME>(a.a));
            break;
        }
        case e_copy: {
            if constexpr (copyable) {
                alignas(V) unsigned char tmp[sizeof(V)];
                std::memset(tmp, 0x5A, sizeof tmp);
                V* t = ::new (static_cast<void*>(tmp)) V(static_cast<V const&>(v));
                same(cx, subj, cls, *t, m, "copy");
                same(cx, subj, cls, v, m, "source after copy construction");
                t->emplace(make<T>(K));
                same(cx, subj, cls, v, m, "source after changing its copy");
                t->~V();
                V* t2 = ::new (static_cast<void*>(tmp)) V(static_cast<V const&>(v));
                s.recreate(std::move(*t2));
                t2->~V();
                M m2(static_cast<M const&>(m));
                m = M(std::move(m2));
            }
            break;
        }
        case e_move: {
            alignas(V) unsigned char tmp[sizeof(V)];
            std::memset(tmp, 0x5A, sizeof tmp);
            V* t = ::new (static_cast<void*>(tmp)) V(std::move(v));
            M mt(std::move(m));
            same(cx, subj, cls, *t, mt, "moved-to object");
            same(cx, subj, cls, v, m, "moved-from source");
            v.emplace(make<T>(0)); // the moved-from source must stay usable
            s.recreate(std::move(*t));
            t->~V();
            m = M(std::move(mt));
            break;
        }
        case m_emplace: {
            T& ret = v.emplace(make<T>(a.a));
            m.emplace(make<MT>(a.a));
            if (v.has_value() && &ret != &*v) { cx.fail("C07", subj, cls, "emplace did not return a reference to the contained value"); }
            break;
        }
        case self_copy_assign: {
            if constexpr (copyable) {
                V const& self = v;
                v             = self;
                // model unchanged (C03: self copy-assignment leaves the value unchanged)
            }
            break;
        }
        case self_move_assign: {
            V& self = v;
            v       = std::move(self);
            if constexpr (tracked) { drain_lifetimes(cx, subj, cls); }
            // only required to leave a valid object: bring the model to whatever tetl holds
            if (v.has_value()) {
                int const now = val(*v);
                m.emplace(make<MT>(now));
            } else {
                int const now = val(v.error());
                m             = M(std::unexpect, make<ME>(now));
            }
            break;
        }
        case self_swap: {
            using etl::swap;
            swap(v, v);
            break; // model unchanged
        }
        case move_out: {
            V t(std::move(v));
            M mt(std::move(m));
            same(cx, subj, cls, t, mt, "moved-to object");
            break;
        }
        case value_or_r: {
            int const got  = val(std::move(v).value_or(make<T>(a.a)));
            int const want = val(std::move(m).value_or(make<MT>(a.a)));
            ceq(cx, "C07", subj, cls, "value_or(U&&) &&", got, want);
            break;
        }
        case and_then_r_byvalue: if constexpr (copyable) {
            // [expected.object.monadic]: has_value() ? invoke(f, std::move(**this)) : U(unexpect, std::move(error()))
            using R = etl::expected<int, E>;
            std::string le;
            R re = std::move(v).and_then(ByValue<R, T>{&le});
            std::string want_log, want_res;
            if (m.has_value()) {
                MT taken(std::move(*m)); // what a by-value parameter does to the model
                want_log = cat("f(byvalue:", val(taken), ")");
                want_res = cat("value(", val(taken) + 10, ")");
            } else {
                ME taken(std::move(m.error()));
                want_res = cat("error(", val(taken), ")");
            }
            ceq(cx, "C07", subj, cls, "callable invocations", le, want_log);
            ceq(cx, "C07", subj, cls, "result", show_exp(re), want_res);
            break;
        }
        case or_else_r_byvalue: if constexpr (copyable) {
            // has_value() ? G(in_place, std::move(**this)) : invoke(f, std::move(error()))
            using G = etl::expected<T, E>;
            std::string le;
            G re = std::move(v).or_else(OrElseByValue<G, T, E>{&le});
            std::string want_log, want_res;
            if (m.has_value()) {
                MT taken(std::move(*m));
                want_res = cat("value(", val(taken), ")");
            } else {
                ME taken(std::move(m.error()));
                want_log = cat("g(byvalue:", val(taken), ")");
                want_res = cat("value(", val(taken) + 10, ")");
            }
            ceq(cx, "C07", subj, cls, "callable invocations", le, want_log);
            ceq(cx, "C07", subj, cls, "result", show_exp(re), want_res);
            break;
        }
        case b_copy_assign: {
            if constexpr (copyable) {
                V& ret = (v = static_cast<V const&>(*p->v));
                if (&ret != &v) { cx.fail("C07", subj, cls, "operator= did not return *this"); }
                m           = static_cast<M const&>(p->m);
                check_other = true;
            }
            break;
        }
        case b_move_assign: {
            v           = std::move(*p->v);
            m           = std::move(p->m);
            check_other = true;
            break;
        }
        case b_swap: {
            using etl::swap;
            swap(v, *p->v);
            m.swap(p->m);
            check_other = true;
            break;
        }
        default: break;
        }
        same(cx, subj, cls, *s.v, s.m, "after the operation");
        lifetimes(cx, subj, cls, s, "after the operation");
        if (check_other && p != nullptr) {
            same(cx, subj, cls, *p->v, p->m, "other operand after the operation");
            lifetimes(cx, subj, cls, *p, "other operand");
        }
    }

    void observe(State const& s, Cx& cx) const
    {
        auto const subj = std::string("expected::<observers>");
        V& v            = *s.v;
        V const& cv     = *s.v;
        M& m            = const_cast<M&>(s.m);
        M const& cm     = s.m;
        std::string const cls = st(cm);
        ceq(cx, "C07", subj, cls, "has_value()", cv.has_value(), cm.has_value());
        ceq(cx, "C07", subj, cls, "operator bool", static_cast<bool>(cv), static_cast<bool>(cm));
        if (cv.has_value() != cm.has_value()) { return; }
        bool const hv = cm.has_value();
        if (hv) {
            ceq(cx, "C07", "expected::operator*", cls, "*e &", val(*v), val(*m));
            ceq(cx, "C07", "expected::operator*", cls, "*e const&", val(*cv), val(*cm));
            ceq(cx, "C07", "expected::operator*", cls, "*e &&", val(*std::move(v)), val(*std::move(m)));
            ceq(cx, "C07", "expected::operator*", cls, "*e const&&", val(*std::move(cv)), val(*std::move(cm)));
            static_assert(std::is_same_v<decltype(*v), T&> && std::is_same_v<decltype(*cv), T const&>);
            static_assert(std::is_same_v<decltype(*std::move(v)), T&&> && std::is_same_v<decltype(*std::move(cv)), T const&&>);
            T* pe        = v.operator->();
            T const* pce = cv.operator->();
            ceq(cx, "C07", "expected::operator->", cls, "-> refers to the contained value", pe == &*v && pce == &*cv, true);
        } else {
            ceq(cx, "C07", "expected::error", cls, "error() &", val(v.error()), val(m.error()));
            ceq(cx, "C07", "expected::error", cls, "error() const&", val(cv.error()), val(cm.error()));
            ceq(cx, "C07", "expected::error", cls, "error() &&", val(std::move(v).error()), val(std::move(m).error()));
            ceq(cx, "C07", "expected::error", cls, "error() const&&", val(std::move(cv).error()), val(std::move(cm).error()));
            static_assert(std::is_same_v<decltype(v.error()), E&> && std::is_same_v<decltype(cv.error()), E const&>);
            static_assert(std::is_same_v<decltype(std::move(v).error()), E&&> && std::is_same_v<decltype(std::move(cv).error()), E const&&>);
        }
        if constexpr (std::is_copy_constructible_v<T>) {
            for (int k = 0; k < K; ++k) {
                int const got  = val(cv.value_or(make<T>(k)));
                int const want = val(cm.value_or(make<MT>(k)));
                ceq(cx, "C07", "expected::value_or(U&&) const&", cls, "value_or", got, want);
            }
        }
        // and_then / or_else with reference-taking callables (nothing is moved), four categories of *this.
        // Closed form: the callable sees value()/error() with the value category and constness of *this.
        int const cur = mval(cm);
        std::string const branch = hv ? "value" : "error"; // class of the monadic checks: branch taken + category of *this
        for (int mode = 0; mode <= 1; ++mode) {
            using R = etl::expected<int, E>;
            auto want_and_then = [&](char const* category) {
                std::string log, res;
                if (hv) {
                    log = cat("f(", category, ":", cur, ")");
                    res = mode == 0 ? std::string("error(2)") : cat("value(", cur + 1, ")");
                } else {
                    res = cat("error(", cur, ")");
                }
                return std::pair<std::string, std::string>(log, res);
            };
            auto check = [&](char const* sj, char const* category, std::string const& le, std::string const& re, std::pair<std::string, std::string> const& want) {
                ceq(cx, "C07", sj, cat(branch, "/", category), "callable invocations", le, want.first);
                ceq(cx, "C07", sj, cat(branch, "/", category), "result", re, want.second);
            };
            {
                std::string le;
                R re = v.and_then(AndThen<R, E>{mode, &le});
                check("expected::and_then(F)", "&", le, show_exp(re), want_and_then("&"));
            }
            {
                std::string le;
                R re = cv.and_then(AndThen<R, E>{mode, &le});
                check("expected::and_then(F)", "const&", le, show_exp(re), want_and_then("const&"));
            }
            if (hv) {
                // (on an error the && overload moves the error into its result: that branch is the
                // state-changing action and_then_r_byvalue)
                std::string le;
                R re = std::move(v).and_then(AndThen<R, E>{mode, &le});
                check("expected::and_then(F)", "&&", le, show_exp(re), want_and_then("&&"));
            }
            {
                std::string le;
                R re = std::move(cv).and_then(AndThen<R, E>{mode, &le});
                check("expected::and_then(F)", "const&&", le, show_exp(re), want_and_then("const&&"));
            }
            if constexpr (copyable) {
                using G           = etl::expected<T, E>;
                auto want_or_else = [&](char const* category) {
                    std::string log, res;
                    if (hv) {
                        res = cat("value(", cur, ")");
                    } else {
                        log = cat("g(", category, ":", cur, ")");
                        res = mode == 0 ? std::string("value(1)") : cat("error(", cur + 1, ")");
                    }
                    return std::pair<std::string, std::string>(log, res);
                };
                {
                    std::string le;
                    G re = v.or_else(OrElse<G, T, E>{mode, &le});
                    check("expected::or_else(F)", "&", le, show_exp(re), want_or_else("&"));
                }
                {
                    std::string le;
                    G re = cv.or_else(OrElse<G, T, E>{mode, &le});
                    check("expected::or_else(F)", "const&", le, show_exp(re), want_or_else("const&"));
                }
                if (!hv) {
                    // (on a value the && overload moves the value into its result: see or_else_r_byvalue)
                    std::string le;
                    G re = std::move(v).or_else(OrElse<G, T, E>{mode, &le});
                    check("expected::or_else(F)", "&&", le, show_exp(re), want_or_else("&&"));
                }
                {
                    std::string le;
                    G re = std::move(cv).or_else(OrElse<G, T, E>{mode, &le});
                    check("expected::or_else(F)", "const&&", le, show_exp(re), want_or_else("const&&"));
                }
            }
        }
        same(cx, subj, cls, cv, cm, "after the observers");
        if constexpr (tracked) { drain_lifetimes(cx, subj, cls); }
    }

    std::string key(State const& s) const
    {
        std::string k = mshow(s.m);
        k += '|';
        k += obs(s);
        if constexpr (State::keyed_bytes) {
            k += '|';
            k += s.bytes();
        }
        return k;
    }
    std::string obs(State const& s) const { return s.v->has_value() ? cat("V", val(**s.v)) : cat("E", val(s.v->error())); }

    void retire(State& s, Cx& cx) const
    {
        if (s.dead) { return; }
        s.v->~V();
        s.dead = true;
        if constexpr (tracked) {
            drain_lifetimes(cx, "expected::~expected", st(s.m));
            auto const live = registry().live_in(s.lo(), s.hi());
            if (live != 0) {
                cx.fail("C03", "expected::~expected", st(s.m) + "/leak", cat(live, " object(s) still alive after the owner was destroyed"));
                registry().forget_range(s.lo(), s.hi());
            }
        }
    }
};

using TA  = mc::Tracked<mc::copy_move, 0>;
using TB  = mc::Tracked<mc::copy_move, 1>;
using TMO = mc::Tracked<mc::move_only, 0>;

// ---------------------------------------------------------------------------------------
// round 2: etl::unexpected<E> against std::unexpected<E> (the error carrier of expected):
// every construction form x value, error() in four value categories, copy/move, member and
// free swap and operator== (also unexpected<E> x unexpected<E2>) over all value pairs.
// ---------------------------------------------------------------------------------------
template <typename E, typename E2>
void unexpected_sweep(mc::Reporter& r, char const* ename, int K)
{
    using UE = etl::unexpected<E>;
    using US = std::unexpected<E>;
    std::uint64_t evals = 0;
    auto same = [&](std::string const& subject, std::string const& cls, std::string const& kase, char const* what, auto const& got, auto const& want) {
        r.count("comparisons");
        if (!(got == want)) { r.violation("C07", subject, cls, kase, cat(what, ": tetl ", got, " std ", want)); }
    };
    auto const tn = cat("unexpected<", ename, ">");
    static_assert(std::is_same_v<decltype(etl::unexpected(make<E>(0))), UE>); // deduction guide
    for (int a = 0; a < K; ++a) {
        auto const kase = cat(tn, " value ", a);
        mc::Trap t      = mc::guarded([&] {
            UE e1(make<E>(a));
            US s1(make<E>(a));
            same(tn + "::unexpected(Err&&)", "general", kase, "error()", val(e1.error()), val(s1.error()));
            E const lv = make<E>(a);
            UE e2(lv);
            US s2(lv);
            same(tn + "::unexpected(Err&&)", "lvalue", kase, "error()", val(e2.error()), val(s2.error()));
            UE e3(etl::in_place, make<E>(a));
            US s3(std::in_place, make<E>(a));
            same(tn + "::unexpected(in_place_t,args)", "general", kase, "error()", val(e3.error()), val(s3.error()));
            UE e4(e1);
            US s4(s1);
            UE e5(std::move(e2));
            US s5(std::move(s2));
            same(tn + "::unexpected(unexpected const&)", "general", kase, "error()", val(e4.error()), val(s4.error()));
            same(tn + "::unexpected(unexpected&&)", "general", kase, "error()", val(e5.error()), val(s5.error()));
            // error() in the four value categories: value and exact type
            UE const& ce = e4;
            US const& cs = s4;
            same(tn + "::error", "&", kase, "error()", val(e4.error()), val(s4.error()));
            same(tn + "::error", "const&", kase, "error()", val(ce.error()), val(cs.error()));
            same(tn + "::error", "&&", kase, "error()", val(std::move(e4).error()), val(std::move(s4).error()));
            same(tn + "::error", "const&&", kase, "error()", val(std::move(ce).error()), val(std::move(cs).error()));
            static_assert(std::is_same_v<decltype(e4.error()), E&> && std::is_same_v<decltype(ce.error()), E const&>);
            static_assert(std::is_same_v<decltype(std::move(e4).error()), E&&> && std::is_same_v<decltype(std::move(ce).error()), E const&&>);
            same(tn + "::error", "identity", kase, "error() refers to the stored object", &e4.error() == &ce.error(), true);
            // write through error()
            e4.error() = make<E>((a + 1) % K);
            s4.error() = make<E>((a + 1) % K);
            same(tn + "::error", "write_through", kase, "error() after assignment through the reference", val(e4.error()), val(s4.error()));
        });
        evals += 12;
        if (t != mc::Trap::none) { r.violation(t == mc::Trap::assert_fired ? "C05" : "C02", tn, cat("general/", mc::trap_name(t)), kase, mc::describe_trap(t)); }
        for (int b = 0; b < K; ++b) {
            auto const k2  = cat(tn, " values ", a, ",", b);
            auto const cls = a == b ? "equal_values" : "different_values";
            mc::Trap t2    = mc::guarded([&] {
                UE x(make<E>(a)), y(make<E>(b));
                US mx(make<E>(a)), my(make<E>(b));
                same(tn + " operator==", cls, k2, "x == y", x == y, mx == my);
                same(tn + " operator==", cls, k2, "x != y", x != y, mx != my);
                if constexpr (!std::is_same_v<E2, void>) {
                    etl::unexpected<E2> y2(make<E2>(b));
                    std::unexpected<E2> my2(make<E2>(b));
                    same(tn + " operator==(unexpected<E2>)", cls, k2, "x == y2", x == y2, mx == my2);
                    same(tn + " operator==(unexpected<E2>)", cls, k2, "y2 == x", y2 == x, my2 == mx);
                    same(tn + " operator==(unexpected<E2>)", cls, k2, "x != y2", x != y2, mx != my2);
                }
                x.swap(y);
                mx.swap(my);
                same(tn + "::swap", cls, k2, "x after x.swap(y)", val(x.error()), val(mx.error()));
                same(tn + "::swap", cls, k2, "y after x.swap(y)", val(y.error()), val(my.error()));
                using etl::swap;
                using std::swap;
                swap(x, y);
                swap(mx, my);
                same(tn + " swap(x,y)", cls, k2, "x after swap(x,y)", val(x.error()), val(mx.error()));
                same(tn + " swap(x,y)", cls, k2, "y after swap(x,y)", val(y.error()), val(my.error()));
                x  = y;
                mx = my;
                same(tn + "::operator=(unexpected const&)", cls, k2, "x after x = y", val(x.error()), val(mx.error()));
                y  = UE(make<E>(a));
                my = US(make<E>(a));
                same(tn + "::operator=(unexpected&&)", cls, k2, "y after y = unexpected(a)", val(y.error()), val(my.error()));
            });
            evals += 8;
            r.outcome(mc::hash_str(k2));
            if (t2 != mc::Trap::none) { r.violation(t2 == mc::Trap::assert_fired ? "C05" : "C02", tn, cat(cls, "/", mc::trap_name(t2)), k2, mc::describe_trap(t2)); }
        }
    }
    r.count("evaluations", evals);
    r.count("distinct_nontrivial", evals);
    r.count("configurations", 1);
    r.sample(cat(tn, ": ", K, " values, ", K * K, " ordered pairs"));
}

} // namespace

int main(int argc, char** argv)
{
    mc::Main m(argc, argv);
    std::vector<std::string> const both{"quick", "thorough"};
    std::vector<std::string> const th{"thorough"};
    m.job("expected<int,Err>/k3", both, [](mc::Reporter& r) { explore<ExpectedSys<int, Err, 3>>(r); });
    m.job("expected<int,int>/k3", both, [](mc::Reporter& r) { explore<ExpectedSys<int, int, 3>>(r); });
    m.job("expected<Tracked,Err>/k3", both, [](mc::Reporter& r) { explore<ExpectedSys<TA, Err, 3>>(r); });
    m.job("expected<Tracked,TrackedB>/k3", both, [](mc::Reporter& r) { explore<ExpectedSys<TA, TB, 3>>(r); });
    m.job("expected<TrackedRule3,TrackedRule3B>/k3", both, [](mc::Reporter& r) { explore<ExpectedSys<mc::Tracked<mc::rule3, 0>, mc::Tracked<mc::rule3, 1>, 3>>(r); });
    m.job("expected<TrackedMoveOnly,int>/k3", both, [](mc::Reporter& r) { explore<ExpectedSys<TMO, int, 3>>(r); });
    // round 2: trivially copyable value with a non-trivial error (the fourth trivial/non-trivial combination),
    // value and error types that convert into each other
    m.job("expected<int,Tracked>/k3", both, [](mc::Reporter& r) { explore<ExpectedSys<int, TA, 3>>(r); });
    m.job("expected<long,int>/k3", both, [](mc::Reporter& r) { explore<ExpectedSys<long, int, 3>>(r); });
    m.job("unexpected/sweep", both, [](mc::Reporter& r) {
        unexpected_sweep<int, long>(r, "int", 4);
        unexpected_sweep<Err, void>(r, "Err", 3);
        unexpected_sweep<long, int>(r, "long", 3);
    });
    m.job("expected<int,Tracked>/k4", th, [](mc::Reporter& r) { explore<ExpectedSys<int, TA, 4>>(r); });
    m.job("expected<int,int>/k4", th, [](mc::Reporter& r) { explore<ExpectedSys<int, int, 4>>(r); });
    m.job("expected<Tracked,TrackedB>/k4", th, [](mc::Reporter& r) { explore<ExpectedSys<TA, TB, 4>>(r); });
    return m.run();
}
