// C06, part "nonmod": non-modifying sequence operations of etl/algorithm.hpp against libstdc++.
//   one range : all_of any_of none_of find find_if find_if_not count count_if for_each for_each_n
//               adjacent_find is_sorted is_sorted_until is_partitioned partition_point
//               min_element max_element minmax_element search_n
//   two ranges: equal (3/4 iterators) mismatch (3/4) lexicographical_compare search find_end
//               find_first_of is_permutation (3/4) search(default_searcher)
#include "c06_common.hpp"

using namespace c06;

namespace {

struct Visit {
    std::vector<E>* seen;
    int calls{0};
    void operator()(E const& e)
    {
        arg(e);
        ++calls;
        seen->push_back(e);
    }
};

// ------------------------------------------------------------------------------------------
// one range
// ------------------------------------------------------------------------------------------
template <typename F>
void one_range(Ctx& c, Seq const& a)
{
    auto const n     = a.size();
    bool const nt    = n >= 2;
    std::string const fl = F::name;
    auto cls         = [&] { return len_class(n); };

    // value forms: value keys 0..3 (3 never occurs)
    for (int k = 0; k <= 3; ++k) {
        E const value{k, value_tag};
        auto kase = [&] { return cat(fl, " a=", keys(a), " value=", k); };
        auto vcls = [&] {
            bool const present = std::any_of(a.begin(), a.end(), [&](E const& e) { return e.key == k; });
            return cat(len_class(n), present ? "" : "+absent");
        };
        if (c.want("find(first,last,value)")) {
            c.run("find(first,last,value)", nt, [&](auto lib, Obs& o) {
                Buf<E> A(mem<F>(a));
                allow(value);
                auto it = C06_ALG(find)(lib, F::at(lib, A, 0), F::at(lib, A, n), value);
                o.num(F::off(A, it));
                o.buf(A);
            }, vcls, kase);
        }
        if (c.want("count(first,last,value)")) {
            c.run("count(first,last,value)", nt, [&](auto lib, Obs& o) {
                Buf<E> A(mem<F>(a));
                allow(value);
                auto cnt = C06_ALG(count)(lib, F::at(lib, A, 0), F::at(lib, A, n), value);
                o.num(static_cast<long>(cnt));
                o.buf(A);
            }, vcls, kase);
        }
    }

    for_types(UnPreds{}, [&](auto pred) {
        using P   = decltype(pred);
        auto kase = [&] { return cat(fl, " a=", keys(a), " pred=", P::name); };
#define C06_BOOL1(NAME)                                                                                                         \
    if (c.want(#NAME "(first,last,pred)")) {                                                                                    \
        c.run(#NAME "(first,last,pred)", nt, [&](auto lib, Obs& o) {                                                            \
            Buf<E> A(mem<F>(a));                                                                                                        \
            bool const res = C06_ALG(NAME)(lib, F::at(lib, A, 0), F::at(lib, A, n), P{});                                       \
            o.num(res);                                                                                                         \
            o.buf(A);                                                                                                           \
        }, cls, kase);                                                                                                          \
    }
        C06_BOOL1(all_of)
        C06_BOOL1(any_of)
        C06_BOOL1(none_of)
        C06_BOOL1(is_partitioned)
#undef C06_BOOL1
#define C06_ITER1(NAME)                                                                                                         \
    if (c.want(#NAME "(first,last,pred)")) {                                                                                    \
        c.run(#NAME "(first,last,pred)", nt, [&](auto lib, Obs& o) {                                                            \
            Buf<E> A(mem<F>(a));                                                                                                        \
            auto it = C06_ALG(NAME)(lib, F::at(lib, A, 0), F::at(lib, A, n), P{});                                              \
            o.num(F::off(A, it));                                                                                               \
            o.buf(A);                                                                                                           \
        }, cls, kase);                                                                                                          \
    }
        C06_ITER1(find_if)
        C06_ITER1(find_if_not)
#undef C06_ITER1
        if (c.want("count_if(first,last,pred)")) {
            c.run("count_if(first,last,pred)", nt, [&](auto lib, Obs& o) {
                Buf<E> A(mem<F>(a));
                auto cnt = C06_ALG(count_if)(lib, F::at(lib, A, 0), F::at(lib, A, n), P{});
                o.num(static_cast<long>(cnt));
                o.buf(A);
            }, cls, kase);
        }
        if constexpr (F::rank >= 1) {
            // partition_point requires a range partitioned by the predicate
            if (std::is_partitioned(a.begin(), a.end(), [](E const& e) { return P::plain(e); }) && c.want("partition_point(first,last,pred)")) {
                c.run("partition_point(first,last,pred)", nt, [&](auto lib, Obs& o) {
                    Buf<E> A(mem<F>(a));
                    auto it = C06_ALG(partition_point)(lib, F::at(lib, A, 0), F::at(lib, A, n), P{});
                    o.num(F::off(A, it));
                    o.buf(A);
                }, cls, kase);
            }
        }
    });

    // for_each / for_each_n: the function is applied exactly once to every element, in order
    if (c.want("for_each(first,last,f)")) {
        c.run("for_each(first,last,f)", nt, [&](auto lib, Obs& o) {
            Buf<E> A(mem<F>(a));
            std::vector<E> seen;
            seen.reserve(16);
            auto f = C06_ALG(for_each)(lib, F::at(lib, A, 0), F::at(lib, A, n), Visit{&seen});
            o.num(f.calls);
            o.vec(seen);
            o.buf(A);
        }, cls, [&] { return cat(fl, " a=", keys(a)); });
    }
    if (c.want("for_each_n(first,n,f)")) {
        for (std::size_t cnt = 0; cnt <= n; ++cnt) {
            c.run("for_each_n(first,n,f)", nt, [&](auto lib, Obs& o) {
                Buf<E> A(mem<F>(a));
                std::vector<E> seen;
                seen.reserve(16);
                auto it = C06_ALG(for_each_n)(lib, F::at(lib, A, 0), static_cast<int>(cnt), Visit{&seen});
                o.num(F::off(A, it));
                o.vec(seen);
                o.buf(A);
            }, [&] { return cat(len_class(n), cnt == 0 ? "+n_zero" : cnt == n ? "+n_len" : ""); },
                [&] { return cat(fl, " a=", keys(a), " n=", cnt); });
        }
    }

    if constexpr (F::rank >= 1) {
        auto kase0 = [&] { return cat(fl, " a=", keys(a)); };
#define C06_ITER0(NAME)                                                                                                         \
    if (c.want(#NAME "(first,last)")) {                                                                                         \
        c.run(#NAME "(first,last)", nt, [&](auto lib, Obs& o) {                                                                 \
            Buf<E> A(mem<F>(a));                                                                                                        \
            auto it = C06_ALG(NAME)(lib, F::at(lib, A, 0), F::at(lib, A, n));                                                   \
            o.num(F::off(A, it));                                                                                               \
            o.buf(A);                                                                                                           \
        }, cls, kase0);                                                                                                         \
    }
        C06_ITER0(adjacent_find)
        C06_ITER0(is_sorted_until)
        C06_ITER0(min_element)
        C06_ITER0(max_element)
#undef C06_ITER0
        if (c.want("is_sorted(first,last)")) {
            c.run("is_sorted(first,last)", nt, [&](auto lib, Obs& o) {
                Buf<E> A(mem<F>(a));
                bool const res = C06_ALG(is_sorted)(lib, F::at(lib, A, 0), F::at(lib, A, n));
                o.num(res);
                o.buf(A);
            }, cls, kase0);
        }
        if (c.want("minmax_element(first,last)")) {
            c.run("minmax_element(first,last)", nt, [&](auto lib, Obs& o) {
                Buf<E> A(mem<F>(a));
                auto pr = C06_ALG(minmax_element)(lib, F::at(lib, A, 0), F::at(lib, A, n));
                o.num(F::off(A, pr.first));
                o.num(F::off(A, pr.second));
                o.buf(A);
            }, cls, kase0);
        }
        for_types(BinPreds{}, [&](auto pred) {
            using P = decltype(pred);
            if (c.want("adjacent_find(first,last,pred)")) {
                c.run("adjacent_find(first,last,pred)", nt, [&](auto lib, Obs& o) {
                    Buf<E> A(mem<F>(a));
                    auto it = C06_ALG(adjacent_find)(lib, F::at(lib, A, 0), F::at(lib, A, n), P{});
                    o.num(F::off(A, it));
                    o.buf(A);
                }, cls, [&] { return cat(fl, " a=", keys(a), " pred=", P::name); });
            }
        });
        for_types(Orders{}, [&](auto cmp) {
            using Cm  = decltype(cmp);
            auto kase = [&] { return cat(fl, " a=", keys(a), " comp=", Cm::name); };
#define C06_ITERC(NAME)                                                                                                         \
    if (c.want(#NAME "(first,last,comp)")) {                                                                                    \
        c.run(#NAME "(first,last,comp)", nt, [&](auto lib, Obs& o) {                                                            \
            Buf<E> A(mem<F>(a));                                                                                                        \
            auto it = C06_ALG(NAME)(lib, F::at(lib, A, 0), F::at(lib, A, n), Cm{});                                             \
            o.num(F::off(A, it));                                                                                               \
            o.buf(A);                                                                                                           \
        }, cls, kase);                                                                                                          \
    }
            C06_ITERC(is_sorted_until)
            C06_ITERC(min_element)
            C06_ITERC(max_element)
#undef C06_ITERC
            if (c.want("is_sorted(first,last,comp)")) {
                c.run("is_sorted(first,last,comp)", nt, [&](auto lib, Obs& o) {
                    Buf<E> A(mem<F>(a));
                    bool const res = C06_ALG(is_sorted)(lib, F::at(lib, A, 0), F::at(lib, A, n), Cm{});
                    o.num(res);
                    o.buf(A);
                }, cls, kase);
            }
            if (c.want("minmax_element(first,last,comp)")) {
                c.run("minmax_element(first,last,comp)", nt, [&](auto lib, Obs& o) {
                    Buf<E> A(mem<F>(a));
                    auto pr = C06_ALG(minmax_element)(lib, F::at(lib, A, 0), F::at(lib, A, n), Cm{});
                    o.num(F::off(A, pr.first));
                    o.num(F::off(A, pr.second));
                    o.buf(A);
                }, cls, kase);
            }
        });
    }

    // search_n: tetl initialises an iterator from nullptr, so only pointers compile (API gap for every wrapper)
    if constexpr (std::is_same_v<F, PtrF>) {
        for (int k = 0; k <= 3; ++k) {
            E const value{k, value_tag};
            for (int cnt = -1; cnt <= static_cast<int>(n) + 1; ++cnt) {
                auto scls = [&] {
                    // argument class: is there a run of `value` that is shorter than count and followed later by more matches?
                    bool broken = false;
                    int run     = 0;
                    bool sawShort = false;
                    for (auto const& e : a) {
                        if (e.key == k) {
                            ++run;
                            if (sawShort) { broken = true; }
                        } else {
                            if (run > 0 && run < cnt) { sawShort = true; }
                            run = 0;
                        }
                    }
                    return cat(len_class(n), cnt <= 0 ? "+count_le_0" : cnt > static_cast<int>(n) ? "+count_gt_len" : "",
                        broken ? "+match_after_short_run" : "");
                };
                auto kase = [&] { return cat(fl, " a=", keys(a), " count=", cnt, " value=", k); };
                if (c.want("search_n(first,last,count,value)")) {
                    c.run("search_n(first,last,count,value)", nt, [&](auto lib, Obs& o) {
                        Buf<E> A(mem<F>(a));
                        allow(value);
                        auto it = C06_ALG(search_n)(lib, F::at(lib, A, 0), F::at(lib, A, n), cnt, value);
                        o.num(F::off(A, it));
                        o.buf(A);
                    }, scls, kase);
                }
                if (k <= 2) {
                    for_types(List<EqMod2, LessAsPred, True2>{}, [&](auto pred) {
                        using P = decltype(pred);
                        if (c.want("search_n(first,last,count,value,pred)")) {
                            c.run("search_n(first,last,count,value,pred)", nt, [&](auto lib, Obs& o) {
                                Buf<E> A(mem<F>(a));
                                allow(value);
                                auto it = C06_ALG(search_n)(lib, F::at(lib, A, 0), F::at(lib, A, n), cnt, value, P{});
                                o.num(F::off(A, it));
                                o.buf(A);
                            }, [&] { return cat(len_class(n), cnt <= 0 ? "+count_le_0" : cnt > static_cast<int>(n) ? "+count_gt_len" : ""); },
                                [&] { return cat(fl, " a=", keys(a), " count=", cnt, " value=", k, " pred=", P::name); });
                        }
                    });
                }
            }
        }
    }
}

// ------------------------------------------------------------------------------------------
// two ranges
// ------------------------------------------------------------------------------------------
template <typename F1, typename F2>
void two_ranges(Ctx& c, Seq const& a, Seq const& b)
{
    auto const n  = a.size();
    auto const m  = b.size();
    bool const nt = n >= 2 && m >= 1;
    std::string const fl = cat(F1::name, "/", F2::name);
    auto cls = [&] {
        // lengths equal: by length of the ranges; otherwise by which one is shorter (one root cause, one class)
        if (m == n) { return len_class(n); }
        std::string s = m < n ? "second_shorter" : "second_longer";
        if (F1::rank < 3 || F2::rank < 3) { s += "+not_random_access"; }
        return s;
    };
    auto kase0 = [&] { return cat(fl, " a=", keys(a), " b=", keys(b)); };

    // ---- forms that read [first2, first2 + (last1-first1)): only valid when the second range is long enough
    if (m >= n) {
        if (c.want("equal(first1,last1,first2)")) {
            c.run("equal(first1,last1,first2)", nt, [&](auto lib, Obs& o) {
                Buf<E> A(mem<F1>(a));
                Buf<E> B(mem<F2>(b));
                bool const res = C06_ALG(equal)(lib, F1::at(lib, A, 0), F1::at(lib, A, n), F2::at(lib, B, 0));
                o.num(res);
                o.buf(A);
                o.buf(B);
            }, cls, kase0);
        }
        if (c.want("mismatch(first1,last1,first2)")) {
            c.run("mismatch(first1,last1,first2)", nt, [&](auto lib, Obs& o) {
                Buf<E> A(mem<F1>(a));
                Buf<E> B(mem<F2>(b));
                auto pr = C06_ALG(mismatch)(lib, F1::at(lib, A, 0), F1::at(lib, A, n), F2::at(lib, B, 0));
                o.num(F1::off(A, pr.first));
                o.num(F2::off(B, pr.second));
                o.buf(A);
                o.buf(B);
            }, cls, kase0);
        }
        if constexpr (F1::rank >= 1 && F2::rank >= 1) {
            if (c.want("is_permutation(first1,last1,first2)")) {
                c.run("is_permutation(first1,last1,first2)", nt, [&](auto lib, Obs& o) {
                    Buf<E> A(mem<F1>(a));
                    Buf<E> B(mem<F2>(b));
                    bool const res = C06_ALG(is_permutation)(lib, F1::at(lib, A, 0), F1::at(lib, A, n), F2::at(lib, B, 0));
                    o.num(res);
                    o.buf(A);
                    o.buf(B);
                }, cls, kase0);
            }
        }
        for_types(BinPreds{}, [&](auto pred) {
            using P   = decltype(pred);
            auto kase = [&] { return cat(fl, " a=", keys(a), " b=", keys(b), " pred=", P::name); };
            if (c.want("equal(first1,last1,first2,pred)")) {
                c.run("equal(first1,last1,first2,pred)", nt, [&](auto lib, Obs& o) {
                    Buf<E> A(mem<F1>(a));
                    Buf<E> B(mem<F2>(b));
                    bool const res = C06_ALG(equal)(lib, F1::at(lib, A, 0), F1::at(lib, A, n), F2::at(lib, B, 0), P{});
                    o.num(res);
                    o.buf(A);
                    o.buf(B);
                }, cls, kase);
            }
            if (c.want("mismatch(first1,last1,first2,pred)")) {
                c.run("mismatch(first1,last1,first2,pred)", nt, [&](auto lib, Obs& o) {
                    Buf<E> A(mem<F1>(a));
                    Buf<E> B(mem<F2>(b));
                    auto pr = C06_ALG(mismatch)(lib, F1::at(lib, A, 0), F1::at(lib, A, n), F2::at(lib, B, 0), P{});
                    o.num(F1::off(A, pr.first));
                    o.num(F2::off(B, pr.second));
                    o.buf(A);
                    o.buf(B);
                }, cls, kase);
            }
        });
    }

    // ---- four-iterator forms: every pair of lengths
#define C06_BOOL4(NAME)                                                                                                         \
    if (c.want(#NAME "(first1,last1,first2,last2)")) {                                                                          \
        c.run(#NAME "(first1,last1,first2,last2)", nt, [&](auto lib, Obs& o) {                                                  \
            Buf<E> A(mem<F1>(a));                                                                                                        \
            Buf<E> B(mem<F2>(b));                                                                                                        \
            bool const res = C06_ALG(NAME)(lib, F1::at(lib, A, 0), F1::at(lib, A, n), F2::at(lib, B, 0), F2::at(lib, B, m));    \
            o.num(res);                                                                                                         \
            o.buf(A);                                                                                                           \
            o.buf(B);                                                                                                           \
        }, cls, kase0);                                                                                                         \
    }
    C06_BOOL4(equal)
    C06_BOOL4(lexicographical_compare)
    if constexpr (F1::rank >= 1 && F2::rank >= 1) { C06_BOOL4(is_permutation) }
#undef C06_BOOL4
    if (c.want("mismatch(first1,last1,first2,last2)")) {
        c.run("mismatch(first1,last1,first2,last2)", nt, [&](auto lib, Obs& o) {
            Buf<E> A(mem<F1>(a));
            Buf<E> B(mem<F2>(b));
            auto pr = C06_ALG(mismatch)(lib, F1::at(lib, A, 0), F1::at(lib, A, n), F2::at(lib, B, 0), F2::at(lib, B, m));
            o.num(F1::off(A, pr.first));
            o.num(F2::off(B, pr.second));
            o.buf(A);
            o.buf(B);
        }, cls, kase0);
    }
    for_types(BinPreds{}, [&](auto pred) {
        using P   = decltype(pred);
        auto kase = [&] { return cat(fl, " a=", keys(a), " b=", keys(b), " pred=", P::name); };
        if (c.want("equal(first1,last1,first2,last2,pred)")) {
            c.run("equal(first1,last1,first2,last2,pred)", nt, [&](auto lib, Obs& o) {
                Buf<E> A(mem<F1>(a));
                Buf<E> B(mem<F2>(b));
                bool const res = C06_ALG(equal)(lib, F1::at(lib, A, 0), F1::at(lib, A, n), F2::at(lib, B, 0), F2::at(lib, B, m), P{});
                o.num(res);
                o.buf(A);
                o.buf(B);
            }, cls, kase);
        }
        if (c.want("mismatch(first1,last1,first2,last2,pred)")) {
            c.run("mismatch(first1,last1,first2,last2,pred)", nt, [&](auto lib, Obs& o) {
                Buf<E> A(mem<F1>(a));
                Buf<E> B(mem<F2>(b));
                auto pr = C06_ALG(mismatch)(lib, F1::at(lib, A, 0), F1::at(lib, A, n), F2::at(lib, B, 0), F2::at(lib, B, m), P{});
                o.num(F1::off(A, pr.first));
                o.num(F2::off(B, pr.second));
                o.buf(A);
                o.buf(B);
            }, cls, kase);
        }
    });
    for_types(Orders{}, [&](auto cmp) {
        using Cm = decltype(cmp);
        if (c.want("lexicographical_compare(first1,last1,first2,last2,comp)")) {
            c.run("lexicographical_compare(first1,last1,first2,last2,comp)", nt, [&](auto lib, Obs& o) {
                Buf<E> A(mem<F1>(a));
                Buf<E> B(mem<F2>(b));
                bool const res
                    = C06_ALG(lexicographical_compare)(lib, F1::at(lib, A, 0), F1::at(lib, A, n), F2::at(lib, B, 0), F2::at(lib, B, m), Cm{});
                o.num(res);
                o.buf(A);
                o.buf(B);
            }, cls, [&] { return cat(fl, " a=", keys(a), " b=", keys(b), " comp=", Cm::name); });
        }
    });

    // ---- searches: b is the needle / the set of candidates
    auto scls = [&] {
        std::string s = len_class(n);
        if (m == 0) {
            s += "+needle_empty";
        } else if (m > n) {
            s += "+needle_longer";
        } else if (m == n) {
            s += "+needle_same_length";
        }
        return s;
    };
    if constexpr (F2::rank >= 1) {
        if (c.want("find_first_of(first,last,s_first,s_last)")) {
            c.run("find_first_of(first,last,s_first,s_last)", nt, [&](auto lib, Obs& o) {
                Buf<E> A(mem<F1>(a));
                Buf<E> B(mem<F2>(b));
                auto it = C06_ALG(find_first_of)(lib, F1::at(lib, A, 0), F1::at(lib, A, n), F2::at(lib, B, 0), F2::at(lib, B, m));
                o.num(F1::off(A, it));
                o.buf(A);
                o.buf(B);
            }, scls, kase0);
        }
        for_types(BinPreds{}, [&](auto pred) {
            using P = decltype(pred);
            if (c.want("find_first_of(first,last,s_first,s_last,pred)")) {
                c.run("find_first_of(first,last,s_first,s_last,pred)", nt, [&](auto lib, Obs& o) {
                    Buf<E> A(mem<F1>(a));
                    Buf<E> B(mem<F2>(b));
                    auto it = C06_ALG(find_first_of)(lib, F1::at(lib, A, 0), F1::at(lib, A, n), F2::at(lib, B, 0), F2::at(lib, B, m), P{});
                    o.num(F1::off(A, it));
                    o.buf(A);
                    o.buf(B);
                }, scls, [&] { return cat(fl, " a=", keys(a), " b=", keys(b), " pred=", P::name); });
            }
        });
    }
    if constexpr (F1::rank >= 1 && F2::rank >= 1) {
#define C06_SEARCH(NAME)                                                                                                        \
    if (c.want(#NAME "(first,last,s_first,s_last)")) {                                                                          \
        c.run(#NAME "(first,last,s_first,s_last)", nt, [&](auto lib, Obs& o) {                                                  \
            Buf<E> A(mem<F1>(a));                                                                                                        \
            Buf<E> B(mem<F2>(b));                                                                                                        \
            auto it = C06_ALG(NAME)(lib, F1::at(lib, A, 0), F1::at(lib, A, n), F2::at(lib, B, 0), F2::at(lib, B, m));           \
            o.num(F1::off(A, it));                                                                                              \
            o.buf(A);                                                                                                           \
            o.buf(B);                                                                                                           \
        }, scls, kase0);                                                                                                        \
    }                                                                                                                           \
    for_types(BinPreds{}, [&](auto pred) {                                                                                      \
        using P = decltype(pred);                                                                                               \
        if (c.want(#NAME "(first,last,s_first,s_last,pred)")) {                                                                 \
            c.run(#NAME "(first,last,s_first,s_last,pred)", nt, [&](auto lib, Obs& o) {                                         \
                Buf<E> A(mem<F1>(a));                                                                                                    \
                Buf<E> B(mem<F2>(b));                                                                                                    \
                auto it = C06_ALG(NAME)(lib, F1::at(lib, A, 0), F1::at(lib, A, n), F2::at(lib, B, 0), F2::at(lib, B, m), P{});  \
                o.num(F1::off(A, it));                                                                                          \
                o.buf(A);                                                                                                       \
                o.buf(B);                                                                                                       \
            }, scls, [&] { return cat(fl, " a=", keys(a), " b=", keys(b), " pred=", P::name); });                               \
        }                                                                                                                       \
    });
        C06_SEARCH(search)
        C06_SEARCH(find_end)
#undef C06_SEARCH
        if (c.want("search(first,last,default_searcher)")) {
            c.run("search(first,last,default_searcher)", nt, [&](auto lib, Obs& o) {
                Buf<E> A(mem<F1>(a));
                Buf<E> B(mem<F2>(b));
                auto nf = F2::at(lib, B, 0);
                auto nl = F2::at(lib, B, m);
                if constexpr (decltype(lib)::is_etl) {
                    auto it = etl::search(F1::at(lib, A, 0), F1::at(lib, A, n), etl::default_searcher<decltype(nf), EqMod2>(nf, nl, EqMod2{}));
                    o.num(F1::off(A, it));
                } else {
                    auto it = std::search(F1::at(lib, A, 0), F1::at(lib, A, n), std::default_searcher<decltype(nf), EqMod2>(nf, nl, EqMod2{}));
                    o.num(F1::off(A, it));
                }
                o.buf(A);
                o.buf(B);
            }, scls, [&] { return cat(fl, " a=", keys(a), " b=", keys(b), " pred=eqmod2"); });
        }
    }
}

template <typename F>
void job_one(mc::Reporter& r, int qL, int tL)
{
    Ctx c(r);
    auto const bd   = bounds(r, qL, 0, tL, 0);
    auto const pool = make_pool(bd.L, 3, 0);
    r.count("sequences", pool.size());
    for (auto const& a : pool) {
        if (c.out_of_time()) { break; }
        one_range<F>(c, a);
    }
    r.sample(cat(F::name, ": every sequence of length 0..", bd.L, " over keys {0,1,2}: one-range algorithms, every value 0..3 / predicate / comparator"));
    r.sample(cat(F::name, " a=", keys(pool.back()), " (last sequence)"));
}

template <typename F1, typename F2>
void job_two(mc::Reporter& r, int qL, int qM, int tL, int tM, int sL, int sM)
{
    Ctx c(r);
    auto const bd    = bounds(r, qL, qM, tL, tM, sL, sM);
    auto const pool  = make_pool(bd.L, 3, 0);
    auto const pool2 = make_pool(bd.M, 3, second_tag0);
    r.count("sequences", pool.size() * pool2.size());
    for (auto const& a : pool) {
        if (c.out_of_time()) { break; }
        for (auto const& b : pool2) { two_ranges<F1, F2>(c, a, b); }
    }
    r.sample(cat(F1::name, "/", F2::name, ": every a of length 0..", bd.L, " x every b of length 0..", bd.M,
        " over keys {0,1,2}: two-range algorithms, every predicate / comparator"));
    r.sample(cat(F1::name, "/", F2::name, " a=", keys(pool.back()), " b=", keys(pool2.back()), " (last pair)"));
}

} // namespace

int main(int argc, char** argv)
{
    mc::Main m(argc, argv);
    std::vector<std::string> const both{"quick", "thorough"};
#if defined(MC_FLAVOUR_SAN)
    // sanitizer build: only the raw-pointer jobs (the wrappers check their own ranges; keeps the compile small)
#if !defined(MC_PART) || MC_PART == 1
    m.job("one/ptr", both, [](mc::Reporter& r) { job_one<PtrF>(r, 5, 8); });
#endif
#if !defined(MC_PART) || MC_PART == 2
    m.job("two/ptr+ptr", both, [](mc::Reporter& r) { job_two<PtrF, PtrF>(r, 4, 4, 7, 5, 5, 4); });
#endif
#else
#if !defined(MC_PART) || MC_PART == 1
    m.job("one/ptr", both, [](mc::Reporter& r) { job_one<PtrF>(r, 5, 8); });
    m.job("one/input", both, [](mc::Reporter& r) { job_one<InF>(r, 5, 8); });
    m.job("one/fwd", both, [](mc::Reporter& r) { job_one<FwdF>(r, 5, 8); });
    m.job("sub/one/ptr", both, sub([](mc::Reporter& r) { job_one<PtrF>(r, 5, 8); }));
    m.job("sub/one/input", both, sub([](mc::Reporter& r) { job_one<InF>(r, 5, 8); }));
    m.job("sub/one/fwd", both, sub([](mc::Reporter& r) { job_one<FwdF>(r, 5, 8); }));
#endif
#if !defined(MC_PART) || MC_PART == 5
    m.job("one/bidi", both, [](mc::Reporter& r) { job_one<BidiF>(r, 5, 8); });
    m.job("one/ra", both, [](mc::Reporter& r) { job_one<RaF>(r, 5, 8); });
    m.job("one/rev", both, [](mc::Reporter& r) { job_one<RevF>(r, 5, 7); });
    m.job("sub/one/bidi", both, sub([](mc::Reporter& r) { job_one<BidiF>(r, 5, 8); }));
    m.job("sub/one/rev", both, sub([](mc::Reporter& r) { job_one<RevF>(r, 5, 7); }));
#endif
#if !defined(MC_PART) || MC_PART == 2
    m.job("two/ptr+ptr", both, [](mc::Reporter& r) { job_two<PtrF, PtrF>(r, 4, 4, 7, 5, 5, 4); });
    m.job("two/input+input", both, [](mc::Reporter& r) { job_two<InF, InF>(r, 4, 4, 7, 5, 5, 4); });
    m.job("sub/two/ptr+ptr", both, sub([](mc::Reporter& r) { job_two<PtrF, PtrF>(r, 4, 4, 7, 5, 5, 4); }));
#endif
#if !defined(MC_PART) || MC_PART == 3
    m.job("two/fwd+fwd", both, [](mc::Reporter& r) { job_two<FwdF, FwdF>(r, 4, 4, 7, 5, 5, 4); });
    m.job("two/ra+ra", both, [](mc::Reporter& r) { job_two<RaF, RaF>(r, 4, 4, 7, 5, 5, 4); });
    m.job("sub/two/fwd+fwd", both, sub([](mc::Reporter& r) { job_two<FwdF, FwdF>(r, 4, 4, 7, 5, 5, 4); }));
#endif
#if !defined(MC_PART) || MC_PART == 4
    m.job("two/input+fwd", both, [](mc::Reporter& r) { job_two<InF, FwdF>(r, 4, 3, 7, 4, 5, 4); });
    m.job("two/bidi+rev", both, [](mc::Reporter& r) { job_two<BidiF, RevF>(r, 4, 3, 7, 4, 5, 4); });
    m.job("sub/two/input+fwd", both, sub([](mc::Reporter& r) { job_two<InF, FwdF>(r, 4, 3, 7, 4, 5, 4); }));
    m.job("sub/two/bidi+rev", both, sub([](mc::Reporter& r) { job_two<BidiF, RevF>(r, 4, 3, 7, 4, 5, 4); }));
#endif
#endif
    return m.run();
}
