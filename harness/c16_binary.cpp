// C16, exact binary/ternary set and the special-case ladders:
//   * fmod, remainder, copysign, fmin, fmax, fdim, nextafter on B x B (B = boundary set, about
//     700 values incl. both signs) for float and double, run-time entry point and
//     constant-evaluation path, bit for bit against glibc;
//   * fma on Bs^3 (Bs = small boundary set, 77 values) bit for bit against glibc's fma (the
//     run-time entry point is the builtin; C requires a single rounding);
//   * midpoint(a,b): midpoint(a,a) == a, NaN propagation, finite for finite arguments,
//     between a and b (finite arguments), within 1 ulp of the exact (a+b)/2 evaluated in the wider type;
//   * lerp(a,b,t): exact at t = 0 and t = 1, lerp(a,a,t) == a, finite for t in [0,1],
//     monotonic in t ([c.math.lerp]);
//   * hypot(x,y): +inf if any argument is infinite (even if the other is NaN), else NaN if
//     any is NaN; hypot(x,+-0) == fabs(x) (C Annex F.10.4.3); symmetric in its arguments and
//     their signs.  (Accuracy of hypot is part of c16_approx.cpp.)
#include "c16_common.hpp"

#include <etl/cmath.hpp>
#include <etl/numeric.hpp>

#include <numeric>

using namespace c16;
using mc::cat;
namespace gcem = etl::detail::gcem;

namespace {

template <typename T>
using hi_t = std::conditional_t<std::is_same_v<T, float>, double, long double>;

template <typename T>
struct Binary {
    std::string subject, shortname; // subject: typed while the table is built, then moved to `call`
    u64 (*impl)(T, T);
    u64 (*ref)(T, T);
    Rel rel;
    std::string call;
};

template <typename T>
std::vector<Binary<T>> subjects()
{
    std::string const tn = FT<T>::n;
    auto S2              = [&](char const* f) { return cat(f, "(", tn, ",", tn, ")"); };
    std::vector<Binary<T>> v;
    v.push_back({S2("etl::fmod"), "fmod", [](T x, T y) { return canon(etl::fmod(x, y)); }, [](T x, T y) { return canon(std::fmod(x, y)); }, Rel::quotient});
    v.push_back({S2("etl::remainder"), "remainder", [](T x, T y) { return canon(etl::remainder(x, y)); }, [](T x, T y) { return canon(std::remainder(x, y)); }, Rel::quotient});
    v.push_back({S2("etl::copysign"), "copysign", [](T x, T y) { return canon(etl::copysign(x, y)); }, [](T x, T y) { return canon(std::copysign(x, y)); }, Rel::order});
    v.push_back({S2("etl::fmin"), "fmin", [](T x, T y) { return canon(etl::fmin(x, y)); }, [](T x, T y) { return canon(std::fmin(x, y)); }, Rel::order});
    v.push_back({S2("etl::fmax"), "fmax", [](T x, T y) { return canon(etl::fmax(x, y)); }, [](T x, T y) { return canon(std::fmax(x, y)); }, Rel::order});
    v.push_back({S2("etl::fdim"), "fdim", [](T x, T y) { return canon(etl::fdim(x, y)); }, [](T x, T y) { return canon(std::fdim(x, y)); }, Rel::order});
    v.push_back({S2("etl::nextafter"), "nextafter", [](T x, T y) { return canon(etl::nextafter(x, y)); }, [](T x, T y) { return canon(std::nextafter(x, y)); }, Rel::order});
    // constant-evaluation paths
    v.push_back({S2("gcem::fmod"), "cx-fmod", [](T x, T y) { return canon(gcem::fmod(x, y)); }, [](T x, T y) { return canon(std::fmod(x, y)); }, Rel::quotient});
    v.push_back({S2("gcem::min"), "cx-fmin", [](T x, T y) { return canon(gcem::min(x, y)); }, [](T x, T y) { return canon(std::fmin(x, y)); }, Rel::order});
    v.push_back({S2("gcem::max"), "cx-fmax", [](T x, T y) { return canon(gcem::max(x, y)); }, [](T x, T y) { return canon(std::fmax(x, y)); }, Rel::order});
    v.push_back({S2("detail::copysign_fallback"), "cx-copysign", [](T x, T y) { return canon(etl::detail::copysign_fallback<T>(x, y)); }, [](T x, T y) { return canon(std::copysign(x, y)); }, Rel::order});
    for (auto& u : v) {
        u.call    = u.subject;
        u.subject = strip_args(u.call);
    }
    return v;
}

template <typename T>
void sweep(mc::Reporter& r, Binary<T> const& u, std::vector<T> const& B)
{
    if (!r.want(u.subject)) { return; }
    u64 evals = 0, nontrivial = 0;
    constexpr Kind K = std::is_same_v<T, float> ? Kind::f32 : Kind::f64;
    u64 san          = mc::san_hits();
    static Slot slots[7 * 7 * 5];
    for (auto& s : slots) { s = Slot{}; }
    T cx{}, cy{};
    mc::Trap const t = mc::guarded([&] {
        for (T x : B) {
            cx = x;
            tick();
            for (T y : B) {
                cy             = y;
                u64 const got  = u.impl(x, y);
                u64 const want = u.ref(x, y);
                ++evals;
                if (want != canon(x) && want != canon(y)) { ++nontrivial; }
                if (got != want) {
                    Slot& s = slots[bin_class_id(x, y, u.rel)];
                    if (s.count++ == 0) {
                        s.kase   = cat(u.call, " x=", show(x), " y=", show(y));
                        s.detail = cat("tetl=", show_result(got, K), " libm=", show_result(want, K));
                    }
                }
#if defined(MC_FLAVOUR_SAN)
                if (mc::san_hits() != san) {
                    san = mc::san_hits();
                    r.violation("C02", u.subject, bin_class(x, y, u.rel), cat(u.call, " x=", show(x), " y=", show(y)),
                        "sanitizer report during the call (see job log)");
                }
#endif
            }
            r.outcome(mc::hash_mix(mc::hash_str(u.call), u.ref(x, B[B.size() / 3])));
        }
    });
    (void)san;
    for (int i = 0; i < 7 * 7 * 5; ++i) {
        if (slots[i].count != 0) { report(r, "C16", u.subject, bin_class_name(i, u.rel), slots[i].kase, slots[i].detail, slots[i].count); }
    }
    if (t != mc::Trap::none) {
        r.violation(t == mc::Trap::assert_fired ? "C05" : "C02", u.subject, cat("trap-", mc::trap_name(t), ":", bin_class(cx, cy, u.rel)),
            cat(u.call, " x=", show(cx), " y=", show(cy)), mc::describe_trap(t));
        r.not_exhaustive("trap");
    }
    if (r.wants_sample()) { r.sample(cat(u.call, " x=", show(T(5.5)), " y=", show(T(-2)), " -> ", show_result(u.impl(T(5.5), T(-2)), K))); }
    r.count("evaluations", evals);
    r.count("distinct_nontrivial", nontrivial);
}

// ---------------------------------------------------------------------------------------
// fma
// ---------------------------------------------------------------------------------------
template <typename T>
void sweep_fma(mc::Reporter& r)
{
    std::string const call    = cat("etl::fma(", FT<T>::n, ",", FT<T>::n, ",", FT<T>::n, ")");
    std::string const subject = "etl::fma";
    if (!r.want(subject)) { return; }
    auto const B = make_boundary_small<T>();
    u64 evals = 0, nontrivial = 0;
    constexpr Kind K        = std::is_same_v<T, float> ? Kind::f32 : Kind::f64;
    T (*volatile ref)(T, T, T) = [](T a, T b, T c) -> T { return std::fma(a, b, c); };
    for (T x : B) {
        tick();
        for (T y : B) {
            for (T z : B) {
                u64 const got  = canon(etl::fma(x, y, z));
                u64 const want = canon(ref(x, y, z));
                ++evals;
                if (want != canon(T(x * y + z))) { ++nontrivial; } // the fused result differs from the two-rounding one
                if (got != want) {
                    r.violation("C16", subject, cat(coarse(x), ",", coarse(y), ",", coarse(z)), cat(call, " x=", show(x), " y=", show(y), " z=", show(z)),
                        cat("tetl=", show_result(got, K), " libm=", show_result(want, K)));
                }
            }
        }
        r.outcome(mc::hash_mix(mc::hash_str(subject), canon(ref(x, T(3), T(0.1)))));
    }
    r.sample(cat(call, " x=", show(T(0.1)), " y=", show(T(10)), " z=", show(T(-1)), " -> ", show(etl::fma(T(0.1), T(10), T(-1)))));
    r.count("evaluations", evals);
    r.count("distinct_nontrivial", nontrivial);
}

// ---------------------------------------------------------------------------------------
// midpoint
// ---------------------------------------------------------------------------------------
template <typename T>
void sweep_midpoint(mc::Reporter& r)
{
    using H                   = hi_t<T>;
    std::string const call    = cat("etl::midpoint(", FT<T>::n, ",", FT<T>::n, ")");
    std::string const subject = "etl::midpoint";
    if (!r.want(subject)) { return; }
    auto const B = make_boundary<T>();
    u64 evals = 0, nontrivial = 0;
    auto viol = [&](char const* rule, T a, T b, T got, std::string const& extra) {
        r.violation("C16", subject, cat(rule, ":", coarse(a), ",", coarse(b)), cat(call, " a=", show(a), " b=", show(b)), cat("tetl=", show(got), " ", extra));
    };
    for (T a : B) {
        tick();
        for (T b : B) {
            T const got = etl::midpoint(a, b);
            ++evals;
            bool const an = a != a, bn = b != b;
            if (an || bn) {
                if (!(got != got)) { viol("nan_propagation", a, b, got, "expected NaN"); }
                continue;
            }
            if (std::isinf(a) || std::isinf(b)) { continue; } // not specified by [numeric.ops.midpoint]
            if (a != b) { ++nontrivial; }
            if (a == b && canon(got) != canon(a) && !(a == 0)) { viol("equal_arguments", a, b, got, "midpoint(a,a) must be a"); }
            if (!std::isfinite(got)) {
                viol("overflow", a, b, got, "finite arguments must give a finite result");
                continue;
            }
            T const lo = a < b ? a : b, hi = a < b ? b : a;
            if (got < lo || got > hi) { viol("between", a, b, got, "result outside [min(a,b), max(a,b)]"); }
            // exact value in the wider type: a + b needs at most one rounding there; compare within 1 ulp of T
            H const exact = H(a) / 2 + H(b) / 2;
            T const near  = T(exact);
            T const up    = std::nextafter(near, std::numeric_limits<T>::infinity());
            T const dn    = std::nextafter(near, -std::numeric_limits<T>::infinity());
            if (!(got >= dn && got <= up)) { viol("one_ulp", a, b, got, cat("exact (a+b)/2 = ", show(exact))); }
        }
        r.outcome(mc::hash_mix(mc::hash_str(subject), canon(std::midpoint(a, T(1)))));
    }
    r.sample(cat(call, " a=", show(std::numeric_limits<T>::max()), " b=", show(std::numeric_limits<T>::max()), " -> ",
        show(etl::midpoint(std::numeric_limits<T>::max(), std::numeric_limits<T>::max()))));
    r.count("evaluations", evals);
    r.count("distinct_nontrivial", nontrivial);
}

// ---------------------------------------------------------------------------------------
// lerp
// ---------------------------------------------------------------------------------------
template <typename T>
void sweep_lerp(mc::Reporter& r)
{
    std::string const call    = cat("etl::lerp(", FT<T>::n, ",", FT<T>::n, ",", FT<T>::n, ")");
    std::string const subject = "etl::lerp";
    if (!r.want(subject)) { return; }
    std::vector<T> AB;
    for (T v : make_boundary_small<T>()) {
        if (std::isfinite(v)) { AB.push_back(v); }
    }
    // t values, ascending, finite
    std::vector<T> ts = {T(-1e30), T(-1000), T(-2), T(-1), T(-0.5), -std::numeric_limits<T>::epsilon(), -std::numeric_limits<T>::min(), T(-0.0), T(0),
        std::numeric_limits<T>::denorm_min(), std::numeric_limits<T>::min(), std::numeric_limits<T>::epsilon(), T(0.1), T(0.25), T(1) / T(3), T(0.5),
        T(0.5) + std::numeric_limits<T>::epsilon(), T(0.75), T(0.9), T(1) - std::numeric_limits<T>::epsilon() / 2, T(1),
        T(1) + std::numeric_limits<T>::epsilon(), T(1.5), T(2), T(3), T(1000), T(1e30)};
    u64 evals = 0, nontrivial = 0;
    auto viol = [&](char const* rule, T a, T b, T t, std::string const& detail) {
        r.violation("C16", subject, cat(rule, ":", coarse(a), ",", coarse(b)), cat(call, " a=", show(a), " b=", show(b), " t=", show(t)), detail);
    };
    for (T a : AB) {
        tick();
        for (T b : AB) {
            T prev{};
            bool have_prev = false;
            T prev_t{};
            for (T t : ts) {
                T const got = etl::lerp(a, b, t);
                ++evals;
                if (a != b && t != 0 && t != 1) { ++nontrivial; }
                if (t == 0 && !(got == a)) { viol("t=0", a, b, t, cat("tetl=", show(got), " must be a")); }
                if (t == 1 && !(got == b)) { viol("t=1", a, b, t, cat("tetl=", show(got), " must be b")); }
                if (a == b && !(got == a)) { viol("a==b", a, b, t, cat("tetl=", show(got), " must be a")); }
                if (t >= 0 && t <= 1 && !std::isfinite(got)) { viol("finite_in_unit_interval", a, b, t, cat("tetl=", show(got))); }
                // monotonicity: CMP(lerp(a,b,t2), lerp(a,b,t1)) * CMP(t2,t1) * CMP(b,a) >= 0
                if (have_prev && !(got != got) && !(prev != prev) && t > prev_t) {
                    int const cr = (got > prev) - (got < prev);
                    int const cb = (b > a) - (b < a);
                    if (cr * cb < 0) { viol("monotonic", a, b, t, cat("lerp(t=", show(prev_t), ")=", show(prev), " lerp(t=", show(t), ")=", show(got))); }
                }
                prev      = got;
                prev_t    = t;
                have_prev = true;
            }
        }
        r.outcome(mc::hash_mix(mc::hash_str(subject), canon(std::lerp(a, T(1), T(0.25)))));
    }
    r.sample(cat(call, " a=", show(T(1)), " b=", show(T(3)), " t=", show(T(0.25)), " -> ", show(etl::lerp(T(1), T(3), T(0.25)))));
    r.count("evaluations", evals);
    r.count("distinct_nontrivial", nontrivial);
}

// ---------------------------------------------------------------------------------------
// hypot special cases
// ---------------------------------------------------------------------------------------
template <typename T>
void sweep_hypot(mc::Reporter& r)
{
    std::string const call    = cat("etl::hypot(", FT<T>::n, ",", FT<T>::n, ")");
    std::string const subject = "etl::hypot";
    if (!r.want(subject)) { return; }
    auto const B = make_boundary<T>();
    u64 evals = 0, nontrivial = 0;
    auto viol = [&](char const* rule, T x, T y, std::string const& detail) {
        r.violation("C16", subject, cat(rule, ":", coarse(x), ",", coarse(y)), cat(call, " x=", show(x), " y=", show(y)), detail);
    };
    for (T x : B) {
        tick();
        for (T y : B) {
            T const got = etl::hypot(x, y);
            ++evals;
            if (std::isinf(x) || std::isinf(y)) {
                if (!(std::isinf(got) && got > 0)) { viol("infinite_argument", x, y, cat("tetl=", show(got), " must be +inf")); }
                continue;
            }
            if (x != x || y != y) {
                if (!(got != got)) { viol("nan_argument", x, y, cat("tetl=", show(got), " must be NaN")); }
                continue;
            }
            if (x != 0 && y != 0) { ++nontrivial; }
            if (y == 0 && canon(got) != canon(std::fabs(x))) { viol("zero_argument", x, y, cat("tetl=", show(got), " must be fabs(x)=", show(std::fabs(x)))); }
            if (x == 0 && canon(got) != canon(std::fabs(y))) { viol("zero_argument", x, y, cat("tetl=", show(got), " must be fabs(y)=", show(std::fabs(y)))); }
            T const s1 = etl::hypot(y, x);
            T const s2 = etl::hypot(x, -y);
            T const s3 = etl::hypot(-x, y);
            if (canon(s1) != canon(got) || canon(s2) != canon(got) || canon(s3) != canon(got)) {
                viol("symmetry", x, y, cat("hypot(x,y)=", show(got), " hypot(y,x)=", show(s1), " hypot(x,-y)=", show(s2), " hypot(-x,y)=", show(s3)));
            }
        }
        r.outcome(mc::hash_mix(mc::hash_str(subject), canon(std::hypot(x, T(3)))));
    }
    r.sample(cat(call, " x=", show(T(3)), " y=", show(T(-4)), " -> ", show(etl::hypot(T(3), T(-4)))));
    r.count("evaluations", evals);
    r.count("distinct_nontrivial", nontrivial);
}

} // namespace

int main(int argc, char** argv)
{
    mc::Main m(argc, argv);
    static auto const s32 = subjects<float>();
    static auto const s64 = subjects<double>();
    for (std::size_t i = 0; i < s32.size(); ++i) {
        m.job(cat("f32/BxB/", s32[i].shortname), {"quick", "thorough"}, [i](mc::Reporter& r) {
            r.count("configurations", 1);
            sweep(r, s32[i], make_boundary<float>());
        });
    }
    for (std::size_t i = 0; i < s64.size(); ++i) {
        m.job(cat("f64/BxB/", s64[i].shortname), {"quick", "thorough"}, [i](mc::Reporter& r) {
            r.count("configurations", 1);
            sweep(r, s64[i], make_boundary<double>());
        });
    }
    m.job("f32/fma", {"quick", "thorough"}, [](mc::Reporter& r) { r.count("configurations", 1); sweep_fma<float>(r); });
    m.job("f64/fma", {"quick", "thorough"}, [](mc::Reporter& r) { r.count("configurations", 1); sweep_fma<double>(r); });
    m.job("f32/midpoint", {"quick", "thorough"}, [](mc::Reporter& r) { r.count("configurations", 1); sweep_midpoint<float>(r); });
    m.job("f64/midpoint", {"quick", "thorough"}, [](mc::Reporter& r) { r.count("configurations", 1); sweep_midpoint<double>(r); });
    m.job("f32/lerp", {"quick", "thorough"}, [](mc::Reporter& r) { r.count("configurations", 1); sweep_lerp<float>(r); });
    m.job("f64/lerp", {"quick", "thorough"}, [](mc::Reporter& r) { r.count("configurations", 1); sweep_lerp<double>(r); });
    m.job("f32/hypot", {"quick", "thorough"}, [](mc::Reporter& r) { r.count("configurations", 1); sweep_hypot<float>(r); });
    m.job("f64/hypot", {"quick", "thorough"}, [](mc::Reporter& r) { r.count("configurations", 1); sweep_hypot<double>(r); });
    return m.run();
}
