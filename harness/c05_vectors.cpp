// C05 fault enumeration, part 1: static_vector, inplace_vector, stack over static_vector,
// static_set range constructor.  Machinery and oracle: c05_common.hpp.
//
// Catalogue (operation x object state x violating argument):
//   states     every size 0..N of every configured capacity N, reached by growing ("fresh") and by
//              filling up and shrinking (stale elements behind size())
//   arguments  index/count: first invalid value, +1, 2^32, SIZE_MAX (thorough: +2, +7, 2^31,
//              2^63-1, 2^63, SIZE_MAX-1); iterators: begin()-1, end()+1, reversed pairs, end() where
//              a dereferenceable iterator is required; ranges one longer than the free space
//   controls   the nearest valid argument of every call template
// Round 2: remaining (overload, position) pairs of static_vector insert/emplace/push_back, stack top() const /
// push(rvalue) / emplace, and the members of flat_set<int, static_vector<int,N>> and static_set<int,N> that hand an
// iterator or a growth request to the underlying static_vector (job "set-members").
// API notes: static_vector::insert/move_insert/assign/ctor(first,last) only compile for pointers
// (static_assert(is_pointer_v)), so single-pass ranges cannot be passed at all.
#include "c05_common.hpp"

#include <etl/flat_set.hpp>
#include <etl/inplace_vector.hpp>
#include <etl/set.hpp>
#include <etl/stack.hpp>
#include <etl/vector.hpp>

using namespace c05;

#ifndef MC_PART
    #define MC_PART 1
#endif

namespace {

struct NT { // non-trivial element: selects static_vector_non_trivial_storage
    int v;
    NT() : v(0) { }
    NT(int x) : v(x) { }
    NT(NT const& o) : v(o.v) { }
    NT& operator=(NT const& o)
    {
        v = o.v;
        return *this;
    }
    ~NT() { v = -77; }
    friend bool operator<(NT const& a, NT const& b) { return a.v < b.v; }
};

template <typename T>
char const* tname()
{
    if constexpr (std::is_same_v<T, int>) { return "int"; }
    if constexpr (std::is_same_v<T, char>) { return "char"; }
    if constexpr (std::is_same_v<T, short>) { return "short"; }
    return "NT";
}

template <typename V>
void build(V& v, std::size_t s, bool shrunk)
{
    using T = typename V::value_type;
    if (shrunk) {
        while (v.size() < v.capacity()) { v.push_back(T(int(40 + v.size()))); }
        while (v.size() > s) { v.pop_back(); }
    } else {
        while (v.size() < s) { v.push_back(T(int(10 + v.size()))); }
    }
}

inline std::vector<std::size_t> sizes_of(std::size_t N)
{
    std::vector<std::size_t> out;
    if (N <= 8) {
        for (std::size_t s = 0; s <= N; ++s) { out.push_back(s); }
    } else {
        out = {0, 1, N - 1, N};
    }
    return out;
}

enum Pos { before_begin, at_begin, at_end, past_end };
inline char const* pos_text(Pos p)
{
    switch (p) {
    case before_begin: return "begin()-1";
    case at_begin: return "begin()";
    case at_end: return "end()";
    default: return "end()+1";
    }
}
inline char const* pos_class(Pos p) { return p == before_begin ? "pos_before_begin" : "pos_past_end"; }
template <typename V>
auto pos_of(V& v, Pos p)
{
    switch (p) {
    case before_begin: return v.begin() - 1;
    case at_begin: return v.begin();
    case at_end: return v.end();
    default: return v.end() + 1;
    }
}

// ---------------------------------------------------------------------------------------------
// static_vector
// ---------------------------------------------------------------------------------------------

template <typename T, std::size_t N>
void static_vector_cases(Catalogue& c, bool thorough)
{
    using V           = etl::static_vector<T, N>;
    c.config          = cat("static_vector<", tname<T>(), ",", N, ">");
    char const* const F = "_vector/static_vector.hpp|_container/index.hpp";

    // constructors (state independent)
    for (auto b : bad_values(N + 1, thorough)) {
        c.bad("static_vector::static_vector(n)", cat("count_", b.cls), cat("static_vector(", show_sz(b.v), ")"), F,
            [=](Ctx& cx) {
                V* p = cx.raw<V>();
                cx.call([&] { ::new (static_cast<void*>(p)) V(b.v); });
            },
            false);
        c.bad("static_vector::static_vector(n,value)", cat("count_", b.cls), cat("static_vector(", show_sz(b.v), ", T(7))"), F,
            [=](Ctx& cx) {
                V* p = cx.raw<V>();
                T x(7);
                cx.call([&] { ::new (static_cast<void*>(p)) V(b.v, x); });
            },
            false);
    }
    c.ok("static_vector::static_vector(n)", "count_eq_capacity", cat("static_vector(", N, ")"), [=](Ctx& cx) {
        V* p = cx.raw<V>();
        cx.call([&] { ::new (static_cast<void*>(p)) V(N); });
    });
    c.ok("static_vector::static_vector(n,value)", "count_eq_capacity", cat("static_vector(", N, ", T(7))"), [=](Ctx& cx) {
        V* p = cx.raw<V>();
        T x(7);
        cx.call([&] { ::new (static_cast<void*>(p)) V(N, x); });
    });
    for (std::size_t extra : {std::size_t(1), std::size_t(2)}) {
        c.bad("static_vector::static_vector(first,last)", "range_gt_capacity", cat("static_vector(p, p+", N + extra, ")"), F,
            [=](Ctx& cx) {
                V* p   = cx.raw<V>();
                T* src = cx.raw<T>(N + extra);
                for (std::size_t i = 0; i < N + extra; ++i) { ::new (static_cast<void*>(src + i)) T(int(i)); }
                cx.call([&] { ::new (static_cast<void*>(p)) V(src, src + N + extra); });
            },
            false);
    }
    c.bad("static_vector::static_vector(first,last)", "range_reversed", "static_vector(p+1, p)", F,
        [=](Ctx& cx) {
            V* p   = cx.raw<V>();
            T* src = cx.raw<T>(2);
            for (std::size_t i = 0; i < 2; ++i) { ::new (static_cast<void*>(src + i)) T(int(i)); }
            cx.call([&] { ::new (static_cast<void*>(p)) V(src + 1, src); });
        },
        false);
    c.ok("static_vector::static_vector(first,last)", "range_eq_capacity", cat("static_vector(p, p+", N, ")"), [=](Ctx& cx) {
        V* p   = cx.raw<V>();
        T* src = cx.raw<T>(N + 1);
        for (std::size_t i = 0; i < N + 1; ++i) { ::new (static_cast<void*>(src + i)) T(int(i)); }
        cx.call([&] { ::new (static_cast<void*>(p)) V(src, src + N); });
    });

    for (std::size_t s : sizes_of(N)) {
        for (int shrunk = 0; shrunk < (s < N ? 2 : 1); ++shrunk) {
            std::string const st = cat("size=", s, shrunk ? " (shrunk from full)" : "");
            auto mk              = [s, shrunk](Ctx& cx) {
                V* v = cx.make<V>();
                build(*v, s, shrunk != 0);
                return v;
            };
            std::size_t const free_ = N - s;

            // --- element access -----------------------------------------------------------
            for (auto b : bad_values(s, thorough)) {
                c.bad("static_vector::operator[](pos)", cat("index_", b.cls), cat(st, ": v[", show_sz(b.v), "]"), F, [=](Ctx& cx) {
                    V* v = mk(cx);
                    cx.call([&] { touch((*v)[b.v]); });
                });
                c.bad("static_vector::operator[](pos) const", cat("index_", b.cls), cat(st, ": cv[", show_sz(b.v), "]"), F,
                    [=](Ctx& cx) {
                        V const* v = mk(cx);
                        cx.call([&] { touch((*v)[b.v]); });
                    });
            }
            if (s > 0) {
                c.ok("static_vector::operator[](pos)", "index_last", cat(st, ": v[", s - 1, "]"), [=](Ctx& cx) {
                    V* v = mk(cx);
                    cx.call([&] { touch((*v)[s - 1]); });
                });
                c.ok("static_vector::operator[](pos) const", "index_last", cat(st, ": cv[", s - 1, "]"), [=](Ctx& cx) {
                    V const* v = mk(cx);
                    cx.call([&] { touch((*v)[s - 1]); });
                });
            }
            auto access = [&](char const* subject, auto fn) {
                auto body = [=](Ctx& cx) {
                    V* v = mk(cx);
                    cx.call([&] { fn(*v); });
                };
                if (s == 0) {
                    c.bad(subject, "empty", cat(st, ": ", subject), F, body);
                } else {
                    c.ok(subject, "non_empty", cat(st, ": ", subject), body);
                }
            };
            access("static_vector::front()", [](V& v) { touch(v.front()); });
            access("static_vector::front() const", [](V& v) { touch(static_cast<V const&>(v).front()); });
            access("static_vector::back()", [](V& v) { touch(v.back()); });
            access("static_vector::back() const", [](V& v) { touch(static_cast<V const&>(v).back()); });
            access("static_vector::pop_back()", [](V& v) { v.pop_back(); });

            // --- growth by one --------------------------------------------------------------
            auto grow1 = [&](char const* subject, auto fn) {
                auto body = [=](Ctx& cx) {
                    V* v = mk(cx);
                    T x(99);
                    cx.call([&] { fn(*v, x); });
                };
                if (s == N) {
                    c.bad(subject, "full", cat(st, ": ", subject), F, body);
                } else {
                    c.ok(subject, "not_full", cat(st, ": ", subject), body);
                }
            };
            grow1("static_vector::push_back(value)", [](V& v, T& x) { v.push_back(x); });
            grow1("static_vector::emplace_back(args)", [](V& v, T& x) { v.emplace_back(x); });
            if constexpr (N > 0) {
                grow1("static_vector::insert(pos,value) at begin()", [](V& v, T& x) { sink(v.insert(v.begin(), x)); });
                grow1("static_vector::insert(pos,value) at end()", [](V& v, T& x) { sink(v.insert(v.end(), x)); });
                grow1("static_vector::insert(pos,rvalue) at begin()", [](V& v, T& x) { sink(v.insert(v.begin(), T(x))); });
                grow1("static_vector::emplace(pos,args) at end()", [](V& v, T& x) { sink(v.emplace(v.end(), x)); });
                // round 2: the remaining (overload, position) pairs
                grow1("static_vector::insert(pos,rvalue) at end()", [](V& v, T& x) { sink(v.insert(v.end(), T(x))); });
                grow1("static_vector::emplace(pos,args) at begin()", [](V& v, T& x) { sink(v.emplace(v.begin(), x)); });
                grow1("static_vector::insert(pos,n,value) n=1 at end()", [](V& v, T& x) { sink(v.insert(v.end(), std::size_t(1), x)); });
                grow1("static_vector::push_back(rvalue)", [](V& v, T& x) { v.push_back(T(x)); });
            }

            if constexpr (N > 0) {
                // --- position out of range (vector not full, so only the position is wrong) ---
                if (s < N) {
                    for (Pos p : {before_begin, past_end}) {
                        auto posrow = [&](char const* subject, auto fn) {
                            c.bad(subject, pos_class(p), cat(st, ": ", subject, " with pos=", pos_text(p)), F, [=](Ctx& cx) {
                                V* v = mk(cx);
                                T x(99);
                                T* src  = cx.raw<T>(1);
                                ::new (static_cast<void*>(src)) T(5);
                                auto it = pos_of(*v, p);
                                cx.call([&] { fn(*v, it, x, src); });
                            });
                        };
                        posrow("static_vector::insert(pos,value)", [](V& v, auto it, T& x, T*) { sink(v.insert(it, x)); });
                        posrow("static_vector::insert(pos,rvalue)", [](V& v, auto it, T& x, T*) { sink(v.insert(it, T(x))); });
                        posrow("static_vector::emplace(pos,args)", [](V& v, auto it, T& x, T*) { sink(v.emplace(it, x)); });
                        posrow("static_vector::insert(pos,n,value)", [](V& v, auto it, T& x, T*) { sink(v.insert(it, std::size_t(1), x)); });
                        posrow("static_vector::insert(pos,first,last)", [](V& v, auto it, T&, T* src) { sink(v.insert(it, src, src + 1)); });
                        posrow("static_vector::move_insert(pos,first,last)", [](V& v, auto it, T&, T* src) { sink(v.move_insert(it, src, src + 1)); });
                    }
                }

                // --- insert(pos, n, value) ---------------------------------------------------
                {
                    // size() + n must not exceed capacity(); values for which size() + n wraps get their own class
                    std::vector<BadArg> counts = bad_values(free_ + 1, thorough);
                    if (s > 0) {
                        counts.push_back({SZMAX - s, "max"});
                        counts.push_back({SZMAX - s + 1, "max"});
                    }
                    {
                        std::vector<BadArg> uniq;
                        for (auto b : counts) {
                            bool dup = false;
                            for (auto const& u : uniq) { dup = dup || u.v == b.v; }
                            if (dup) { continue; }
                            if (b.v > SZMAX - s) { b.cls = "sum_wraps"; }
                            uniq.push_back(b);
                        }
                        counts = uniq;
                    }
                    for (auto b : counts) {
                        for (Pos p : {at_begin, at_end}) {
                            if (p == at_begin && s == 0) { continue; }
                            c.bad("static_vector::insert(pos,n,value)", cat("count_", b.cls),
                                cat(st, ": insert(", pos_text(p), ", ", show_sz(b.v), ", T(99))"), F, [=](Ctx& cx) {
                                    V* v = mk(cx);
                                    T x(99);
                                    auto it = pos_of(*v, p);
                                    cx.call([&] { sink(v->insert(it, b.v, x)); });
                                });
                        }
                    }
                    c.ok("static_vector::insert(pos,n,value)", "count_eq_free", cat(st, ": insert(begin(), ", free_, ", T(99))"),
                        [=](Ctx& cx) {
                            V* v = mk(cx);
                            T x(99);
                            cx.call([&] { sink(v->insert(v->begin(), free_, x)); });
                        });
                }

                // --- insert / move_insert / assign (first,last) ---------------------------------
                auto rangerow = [&](char const* subject, bool relative, auto fn) {
                    // relative: the range is added to the content (limit = free space), else it replaces it
                    std::size_t const limit = relative ? free_ : N;
                    // lengths that wrap to an acceptable value in an 8- or 16-bit size type (the storage bases use
                    // smallest_size_t<Capacity>): 256 and 65536 more than a fitting length, and the multiples themselves
                    // (added after seeded breakage c05_range_insert_check_narrowed_count)
                    struct Extra {
                        std::size_t extra;
                        char const* cls;
                    };
                    std::vector<Extra> extras{{1, nullptr}, {2, nullptr}};
                    if (limit < 256) {
                        extras.push_back({256, "range_len_wraps_8_bit_size_type"});
                        extras.push_back({256 - limit, "range_len_wraps_8_bit_size_type"});
                        extras.push_back({65536, "range_len_wraps_16_bit_size_type"});
                        extras.push_back({65536 - limit, "range_len_wraps_16_bit_size_type"});
                    }
                    for (auto const [extra, wcls] : extras) {
                        if (extra == 0) { continue; }
                        c.bad(subject, wcls != nullptr ? wcls : (relative ? "range_gt_free" : "range_gt_capacity"), cat(st, ": ", subject, " with ", limit + extra, " elements"), F,
                            [=](Ctx& cx) {
                                V* v   = mk(cx);
                                T* src = cx.raw<T>(limit + extra);
                                for (std::size_t i = 0; i < limit + extra; ++i) { ::new (static_cast<void*>(src + i)) T(int(70 + i)); }
                                cx.call([&] { fn(*v, src, src + limit + extra); });
                            });
                    }
                    c.bad(subject, "range_reversed", cat(st, ": ", subject, " with (p+1, p)"), F, [=](Ctx& cx) {
                        V* v   = mk(cx);
                        T* src = cx.raw<T>(2);
                        for (std::size_t i = 0; i < 2; ++i) { ::new (static_cast<void*>(src + i)) T(int(70 + i)); }
                        cx.call([&] { fn(*v, src + 1, src); });
                    });
                    c.ok(subject, relative ? "range_eq_free" : "range_eq_capacity", cat(st, ": ", subject, " with ", limit, " elements"), [=](Ctx& cx) {
                        V* v   = mk(cx);
                        T* src = cx.raw<T>(limit + 1);
                        for (std::size_t i = 0; i < limit + 1; ++i) { ::new (static_cast<void*>(src + i)) T(int(70 + i)); }
                        cx.call([&] { fn(*v, src, src + limit); });
                    });
                };
                rangerow("static_vector::insert(pos,first,last)", true, [](V& v, T* f, T* l) { sink(v.insert(v.begin(), f, l)); });
                rangerow("static_vector::move_insert(pos,first,last)", true, [](V& v, T* f, T* l) { sink(v.move_insert(v.end(), f, l)); });
                rangerow("static_vector::assign(first,last)", false, [](V& v, T* f, T* l) { v.assign(f, l); });

                // --- erase -------------------------------------------------------------------
                {
                    struct E1 {
                        Pos p;
                        char const* cls;
                    };
                    for (E1 e : {E1{before_begin, "pos_before_begin"}, E1{at_end, "pos_eq_end"}, E1{past_end, "pos_past_end"}}) {
                        c.bad("static_vector::erase(pos)", e.cls, cat(st, ": erase(", pos_text(e.p), ")"), F, [=](Ctx& cx) {
                            V* v    = mk(cx);
                            auto it = pos_of(*v, e.p);
                            cx.call([&] { sink(v->erase(it)); });
                        });
                    }
                    if (s > 0) {
                        c.ok("static_vector::erase(pos)", "pos_begin", cat(st, ": erase(begin())"), [=](Ctx& cx) {
                            V* v = mk(cx);
                            cx.call([&] { sink(v->erase(v->begin())); });
                        });
                        c.ok("static_vector::erase(pos)", "pos_last", cat(st, ": erase(end()-1)"), [=](Ctx& cx) {
                            V* v = mk(cx);
                            cx.call([&] { sink(v->erase(v->end() - 1)); });
                        });
                    }
                    struct E2 {
                        Pos a, b;
                        char const* cls;
                        bool needs_elements;
                    };
                    for (E2 e : {E2{before_begin, at_begin, "first_before_begin", false}, E2{before_begin, at_end, "first_before_begin", false},
                             E2{at_end, past_end, "last_past_end", false}, E2{at_begin, past_end, "last_past_end", false},
                             E2{past_end, past_end, "first_past_end", false}, E2{at_end, at_begin, "range_reversed", true}}) {
                        if (e.needs_elements && s == 0) { continue; }
                        c.bad("static_vector::erase(first,last)", e.cls, cat(st, ": erase(", pos_text(e.a), ", ", pos_text(e.b), ")"), F,
                            [=](Ctx& cx) {
                                V* v   = mk(cx);
                                auto f = pos_of(*v, e.a);
                                auto l = pos_of(*v, e.b);
                                cx.call([&] { sink(v->erase(f, l)); });
                            });
                    }
                    for (E2 e : {E2{at_begin, at_end, "whole", false}, E2{at_end, at_end, "empty_at_end", false}, E2{at_begin, at_begin, "empty_at_begin", false}}) {
                        c.ok("static_vector::erase(first,last)", e.cls, cat(st, ": erase(", pos_text(e.a), ", ", pos_text(e.b), ")"), [=](Ctx& cx) {
                            V* v   = mk(cx);
                            auto f = pos_of(*v, e.a);
                            auto l = pos_of(*v, e.b);
                            cx.call([&] { sink(v->erase(f, l)); });
                        });
                    }
                }
            }

            // --- resize / assign(n, value) ----------------------------------------------------
            for (auto b : bad_values(N + 1, thorough)) {
                c.bad("static_vector::resize(n)", cat("count_", b.cls), cat(st, ": resize(", show_sz(b.v), ")"), F, [=](Ctx& cx) {
                    V* v = mk(cx);
                    cx.call([&] { v->resize(b.v); });
                });
                c.bad("static_vector::resize(n,value)", cat("count_", b.cls), cat(st, ": resize(", show_sz(b.v), ", T(99))"), F, [=](Ctx& cx) {
                    V* v = mk(cx);
                    T x(99);
                    cx.call([&] { v->resize(b.v, x); });
                });
                c.bad("static_vector::assign(n,value)", cat("count_", b.cls), cat(st, ": assign(", show_sz(b.v), ", T(99))"), F, [=](Ctx& cx) {
                    V* v = mk(cx);
                    T x(99);
                    cx.call([&] { v->assign(b.v, x); });
                });
            }
            c.ok("static_vector::resize(n)", "count_eq_capacity", cat(st, ": resize(", N, ")"), [=](Ctx& cx) {
                V* v = mk(cx);
                cx.call([&] { v->resize(N); });
            });
            c.ok("static_vector::resize(n,value)", "count_eq_capacity", cat(st, ": resize(", N, ", T(99))"), [=](Ctx& cx) {
                V* v = mk(cx);
                T x(99);
                cx.call([&] { v->resize(N, x); });
            });
            c.ok("static_vector::resize(n)", "count_0", cat(st, ": resize(0)"), [=](Ctx& cx) {
                V* v = mk(cx);
                cx.call([&] { v->resize(0); });
            });
            c.ok("static_vector::assign(n,value)", "count_eq_capacity", cat(st, ": assign(", N, ", T(99))"), [=](Ctx& cx) {
                V* v = mk(cx);
                T x(99);
                cx.call([&] { v->assign(N, x); });
            });

            // --- stack adaptor ----------------------------------------------------------------
            if (!shrunk) {
                using S   = etl::stack<T, V>;
                auto mks  = [s](Ctx& cx) {
                    S* st2 = cx.make<S>();
                    for (std::size_t i = 0; i < s; ++i) { st2->push(T(int(10 + i))); }
                    return st2;
                };
                auto srow = [&](char const* subject, bool bad, char const* cls, auto fn) {
                    auto body = [=](Ctx& cx) {
                        S* st2 = mks(cx);
                        T x(99);
                        cx.call([&] { fn(*st2, x); });
                    };
                    if (bad) {
                        c.bad(subject, cls, cat(st, ": ", subject), F, body);
                    } else {
                        c.ok(subject, cls, cat(st, ": ", subject), body);
                    }
                };
                srow("stack<static_vector>::top()", s == 0, s == 0 ? "empty" : "non_empty", [](S& q, T&) { touch(q.top()); });
                srow("stack<static_vector>::pop()", s == 0, s == 0 ? "empty" : "non_empty", [](S& q, T&) { q.pop(); });
                srow("stack<static_vector>::push(value)", s == N, s == N ? "full" : "not_full", [](S& q, T& x) { q.push(x); });
                // round 2: the other overloads
                srow("stack<static_vector>::top() const", s == 0, s == 0 ? "empty" : "non_empty", [](S& q, T&) { touch(static_cast<S const&>(q).top()); });
                srow("stack<static_vector>::push(rvalue)", s == N, s == N ? "full" : "not_full", [](S& q, T& x) { q.push(T(x)); });
                srow("stack<static_vector>::emplace(args)", s == N, s == N ? "full" : "not_full", [](S& q, T& x) { q.emplace(x); });
            }
        }
    }
}

// ---------------------------------------------------------------------------------------------
// inplace_vector
// ---------------------------------------------------------------------------------------------

template <typename T, std::size_t N>
void inplace_vector_cases(Catalogue& c, bool thorough)
{
    using V             = etl::inplace_vector<T, N>;
    c.config            = cat("inplace_vector<", tname<T>(), ",", N, ">");
    char const* const F = "_inplace_vector/inplace_vector.hpp";
    for (std::size_t s : sizes_of(N)) {
        for (int shrunk = 0; shrunk < (s < N ? 2 : 1); ++shrunk) {
            std::string const st = cat("size=", s, shrunk ? " (shrunk from full)" : "");
            auto mk              = [s, shrunk](Ctx& cx) {
                V* v = cx.make<V>(); // value-initialised over zeroed storage: size() == 0
                if constexpr (N > 0) {
                    if (shrunk) {
                        while (v->size() < N) { (void)v->try_push_back(T(int(40 + v->size()))); }
                        while (v->size() > s) { v->pop_back(); }
                    } else {
                        while (v->size() < s) { (void)v->try_push_back(T(int(10 + v->size()))); }
                    }
                }
                return v;
            };
            for (auto b : bad_values(s, thorough)) {
                if (N == 0) { b.cls = "zero_capacity"; } // the N == 0 specialisation is a separate piece of code
                c.bad("inplace_vector::operator[](n)", cat("index_", b.cls), cat(st, ": v[", show_sz(b.v), "]"), F, [=](Ctx& cx) {
                    V* v = mk(cx);
                    cx.call([&] { touch((*v)[b.v]); });
                });
                c.bad("inplace_vector::operator[](n) const", cat("index_", b.cls), cat(st, ": cv[", show_sz(b.v), "]"), F, [=](Ctx& cx) {
                    V const* v = mk(cx);
                    cx.call([&] { touch((*v)[b.v]); });
                });
            }
            if (s > 0) {
                c.ok("inplace_vector::operator[](n)", "index_last", cat(st, ": v[", s - 1, "]"), [=](Ctx& cx) {
                    V* v = mk(cx);
                    cx.call([&] { touch((*v)[s - 1]); });
                });
                c.ok("inplace_vector::operator[](n) const", "index_last", cat(st, ": cv[", s - 1, "]"), [=](Ctx& cx) {
                    V const* v = mk(cx);
                    cx.call([&] { touch((*v)[s - 1]); });
                });
            }
            auto row = [&](char const* subject, bool bad, char const* cls, auto fn) {
                auto body = [=](Ctx& cx) {
                    V* v = mk(cx);
                    T x(99);
                    cx.call([&] { fn(*v, x); });
                };
                if (bad) {
                    c.bad(subject, cls, cat(st, ": ", subject), F, body);
                } else {
                    c.ok(subject, cls, cat(st, ": ", subject), body);
                }
            };
            char const* const e = N == 0 ? "zero_capacity" : s == 0 ? "empty" : "non_empty";
            char const* const f = N == 0 ? "zero_capacity" : s == N ? "full" : "not_full";
            row("inplace_vector::front()", s == 0, e, [](V& v, T&) { touch(v.front()); });
            row("inplace_vector::front() const", s == 0, e, [](V& v, T&) { touch(static_cast<V const&>(v).front()); });
            row("inplace_vector::back()", s == 0, e, [](V& v, T&) { touch(v.back()); });
            row("inplace_vector::back() const", s == 0, e, [](V& v, T&) { touch(static_cast<V const&>(v).back()); });
            row("inplace_vector::pop_back()", s == 0, e, [](V& v, T&) { v.pop_back(); });
            row("inplace_vector::unchecked_push_back(value)", s == N, f, [](V& v, T& x) { sink(v.unchecked_push_back(x)); });
            row("inplace_vector::unchecked_push_back(rvalue)", s == N, f, [](V& v, T& x) { sink(v.unchecked_push_back(T(x))); });
            row("inplace_vector::unchecked_emplace_back(args)", s == N, f, [](V& v, T& x) { sink(v.unchecked_emplace_back(x)); });
            // wide-contract siblings: never the handler
            row("inplace_vector::try_push_back(value)", false, f, [](V& v, T& x) { sink(v.try_push_back(x)); });
            row("inplace_vector::try_emplace_back(args)", false, f, [](V& v, T& x) { sink(v.try_emplace_back(x)); });
        }
    }
}

// ---------------------------------------------------------------------------------------------
// static_set range constructor
// ---------------------------------------------------------------------------------------------

template <std::size_t N>
void static_set_cases(Catalogue& c)
{
    using S             = etl::static_set<int, N>;
    c.config            = cat("static_set<int,", N, ">");
    char const* const F = "_set/static_set.hpp";
    for (std::size_t extra : {std::size_t(1), std::size_t(2)}) {
        for (int distinct = 0; distinct < 2; ++distinct) {
            // the precondition is on the length of the range, also when all keys are equal
            c.bad("static_set::static_set(first,last)", distinct ? "range_gt_capacity" : "range_gt_capacity+equal_keys",
                cat("static_set(p, p+", N + extra, ") ", distinct ? "distinct keys" : "equal keys"), F,
                [=](Ctx& cx) {
                    S* p     = cx.raw<S>();
                    int* src = cx.buffer<int>(N + extra, 1, distinct ? 1 : 0);
                    cx.call([&] { ::new (static_cast<void*>(p)) S(src, src + N + extra); });
                },
                false);
        }
    }
    c.bad("static_set::static_set(first,last)", "range_reversed", "static_set(p+1, p)", F,
        [=](Ctx& cx) {
            S* p     = cx.raw<S>();
            int* src = cx.buffer<int>(2, 1, 1);
            cx.call([&] { ::new (static_cast<void*>(p)) S(src + 1, src); });
        },
        false);
    c.ok("static_set::static_set(first,last)", "range_eq_capacity", cat("static_set(p, p+", N, ")"), [=](Ctx& cx) {
        S* p     = cx.raw<S>();
        int* src = cx.buffer<int>(N + 1, 1, 1);
        cx.call([&] { ::new (static_cast<void*>(p)) S(src, src + N); });
    });
}

// ---------------------------------------------------------------------------------------------
// round 2: flat_set over static_vector and static_set - the members that forward an iterator or a growth request
// to the underlying static_vector.  Keys are 10, 20, ... 10*s; "new" keys lie between / behind them.
// ---------------------------------------------------------------------------------------------

template <typename Set, std::size_t N>
void set_member_cases(Catalogue& c, char const* kind, bool isFlat)
{
    using It            = typename Set::iterator;
    c.config            = isFlat ? cat("flat_set<int,static_vector<int,", N, ">>") : cat("static_set<int,", N, ">");
    char const* const F = "_vector/static_vector.hpp|_set/static_set.hpp|_flat_set/flat_set.hpp";
    std::string const K = kind;
    for (std::size_t s = 0; s <= N; ++s) {
        std::string const st = cat("size=", s);
        auto mk              = [s](Ctx& cx) {
            Set* v = cx.make<Set>();
            for (std::size_t i = 0; i < s; ++i) { v->insert(int(10 * (i + 1))); }
            return v;
        };
        auto row = [&](bool bad, std::string subject, std::string cls, std::string text, auto fn) {
            auto body = [=](Ctx& cx) {
                Set* v = mk(cx);
                cx.call([&] { fn(*v); });
            };
            if (bad) {
                c.bad(K + "::" + subject, cls, cat(st, ": ", text), F, body);
            } else {
                c.ok(K + "::" + subject, cls, cat(st, ": ", text), body);
            }
        };
        // --- growth: a new key into a full set is a precondition violation of flat_set<static_vector> (the
        // container cannot grow); static_set documents a wide contract (returns {nullptr,false}): control
        bool const full = s == N;
        for (int which = 0; which < 3; ++which) { // new key in front / behind, existing key
            if (which == 2 && s == 0) { continue; }
            int const key         = which == 0 ? 5 : which == 1 ? int(10 * s + 5) : int(10 * s);
            bool const isNew      = which != 2;
            bool const bad        = isFlat && full && isNew;
            std::string const cls = cat(full ? "full" : "not_full", isNew ? (which == 0 ? "+new_key_front" : "+new_key_back") : "+duplicate");
            row(bad, "insert(value)", cls, cat("insert(", key, ")"), [=](Set& v) { int const k = key; sink(v.insert(k)); });
            row(bad, "insert(rvalue)", cls, cat("insert(int(", key, "))"), [=](Set& v) { sink(v.insert(int(key))); });
            row(bad, "emplace(args)", cls, cat("emplace(", key, ")"), [=](Set& v) { sink(v.emplace(key)); });
            if constexpr (requires(Set& v, int const& k) { v.emplace_hint(v.cbegin(), k); }) {
                row(bad, "emplace_hint(pos,args)", cls, cat("emplace_hint(begin(), ", key, ")"), [=](Set& v) { sink(v.emplace_hint(v.cbegin(), key)); });
                row(bad, "insert(pos,value)", cls, cat("insert(end(), ", key, ")"), [=](Set& v) { int const k = key; sink(v.insert(v.cend(), k)); });
                row(bad, "insert(pos,rvalue)", cls, cat("insert(begin(), int(", key, "))"), [=](Set& v) { sink(v.insert(v.cbegin(), int(key))); });
            }
            {
                auto body = [=](Ctx& cx) {
                    Set* v   = mk(cx);
                    int* src = cx.buffer<int>(2, key, 0); // the same key twice
                    cx.call([&] { v->insert(src, src + 2); });
                };
                if (bad) {
                    c.bad(K + "::insert(first,last)", cls, cat(st, ": insert(p, p+2) with {", key, ", ", key, "}"), F, body);
                } else {
                    c.ok(K + "::insert(first,last)", cls, cat(st, ": insert(p, p+2) with {", key, ", ", key, "}"), body);
                }
            }
        }
        // --- erase(pos): pos must be dereferenceable
        if constexpr (N > 0) {
            struct E1 {
                Pos p;
                char const* cls;
            };
            auto erase1 = [&](std::string subject, auto conv) {
                for (E1 e : {E1{before_begin, "pos_before_begin"}, E1{at_end, "pos_eq_end"}, E1{past_end, "pos_past_end"}}) {
                    c.bad(K + "::" + subject, e.cls, cat(st, ": erase(", pos_text(e.p), ")"), F, [=](Ctx& cx) {
                        Set* v  = mk(cx);
                        auto it = conv(pos_of(*v, e.p));
                        cx.call([&] { sink(v->erase(it)); });
                    });
                }
                if (s > 0) {
                    c.ok(K + "::" + subject, "pos_begin", cat(st, ": erase(begin())"), [=](Ctx& cx) {
                        Set* v  = mk(cx);
                        auto it = conv(v->begin());
                        cx.call([&] { sink(v->erase(it)); });
                    });
                    c.ok(K + "::" + subject, "pos_last", cat(st, ": erase(end()-1)"), [=](Ctx& cx) {
                        Set* v  = mk(cx);
                        auto it = conv(v->end() - 1);
                        cx.call([&] { sink(v->erase(it)); });
                    });
                }
            };
            erase1("erase(pos)", [](It it) { return it; });
            if constexpr (requires(Set& v, typename Set::const_iterator ci) { v.erase(ci); }) {
                erase1("erase(const_pos)", [](It it) { return typename Set::const_iterator(it); });
            }
            struct E2 {
                Pos a, b;
                char const* cls;
                bool bad;
                bool needs_elements;
            };
            for (E2 e : {E2{before_begin, at_begin, "first_before_begin", true, false}, E2{before_begin, at_end, "first_before_begin", true, false},
                     E2{at_end, past_end, "last_past_end", true, false}, E2{at_begin, past_end, "last_past_end", true, false},
                     E2{past_end, past_end, "first_past_end", true, false}, E2{at_end, at_begin, "range_reversed", true, true},
                     E2{at_begin, at_end, "whole", false, false}, E2{at_end, at_end, "empty_at_end", false, false},
                     E2{at_begin, at_begin, "empty_at_begin", false, false}}) {
                if (e.needs_elements && s == 0) { continue; }
                auto body = [=](Ctx& cx) {
                    Set* v = mk(cx);
                    auto f = pos_of(*v, e.a);
                    auto l = pos_of(*v, e.b);
                    cx.call([&] { sink(v->erase(f, l)); });
                };
                std::string const text = cat(st, ": erase(", pos_text(e.a), ", ", pos_text(e.b), ")");
                if (e.bad) {
                    c.bad(K + "::erase(first,last)", e.cls, text, F, body);
                } else {
                    c.ok(K + "::erase(first,last)", e.cls, text, body);
                }
            }
            // erase(key): wide contract
            row(false, "erase(key)", "absent_key", "erase(5)", [](Set& v) { sink(v.erase(5)); });
            if (s > 0) { row(false, "erase(key)", "present_key", "erase(10)", [](Set& v) { sink(v.erase(10)); }); }
        }
    }
    if (isFlat) {
        // flat_set(first,last): more DISTINCT keys than the container can hold; N+2 elements with N distinct keys are fine
        for (std::size_t extra : {std::size_t(1), std::size_t(2)}) {
            c.bad(K + "::flat_set(first,last)", "distinct_keys_gt_capacity", cat("flat_set(p, p+", N + extra, ") distinct keys"), F,
                [=](Ctx& cx) {
                    Set* p   = cx.raw<Set>();
                    int* src = cx.buffer<int>(N + extra, 1, 1);
                    cx.call([&] { ::new (static_cast<void*>(p)) Set(src, src + N + extra); });
                },
                false);
        }
        c.ok(K + "::flat_set(first,last)", "distinct_keys_eq_capacity", cat("flat_set(p, p+", N, ") distinct keys"), [=](Ctx& cx) {
            Set* p   = cx.raw<Set>();
            int* src = cx.buffer<int>(N + 1, 1, 1);
            cx.call([&] { ::new (static_cast<void*>(p)) Set(src, src + N); });
        });
        if constexpr (N > 0) {
            c.ok(K + "::flat_set(first,last)", "distinct_keys_eq_capacity+duplicates", cat("flat_set(p, p+", N + 2, ") with ", N, " distinct keys"), [=](Ctx& cx) {
                Set* p   = cx.raw<Set>();
                int* src = cx.buffer<int>(N + 2, 1, 1);
                src[N]     = src[0];
                src[N + 1] = src[N - 1];
                cx.call([&] { ::new (static_cast<void*>(p)) Set(src, src + N + 2); });
            });
        }
    }
}

template <std::size_t N>
void set_member_job_cases(Catalogue& c)
{
    set_member_cases<etl::flat_set<int, etl::static_vector<int, N>>, N>(c, "flat_set<static_vector>", true);
    set_member_cases<etl::static_set<int, N>, N>(c, "static_set", false);
}

template <typename T, std::size_t N>
void job_sv(mc::Main& m, std::vector<std::string> tiers)
{
    m.job(cat("static_vector<", tname<T>(), ",", N, ">"), tiers, [](mc::Reporter& r) {
        Catalogue c;
        static_vector_cases<T, N>(c, r.thorough());
        run(r, c);
    });
}
template <typename T, std::size_t N>
void job_iv(mc::Main& m, std::vector<std::string> tiers)
{
    m.job(cat("inplace_vector<", tname<T>(), ",", N, ">"), tiers, [](mc::Reporter& r) {
        Catalogue c;
        inplace_vector_cases<T, N>(c, r.thorough());
        run(r, c);
    });
}

} // namespace

int main(int argc, char** argv)
{
    mc::Main m(argc, argv);
    std::vector<std::string> const both{"quick", "thorough"};
    std::vector<std::string> const th{"thorough"};
#if MC_PART == 1
    job_sv<int, 0>(m, both);
    job_sv<int, 1>(m, both);
    job_sv<int, 3>(m, both);
#elif MC_PART == 2
    job_sv<NT, 2>(m, both);
    job_sv<NT, 0>(m, th);
#elif MC_PART == 3
    job_iv<int, 0>(m, both);
    job_iv<int, 1>(m, both);
    job_iv<int, 3>(m, both);
    job_iv<NT, 2>(m, both);
    m.job("static_set<int,N>", both, [](mc::Reporter& r) {
        Catalogue c;
        static_set_cases<1>(c);
        static_set_cases<3>(c);
        if (r.thorough()) {
            static_set_cases<2>(c);
            static_set_cases<4>(c);
        }
        run(r, c);
    });
    m.job("set-members", both, [](mc::Reporter& r) {
        Catalogue c;
        set_member_job_cases<1>(c);
        set_member_job_cases<3>(c);
        if (r.thorough()) {
            set_member_job_cases<2>(c);
            set_member_job_cases<4>(c);
        }
        run(r, c);
    });
#elif MC_PART == 4
    job_sv<int, 2>(m, th);
    job_sv<int, 4>(m, th);
    job_sv<char, 255>(m, th);
#elif MC_PART == 5
    job_sv<char, 256>(m, th);
    job_sv<NT, 1>(m, th);
    job_sv<NT, 3>(m, th);
#else
    job_iv<int, 2>(m, th);
    job_iv<int, 4>(m, th);
    job_iv<NT, 0>(m, th);
    job_iv<NT, 3>(m, th);
    job_iv<char, 255>(m, th);
    job_iv<char, 256>(m, th);
#endif
    return m.run();
}
