// C19, mdarray over layout_stride: the mapping is RUN-TIME state even when every extent is static (the stride
// array), so every operation that transfers an mdarray has to transfer the mapping as well (added after seeded
// breakage c19_mdarray_swap_stale_stride_mapping: swap() skipped the mapping for rank_dynamic() == 0 "because both
// describe the same index space"; the main mdarray harness only instantiates layout_left / layout_right, whose
// mappings are stateless for static extents).
// Enumerated: extents types {<2,3> static, <dyn,3>, <2,dyn>, dextents<2>} x index types {int, unsigned char,
// long} x every ordered pair (A, B) of 5 stride sets for a 2x3 index space (row-major, column-major, padded rows,
// padded columns, both padded) x operations {copy construction, move construction, copy assignment, move
// assignment, ADL swap, swap twice}; after each operation every observable of the target - extent(r), stride(r),
// mapping().strides(), the address and the value of every element through operator(), through
// operator[](array) and through to_mdspan() - must be the one the SOURCE had (closed-form strided formula over
// the source's container values), and the source of a copy must be unchanged.
#include "mc.hpp"

#include <etl/array.hpp>
#include <etl/mdarray.hpp>
#include <etl/mdspan.hpp>
#include <etl/utility.hpp>

#include <string>
#include <vector>

using mc::cat;

namespace {

struct Strides {
    int s0, s1;
    char const* name;
};
constexpr Strides sets[5] = {{3, 1, "row-major(3,1)"}, {1, 2, "column-major(1,2)"}, {4, 1, "padded-rows(4,1)"}, {1, 3, "padded-columns(1,3)"}, {5, 2, "both-padded(5,2)"}};
constexpr std::size_t CAP = 11; // largest required span: (2-1)*5 + (3-1)*2 + 1 = 10

template <typename E>
E make_ext()
{
    using I = typename E::index_type;
    if constexpr (E::rank_dynamic() == 0) {
        return E{};
    } else if constexpr (E::rank_dynamic() == 2) {
        return E{I(2), I(3)};
    } else if constexpr (E::static_extent(0) == etl::dynamic_extent) {
        return E{I(2)};
    } else {
        return E{I(3)};
    }
}

template <typename E>
struct Kit {
    using I   = typename E::index_type;
    using Map = etl::layout_stride::mapping<E>;
    using Ctr = etl::array<int, CAP>;
    using MA  = etl::mdarray<int, E, etl::layout_stride, Ctr>;

    static MA make(Strides const& s, int base)
    {
        Ctr c{};
        for (std::size_t k = 0; k < CAP; ++k) { c[k] = base + int(k); }
        return MA{Map{make_ext<E>(), etl::array<I, 2>{I(s.s0), I(s.s1)}}, c};
    }

    // returns an empty string if `x` looks exactly like an array built by make(s, base), else what differs
    static std::string differs(MA& x, Strides const& s, int base)
    {
        if (x.extent(0) != I(2) || x.extent(1) != I(3)) { return cat("extents (", long(x.extent(0)), ",", long(x.extent(1)), ")"); }
        if (x.stride(0) != I(s.s0) || x.stride(1) != I(s.s1)) { return cat("stride(r) = (", long(x.stride(0)), ",", long(x.stride(1)), ")"); }
        auto const st = x.mapping().strides();
        if (st[0] != I(s.s0) || st[1] != I(s.s1)) { return cat("mapping().strides() = (", long(st[0]), ",", long(st[1]), ")"); }
        // layout_stride::mapping::required_span_size() is declared but not defined in tetl (API gap): not called
        auto view = x.to_mdspan();
        MA const& cx = x;
        for (int i = 0; i < 2; ++i) {
            for (int j = 0; j < 3; ++j) {
                long const off = long(i) * s.s0 + long(j) * s.s1;
                int* const want = x.container_data() + off;
                if (&x(I(i), I(j)) != want) { return cat("&operator()(", i, ",", j, ") is at offset ", long(&x(I(i), I(j)) - x.container_data()), ", reference ", off); }
                if (&x[etl::array<I, 2>{I(i), I(j)}] != want) { return cat("&operator[]({", i, ",", j, "}) is at offset ", long(&x[etl::array<I, 2>{I(i), I(j)}] - x.container_data()), ", reference ", off); }
                if (&cx(I(i), I(j)) != want) { return cat("const operator()(", i, ",", j, ") refers to another element"); }
                if (&view(I(i), I(j)) != want) { return cat("to_mdspan()(", i, ",", j, ") is at offset ", long(&view(I(i), I(j)) - x.container_data()), ", reference ", off); }
                if (x(I(i), I(j)) != base + int(off)) { return cat("value of (", i, ",", j, ") = ", x(I(i), I(j)), ", reference ", base + int(off)); }
            }
        }
        return {};
    }
};

template <typename E>
void sweep(mc::Reporter& r, char const* ename)
{
    using K  = Kit<E>;
    using MA = typename K::MA;
    std::uint64_t ev = 0;
    auto report      = [&](char const* subject, char const* op, Strides const& a, Strides const& b, char const* which, std::string const& d) {
        if (!d.empty()) {
            r.violation("C19", subject, a.s0 == b.s0 && a.s1 == b.s1 ? "same_strides" : "different_strides",
                cat("mdarray<int,", ename, ",layout_stride>: ", op, " with A=", a.name, " B=", b.name), cat(which, ": ", d));
        }
    };
    for (auto const& a : sets) {
        for (auto const& b : sets) {
            {
                MA A = K::make(a, 100);
                MA c(A);
                report("mdarray::mdarray(mdarray const&)", "copy construction from A", a, b, "copy", K::differs(c, a, 100));
                report("mdarray::mdarray(mdarray const&)", "copy construction from A", a, b, "source", K::differs(A, a, 100));
                MA m(etl::move(c));
                report("mdarray::mdarray(mdarray&&)", "move construction from a copy of A", a, b, "target", K::differs(m, a, 100));
                ev += 3;
            }
            {
                MA A = K::make(a, 100), B = K::make(b, 200);
                B = A;
                report("mdarray::operator=(mdarray const&)", "B = A", a, b, "B", K::differs(B, a, 100));
                report("mdarray::operator=(mdarray const&)", "B = A", a, b, "A", K::differs(A, a, 100));
                ev += 2;
            }
            {
                MA A = K::make(a, 100), B = K::make(b, 200);
                B = etl::move(A);
                report("mdarray::operator=(mdarray&&)", "B = move(A)", a, b, "B", K::differs(B, a, 100));
                ++ev;
            }
            {
                MA A = K::make(a, 100), B = K::make(b, 200);
                swap(A, B);
                report("swap(mdarray&,mdarray&)", "swap(A,B)", a, b, "A", K::differs(A, b, 200));
                report("swap(mdarray&,mdarray&)", "swap(A,B)", a, b, "B", K::differs(B, a, 100));
                swap(A, B);
                report("swap(mdarray&,mdarray&)", "swap(A,B) twice", a, b, "A", K::differs(A, a, 100));
                report("swap(mdarray&,mdarray&)", "swap(A,B) twice", a, b, "B", K::differs(B, b, 200));
                ev += 4;
            }
            r.outcome(mc::hash_str(cat(a.name, b.name)));
        }
    }
    r.sample(cat("mdarray<int,", ename, ",layout_stride,array<int,11>>: 25 ordered pairs of stride sets x copy/move construction, copy/move assignment, swap, swap twice; every element address and value"));
    r.count("evaluations", ev * 6 * 5);
    r.count("distinct_nontrivial", 20 * 10);
}

} // namespace

int main(int argc, char** argv)
{
    mc::Main m(argc, argv);
    constexpr auto dyn = etl::dynamic_extent;
#define JOBS(I, iname)                                                                                                                                                         \
    m.job("mdarray-stride/" iname "/static", {"quick", "thorough"}, [](mc::Reporter& r) { sweep<etl::extents<I, 2, 3>>(r, "extents<" iname ",2,3>"); });                        \
    m.job("mdarray-stride/" iname "/dyn-first", {"quick", "thorough"}, [](mc::Reporter& r) { sweep<etl::extents<I, dyn, 3>>(r, "extents<" iname ",dyn,3>"); });                 \
    m.job("mdarray-stride/" iname "/dyn-second", {"quick", "thorough"}, [](mc::Reporter& r) { sweep<etl::extents<I, 2, dyn>>(r, "extents<" iname ",2,dyn>"); });                \
    m.job("mdarray-stride/" iname "/dynamic", {"quick", "thorough"}, [](mc::Reporter& r) { sweep<etl::dextents<I, 2>>(r, "dextents<" iname ",2>"); });
    JOBS(int, "int")
    JOBS(unsigned char, "uint8_t")
    JOBS(long, "int64_t")
#undef JOBS
    return m.run();
}
