// Shared machinery of the C12 harness (c12_chrono.cpp, c12_wide.cpp): etl::chrono duration /
// time_point arithmetic, comparison, conversion and rounding casts against (1) std::chrono on
// the same inputs and (2) exact rational arithmetic in __int128.
//
// Structure: every operation is instantiated once for tetl and once for libstdc++ from ONE
// template (pair_op<L,...> / self_op<L,...>, L = EtlL or StdL), so that both sides execute
// literally the same expression.  The templates are reduced to two plain function pointers per
// (rep configuration, From period, To period); everything else - value sets, the pre-check
// "is the exact result and every intermediate the standard prescribes representable", the
// exact model, classification, reporting - is ordinary non-template code in this header.
//
// Reps (round 2): int8/16/32/64_t, uint32/64_t, float, double, long double.
// Carrier: an operand is a V {i64, long double} (uint64_t counts travel as their bit pattern,
// a floating operand is always exactly representable in the rep it is meant for); a result is
// an Out {2 x i64, 2 x long double, ok}.  `ok == false` means "this library has no such
// overload" (API gap, decided by a requires-expression), never a violation.
#pragma once

#include "mc.hpp"

#include <etl/chrono.hpp>
#include <etl/ratio.hpp>
#include <etl/type_traits.hpp>

#include <chrono>
#include <cstdint>
#include <cmath>
#include <cstring>
#include <limits>
#include <ratio>
#include <string>
#include <type_traits>
#include <vector>

namespace c12 {

using i128 = __int128;
using u128 = unsigned __int128;
using i64  = std::int64_t;
using i32  = std::int32_t;
using i16  = std::int16_t;
using i8   = std::int8_t;
using u32  = std::uint32_t;
using u64  = std::uint64_t;

// ---------------------------------------------------------------------------------------
// periods
// ---------------------------------------------------------------------------------------

struct PeriodInfo {
    char const* name;
    i64 num, den; // in lowest terms (what duration::period names)
};

constexpr i64 cx_gcd(i64 a, i64 b) { return b == 0 ? a : cx_gcd(b, a % b); }

template <int I>
struct P;

// N/D as written at the source level (ratio<2,4> stays ratio<2,4> in the duration's template
// argument); info holds the reduced value
#define C12_PERIOD(I, NAME, N, D)                                                                                      \
    template <>                                                                                                        \
    struct P<I> {                                                                                                      \
        using e = etl::ratio<N, D>;                                                                                    \
        using s = std::ratio<N, D>;                                                                                    \
        static constexpr PeriodInfo info{NAME, (N) / cx_gcd(N, D), (D) / cx_gcd(N, D)};                                \
        static constexpr bool lowest = cx_gcd(N, D) == 1; /* as written */                                             \
    };
C12_PERIOD(0, "nano", 1, 1000000000)
C12_PERIOD(1, "micro", 1, 1000000)
C12_PERIOD(2, "milli", 1, 1000)
C12_PERIOD(3, "ratio<1>", 1, 1)
C12_PERIOD(4, "ratio<60>", 60, 1)
C12_PERIOD(5, "ratio<3600>", 3600, 1)
C12_PERIOD(6, "ratio<86400>", 86400, 1)
C12_PERIOD(7, "ratio<1,3>", 1, 3)
C12_PERIOD(8, "ratio<5,7>", 5, 7)
C12_PERIOD(9, "ratio<1001,30000>", 1001, 30000)
// round 2 (c12_wide.cpp): SI extremes, ratios not in lowest terms, two large coprime terms
C12_PERIOD(10, "atto", 1, 1000000000000000000)
C12_PERIOD(11, "femto", 1, 1000000000000000)
C12_PERIOD(12, "pico", 1, 1000000000000)
C12_PERIOD(13, "kilo", 1000, 1)
C12_PERIOD(14, "mega", 1000000, 1)
C12_PERIOD(15, "giga", 1000000000, 1)
C12_PERIOD(16, "tera", 1000000000000, 1)
C12_PERIOD(17, "peta", 1000000000000000, 1)
C12_PERIOD(18, "exa", 1000000000000000000, 1)
C12_PERIOD(19, "ratio<2,4>", 2, 4)
C12_PERIOD(20, "ratio<10,4>", 10, 4)
C12_PERIOD(21, "ratio<1000000007,998244353>", 1000000007, 998244353)
#undef C12_PERIOD

inline constexpr int n_periods = 22;

inline PeriodInfo period_info(int i)
{
    static PeriodInfo const t[n_periods] = {P<0>::info, P<1>::info, P<2>::info, P<3>::info, P<4>::info, P<5>::info,
        P<6>::info, P<7>::info, P<8>::info, P<9>::info, P<10>::info, P<11>::info, P<12>::info, P<13>::info, P<14>::info,
        P<15>::info, P<16>::info, P<17>::info, P<18>::info, P<19>::info, P<20>::info, P<21>::info};
    return t[i];
}

/// Is the quotient of period I by the periods of days, weeks, months and years representable
/// in intmax_t?  Where it is not (atto, femto, pico), [time.duration.cons] says the converting
/// constructor duration<P<I>> -> years does not take part in overload resolution ("no overflow
/// is induced in the conversion").  The pinned tetl evaluates ratio_divide in the constraint
/// instead, a hard error, so that the plain expression d + d - whose candidate set contains
/// operator+(years, year), operator+(months, month), operator+(days, day) ... - does not compile
/// for such a period.  That is probed with the compiler at run time (c12_wide.cpp, jobs
/// compile-probes/*, where it is a violation); the sweeps call operator+ with an explicit template
/// argument for these periods (no non-template candidates, same function) and skip round<To>,
/// whose body contains To + To.
/// Likewise P<I>::lowest: for a period argument that is not in lowest terms (ratio<2,4>) the
/// pinned round<To> and abs do not compile (they mix To with common_type_t<To,To>, which names
/// the reduced period); compile-probed, skipped in the sweeps.
template <int I>
struct CalendarSafe {
    static constexpr bool fits(i64 q)
    {
        i128 const g = cx_gcd(P<I>::info.num, q);
        return i128(P<I>::info.den) * (q / i64(g)) <= i128(std::numeric_limits<i64>::max());
    }
    static constexpr bool value = fits(86400) && fits(604800) && fits(2629746) && fits(31556952);
};

// ---------------------------------------------------------------------------------------
// carrier
// ---------------------------------------------------------------------------------------

enum class Rep : int { i8 = 0, i16, i32, i64, u32, u64, f32, f64, f80, other };

using f80 = long double;

template <typename R>
constexpr Rep rep_kind()
{
    if constexpr (std::is_same_v<R, float>) {
        return Rep::f32;
    } else if constexpr (std::is_same_v<R, double>) {
        return Rep::f64;
    } else if constexpr (std::is_same_v<R, long double>) {
        return Rep::f80;
    } else if constexpr (std::is_integral_v<R> && !std::is_same_v<R, bool>) {
        if constexpr (std::is_signed_v<R>) {
            return sizeof(R) == 1 ? Rep::i8 : sizeof(R) == 2 ? Rep::i16 : sizeof(R) == 4 ? Rep::i32 : sizeof(R) == 8 ? Rep::i64 : Rep::other;
        } else {
            return sizeof(R) == 4 ? Rep::u32 : sizeof(R) == 8 ? Rep::u64 : Rep::other;
        }
    } else {
        return Rep::other;
    }
}
inline char const* rep_name(Rep r)
{
    switch (r) {
    case Rep::i8: return "i8";
    case Rep::i16: return "i16";
    case Rep::i32: return "i32";
    case Rep::i64: return "i64";
    case Rep::u32: return "u32";
    case Rep::u64: return "u64";
    case Rep::f32: return "float";
    case Rep::f64: return "double";
    case Rep::f80: return "ldouble";
    default: return "other";
    }
}
inline bool is_fp(Rep r) { return r == Rep::f32 || r == Rep::f64 || r == Rep::f80; }
inline bool is_uns(Rep r) { return r == Rep::u32 || r == Rep::u64; }

// An operand: integer reps use i (uint64_t counts as their bit pattern), floating reps use f,
// which always holds a value that is exactly representable in the rep it is meant for.
struct V {
    i64 i{0};
    f80 f{0};
};

struct Out {
    i64 i[2]{0, 0};
    f80 f[2]{0, 0};
    bool ok{true};
};

/// value representation of a long double (10 bytes on x86-64); NaNs are one class: the sign
/// and payload of a NaN result are not specified by the C++ standard
struct FBits {
    std::uint64_t lo{0};
    std::uint16_t hi{0};
    bool operator==(FBits const&) const = default;
};
inline FBits bits(f80 d)
{
    FBits b;
    if (d != d) {
        b.lo = 0xC000000000000000ULL;
        b.hi = 0x7FFF;
        return b;
    }
    unsigned char raw[sizeof(f80)];
    std::memcpy(raw, &d, sizeof d);
    std::memcpy(&b.lo, raw, 8);
    std::memcpy(&b.hi, raw + 8, 2);
    return b;
}
inline bool zero_bits(f80 d) { return bits(d) == FBits{}; }
/// same value representation (NaNs: one class); the common case - equal, non-zero - without touching the bytes
inline bool same_f(f80 a, f80 b)
{
    if (a == b) { return a != 0 || std::signbit(a) == std::signbit(b); }
    return a != a && b != b;
}
inline bool same(Out const& a, Out const& b)
{
    return a.i[0] == b.i[0] && a.i[1] == b.i[1] && same_f(a.f[0], b.f[0]) && same_f(a.f[1], b.f[1]);
}
inline std::uint64_t hash_out(Out const& o)
{
    std::uint64_t h = mc::hash_mix(std::uint64_t(o.i[0]), std::uint64_t(o.i[1]));
    for (int k = 0; k < 2; ++k) {
        FBits const b = bits(o.f[k]);
        h             = mc::hash_mix(mc::hash_mix(h, b.lo), b.hi);
    }
    return h;
}

template <typename R>
constexpr R get(V v)
{
    if constexpr (std::is_floating_point_v<R>) {
        return static_cast<R>(v.f);
    } else {
        return static_cast<R>(v.i);
    }
}
template <typename R>
constexpr void put(Out& o, int k, R x)
{
    if constexpr (std::is_floating_point_v<R>) {
        o.f[k] = static_cast<f80>(x);
    } else {
        o.i[k] = static_cast<i64>(x);
    }
}

inline std::string dec(i128 v)
{
    if (v == 0) { return "0"; }
    bool const neg = v < 0;
    u128 u         = neg ? u128(0) - u128(v) : u128(v);
    std::string s;
    while (u != 0) {
        s.insert(s.begin(), char('0' + int(u % 10)));
        u /= 10;
    }
    if (neg) { s.insert(s.begin(), '-'); }
    return s;
}
inline std::string show_f(f80 d)
{
    char b[96];
    FBits const x = bits(d);
    std::snprintf(b, sizeof b, "%.21Lg(0x%04x%016llx)", d, unsigned(x.hi), static_cast<unsigned long long>(x.lo));
    return b;
}
/// the value of an integer operand / result as the rep sees it
inline i128 ival(i64 raw, Rep r) { return r == Rep::u64 ? i128(std::uint64_t(raw)) : i128(raw); }
inline i128 ival(V v, Rep r) { return ival(v.i, r); }
inline f80 fval(V v, Rep r) { return is_fp(r) ? v.f : f80(ival(v, r)); }
inline std::string show_v(V v, Rep r) { return is_fp(r) ? show_f(v.f) : dec(ival(v, r)); }
inline std::string show_out(Out const& o)
{
    if (!o.ok) { return "<no such overload>"; }
    std::string s = "{" + dec(o.i[0]);
    if (o.i[1] != 0) { s += "," + dec(o.i[1]); }
    if (!zero_bits(o.f[0]) || !zero_bits(o.f[1])) { s += ";" + show_f(o.f[0]) + "," + show_f(o.f[1]); }
    return s + "}";
}

// ---------------------------------------------------------------------------------------
// operations
// ---------------------------------------------------------------------------------------

// pair operations: a is a duration<FR,From> count, b a duration<TR,To> count
enum PairOp : int {
    P_CAST = 0,   // duration_cast<To>(a)
    P_FLOOR,      // floor<To>(a)
    P_CEIL,       // ceil<To>(a)
    P_ROUND,      // round<To>(a)               (To::rep integral)
    P_TO_COMMON,  // common_type_t<From,To>(a)  (converting constructor)
    P_IMPLICIT,   // To t = a;                  (only where std allows the implicit conversion)
    P_TP_CAST,    // time_point_cast<To>(time_point<Clock,From>(a))
    P_TP_FLOOR,
    P_TP_CEIL,
    P_TP_ROUND,
    P_TP_CONVERT,   // time_point<Clock,To> t = time_point<Clock,From>(a);  (where std allows it)
    P_TP_TO_COMMON, // common_type_t<time_point<From>, time_point<To>>(time_point<From>(a))
    P_ASSIGN,       // To t{}; t = From(a);  (converting constructor + assignment, where implicit)
    P_FIRST_BINARY,
    P_ADD = P_FIRST_BINARY, // a + b
    P_SUB,
    P_DIV, // a / b -> common rep
    P_MOD, // a % b
    P_EQ,
    P_NE,
    P_LT,
    P_LE,
    P_GT,
    P_GE,
    P_TP_EQ, // time_point<Clock,From>(a) == time_point<Clock,To>(b)
    P_TP_NE,
    P_TP_LT,
    P_TP_LE,
    P_TP_GT,
    P_TP_GE,
    P_TP_PLUS_D,   // time_point<From>(a) + To(b)
    P_D_PLUS_TP,   // From(a) + time_point<To>(b)
    P_TP_MINUS_D,  // time_point<From>(a) - To(b)
    P_TP_MINUS_TP, // time_point<From>(a) - time_point<To>(b)
    P_COUNT
};

inline char const* pair_subject(int op)
{
    switch (op) {
    case P_CAST: return "chrono::duration_cast";
    case P_FLOOR: return "chrono::floor(duration)";
    case P_CEIL: return "chrono::ceil(duration)";
    case P_ROUND: return "chrono::round(duration)";
    case P_TO_COMMON: return "duration::duration(duration<Rep2,Period2>)";
    case P_IMPLICIT: return "duration::duration(duration<Rep2,Period2>)";
    case P_TP_CAST: return "chrono::time_point_cast";
    case P_TP_FLOOR: return "chrono::floor(time_point)";
    case P_TP_CEIL: return "chrono::ceil(time_point)";
    case P_TP_ROUND: return "chrono::round(time_point)";
    case P_TP_CONVERT: return "time_point::time_point(time_point<Clock,Duration2>)";
    case P_TP_TO_COMMON: return "time_point::time_point(time_point<Clock,Duration2>)";
    case P_ASSIGN: return "duration::duration(duration<Rep2,Period2>)";
    case P_ADD: return "operator+(duration,duration)";
    case P_SUB: return "operator-(duration,duration)";
    case P_DIV: return "operator/(duration,duration)";
    case P_MOD: return "operator%(duration,duration)";
    case P_EQ: return "operator==(duration,duration)";
    case P_NE: return "operator!=(duration,duration)";
    case P_LT: return "operator<(duration,duration)";
    case P_LE: return "operator<=(duration,duration)";
    case P_GT: return "operator>(duration,duration)";
    case P_GE: return "operator>=(duration,duration)";
    case P_TP_EQ: return "operator==(time_point,time_point)";
    case P_TP_NE: return "operator!=(time_point,time_point)";
    case P_TP_LT: return "operator<(time_point,time_point)";
    case P_TP_LE: return "operator<=(time_point,time_point)";
    case P_TP_GT: return "operator>(time_point,time_point)";
    case P_TP_GE: return "operator>=(time_point,time_point)";
    case P_TP_PLUS_D: return "operator+(time_point,duration)";
    case P_D_PLUS_TP: return "operator+(duration,time_point)";
    case P_TP_MINUS_D: return "operator-(time_point,duration)";
    case P_TP_MINUS_TP: return "operator-(time_point,time_point)";
    }
    return "?";
}

// self operations: one duration type duration<R,Period>; a, b counts (b also as scalar)
enum SelfOp : int {
    S_POS = 0, // +a
    S_NEG,     // -a
    S_ABS,     // abs(a)
    S_PREINC,  // ++d  -> {returned, object}
    S_POSTINC, // d++
    S_PREDEC,
    S_POSTDEC,
    S_TP_PREINC, // ++tp
    S_TP_POSTINC,
    S_TP_PREDEC,
    S_TP_POSTDEC,
    S_TP_EPOCH, // time_point(a).time_since_epoch()
    S_ZERO,     // constants (a ignored)
    S_MIN,
    S_MAX,
    S_TP_MIN,
    S_TP_MAX,
    S_FIRST_BINARY,
    S_ADD_ASSIGN = S_FIRST_BINARY, // d += duration(b)
    S_SUB_ASSIGN,
    S_MUL_ASSIGN,   // d *= b
    S_DIV_ASSIGN,   // d /= b
    S_MOD_ASSIGN_S, // d %= b           (integral)
    S_MOD_ASSIGN_D, // d %= duration(b) (integral)
    S_MUL,          // d * b   (non-member, if present)
    S_MUL_REV,      // b * d
    S_DIV_S,        // d / b
    S_MOD_S,        // d % b
    S_TP_ADD_ASSIGN,
    S_TP_SUB_ASSIGN,
    S_COUNT
};

inline char const* self_subject(int op)
{
    switch (op) {
    case S_POS: return "duration::operator+()";
    case S_NEG: return "duration::operator-()";
    case S_ABS: return "chrono::abs";
    case S_PREINC: return "duration::operator++()";
    case S_POSTINC: return "duration::operator++(int)";
    case S_PREDEC: return "duration::operator--()";
    case S_POSTDEC: return "duration::operator--(int)";
    case S_TP_PREINC: return "time_point::operator++()";
    case S_TP_POSTINC: return "time_point::operator++(int)";
    case S_TP_PREDEC: return "time_point::operator--()";
    case S_TP_POSTDEC: return "time_point::operator--(int)";
    case S_TP_EPOCH: return "time_point::time_since_epoch";
    case S_ZERO: return "duration::zero";
    case S_MIN: return "duration::min";
    case S_MAX: return "duration::max";
    case S_TP_MIN: return "time_point::min";
    case S_TP_MAX: return "time_point::max";
    case S_ADD_ASSIGN: return "duration::operator+=";
    case S_SUB_ASSIGN: return "duration::operator-=";
    case S_MUL_ASSIGN: return "duration::operator*=";
    case S_DIV_ASSIGN: return "duration::operator/=";
    case S_MOD_ASSIGN_S: return "duration::operator%=(rep)";
    case S_MOD_ASSIGN_D: return "duration::operator%=(duration)";
    case S_MUL: return "operator*(duration,rep)";
    case S_MUL_REV: return "operator*(rep,duration)";
    case S_DIV_S: return "operator/(duration,rep)";
    case S_MOD_S: return "operator%(duration,rep)";
    case S_TP_ADD_ASSIGN: return "time_point::operator+=";
    case S_TP_SUB_ASSIGN: return "time_point::operator-=";
    }
    return "?";
}

// ---------------------------------------------------------------------------------------
// the two libraries behind one interface
// ---------------------------------------------------------------------------------------

struct EtlL {
    struct clock {
        using rep                       = i64;
        using period                    = etl::nano;
        using duration                  = etl::chrono::duration<i64, etl::nano>;
        using time_point                = etl::chrono::time_point<clock>;
        static constexpr bool is_steady = false;
    };
    template <typename R, typename Pd>
    using dur = etl::chrono::duration<R, typename Pd::e>;
    template <typename D>
    using tp = etl::chrono::time_point<clock, D>;
    template <typename A, typename B>
    using common = etl::common_type_t<A, B>;

    template <typename To, typename X>
    static constexpr auto cast(X const& x)
    {
        return etl::chrono::duration_cast<To>(x);
    }
    template <typename To, typename X>
    static constexpr auto floor(X const& x)
    {
        return etl::chrono::floor<To>(x);
    }
    template <typename To, typename X>
    static constexpr auto ceil(X const& x)
    {
        return etl::chrono::ceil<To>(x);
    }
    template <typename To, typename X>
    static constexpr auto round(X const& x)
    {
        return etl::chrono::round<To>(x);
    }
    template <typename X>
    static constexpr auto abs(X const& x) -> decltype(etl::chrono::abs(x))
    {
        return etl::chrono::abs(x);
    }
    // see CalendarSafe
    template <bool Natural, typename A, typename B>
    static constexpr auto add(A const& a, B const& b)
    {
        if constexpr (Natural) {
            return a + b;
        } else {
            return etl::chrono::operator+ <typename A::rep>(a, b);
        }
    }
    template <int TI>
    static constexpr bool round_ok = CalendarSafe<TI>::value && P<TI>::lowest;
    template <int I>
    static constexpr bool abs_ok = P<I>::lowest;
    template <bool Safe>
    static constexpr bool plus_probe_ok = Safe;
    // time_point_cast is declared with return type ToDuration in the pinned tree and its body
    // does not compile; the declared return type tells (without instantiating the body)
    // whether the function is usable
    template <typename To, typename TP>
    static constexpr bool has_tp_cast
        = std::is_same_v<decltype(etl::chrono::time_point_cast<To>(std::declval<TP const&>())), tp<To>>;
    template <typename To, typename TP>
    static constexpr auto tp_cast(TP const& x)
    {
        return etl::chrono::time_point_cast<To>(x);
    }
};

struct StdL {
    struct clock {
        using rep                       = i64;
        using period                    = std::nano;
        using duration                  = std::chrono::duration<i64, std::nano>;
        using time_point                = std::chrono::time_point<clock>;
        static constexpr bool is_steady = false;
    };
    template <typename R, typename Pd>
    using dur = std::chrono::duration<R, typename Pd::s>;
    template <typename D>
    using tp = std::chrono::time_point<clock, D>;
    template <typename A, typename B>
    using common = std::common_type_t<A, B>;

    template <typename To, typename X>
    static constexpr auto cast(X const& x)
    {
        return std::chrono::duration_cast<To>(x);
    }
    template <typename To, typename X>
    static constexpr auto floor(X const& x)
    {
        return std::chrono::floor<To>(x);
    }
    template <typename To, typename X>
    static constexpr auto ceil(X const& x)
    {
        return std::chrono::ceil<To>(x);
    }
    template <typename To, typename X>
    static constexpr auto round(X const& x)
    {
        return std::chrono::round<To>(x);
    }
    template <typename X>
    static constexpr auto abs(X const& x) -> decltype(std::chrono::abs(x))
    {
        return std::chrono::abs(x);
    }
    template <bool Natural, typename A, typename B>
    static constexpr auto add(A const& a, B const& b)
    {
        return a + b;
    }
    template <int TI>
    static constexpr bool round_ok = true;
    template <int I>
    static constexpr bool abs_ok = true;
    template <bool Safe>
    static constexpr bool plus_probe_ok = true;
    template <typename To, typename TP>
    static constexpr bool has_tp_cast = true;
    template <typename To, typename TP>
    static constexpr auto tp_cast(TP const& x)
    {
        return std::chrono::time_point_cast<To>(x);
    }
};

/// One pair operation on library L.  Returns ok == false when L has no such overload.
template <typename L, typename FR, typename TR, int FI, int TI>
Out pair_op(int op, V va, V vb)
{
    using FD  = typename L::template dur<FR, P<FI>>;
    using TD  = typename L::template dur<TR, P<TI>>;
    using CD  = typename L::template common<FD, TD>;
    using FTP = typename L::template tp<FD>;
    using TTP = typename L::template tp<TD>;

    constexpr bool to_int   = std::is_integral_v<TR>;
    constexpr bool both_int = std::is_integral_v<TR> && std::is_integral_v<FR>;
    constexpr bool natural  = CalendarSafe<FI>::value;                              // From + To as a plain expression
    constexpr bool round_ok = L::template round_ok<TI>;                             // round<To> instantiable

    Out o;
    FD const a{get<FR>(va)};
    TD const b{get<TR>(vb)};
    switch (op) {
    case P_CAST: put(o, 0, L::template cast<TD>(a).count()); break;
    case P_FLOOR: put(o, 0, L::template floor<TD>(a).count()); break;
    case P_CEIL: put(o, 0, L::template ceil<TD>(a).count()); break;
    case P_ROUND:
        if constexpr (to_int && round_ok) {
            put(o, 0, L::template round<TD>(a).count());
        } else {
            o.ok = false;
        }
        break;
    case P_TO_COMMON: {
        CD const c(a);
        put(o, 0, c.count());
        break;
    }
    case P_IMPLICIT:
        if constexpr (std::is_convertible_v<FD, TD>) {
            TD const t = a;
            put(o, 0, t.count());
        } else {
            o.ok = false;
        }
        break;
    case P_TP_CAST:
        if constexpr (L::template has_tp_cast<TD, FTP>) {
            auto const t = L::template tp_cast<TD>(FTP{a});
            put(o, 0, t.time_since_epoch().count());
        } else {
            o.ok = false;
        }
        break;
    case P_TP_FLOOR: {
        auto const t = L::template floor<TD>(FTP{a});
        put(o, 0, t.time_since_epoch().count());
        break;
    }
    case P_TP_CEIL: {
        auto const t = L::template ceil<TD>(FTP{a});
        put(o, 0, t.time_since_epoch().count());
        break;
    }
    case P_TP_ROUND:
        if constexpr (to_int && round_ok) {
            auto const t = L::template round<TD>(FTP{a});
            put(o, 0, t.time_since_epoch().count());
        } else {
            o.ok = false;
        }
        break;
    case P_TP_CONVERT:
        if constexpr (std::is_convertible_v<FTP, TTP>) {
            TTP const t = FTP{a};
            put(o, 0, t.time_since_epoch().count());
        } else {
            o.ok = false;
        }
        break;
    case P_TP_TO_COMMON:
        if constexpr (requires { typename L::template common<FTP, TTP>; }) {
            using CTP = typename L::template common<FTP, TTP>;
            if constexpr (std::is_constructible_v<CTP, FTP const&>) {
                CTP const t(FTP{a});
                put(o, 0, t.time_since_epoch().count());
            } else {
                o.ok = false;
            }
        } else {
            o.ok = false;
        }
        break;
    case P_ASSIGN:
        if constexpr (std::is_convertible_v<FD, TD>) {
            TD t{};
            TD& x  = (t = a);
            o.i[1] = (&x == &t) ? 0 : 1;
            put(o, 0, t.count());
        } else {
            o.ok = false;
        }
        break;
    case P_ADD: {
        auto const c = L::template add<natural>(a, b);
        put(o, 0, c.count());
        break;
    }
    case P_SUB: {
        auto const c = a - b;
        put(o, 0, c.count());
        break;
    }
    case P_DIV: {
        auto const q = a / b;
        put(o, 0, q);
        break;
    }
    case P_MOD:
        if constexpr (both_int) {
            auto const c = a % b;
            put(o, 0, c.count());
        } else {
            o.ok = false;
        }
        break;
    case P_EQ: o.i[0] = (a == b) ? 1 : 0; break;
    case P_NE: o.i[0] = (a != b) ? 1 : 0; break;
    case P_LT: o.i[0] = (a < b) ? 1 : 0; break;
    case P_LE: o.i[0] = (a <= b) ? 1 : 0; break;
    case P_GT: o.i[0] = (a > b) ? 1 : 0; break;
    case P_GE: o.i[0] = (a >= b) ? 1 : 0; break;
    case P_TP_EQ: o.i[0] = (FTP{a} == TTP{b}) ? 1 : 0; break;
    case P_TP_NE: o.i[0] = (FTP{a} != TTP{b}) ? 1 : 0; break;
    case P_TP_LT: o.i[0] = (FTP{a} < TTP{b}) ? 1 : 0; break;
    case P_TP_LE: o.i[0] = (FTP{a} <= TTP{b}) ? 1 : 0; break;
    case P_TP_GT: o.i[0] = (FTP{a} > TTP{b}) ? 1 : 0; break;
    case P_TP_GE: o.i[0] = (FTP{a} >= TTP{b}) ? 1 : 0; break;
    case P_TP_PLUS_D:
        if constexpr (requires(FTP x, TD y) { x + y; }) {
            auto const t = FTP{a} + b;
            put(o, 0, t.time_since_epoch().count());
        } else {
            o.ok = false;
        }
        break;
    case P_D_PLUS_TP:
        if constexpr (!L::template plus_probe_ok<natural>) {
            o.ok = false;
        } else if constexpr (requires(FD x, TTP y) { x + y; }) {
            auto const t = a + TTP{b};
            put(o, 0, t.time_since_epoch().count());
        } else {
            o.ok = false;
        }
        break;
    case P_TP_MINUS_D:
        if constexpr (requires(FTP x, TD y) { x - y; }) {
            auto const t = FTP{a} - b;
            put(o, 0, t.time_since_epoch().count());
        } else {
            o.ok = false;
        }
        break;
    case P_TP_MINUS_TP:
        if constexpr (requires(FTP x, TTP y) { x - y; }) {
            auto const d = FTP{a} - TTP{b};
            put(o, 0, d.count());
        } else {
            o.ok = false;
        }
        break;
    default: o.ok = false; break;
    }
    return o;
}

/// One self operation on library L (single duration type duration<R, P<I>>).
template <typename L, typename R, int I>
Out self_op(int op, V va, V vb)
{
    using D  = typename L::template dur<R, P<I>>;
    using TP = typename L::template tp<D>;

    constexpr bool integral = std::is_integral_v<R>;

    Out o;
    D const a{get<R>(va)};
    D const b{get<R>(vb)};
    R const s = get<R>(vb);
    switch (op) {
    case S_POS: put(o, 0, (+a).count()); break;
    case S_NEG: put(o, 0, (-a).count()); break;
    case S_ABS:
        if constexpr (!L::template abs_ok<I>) {
            o.ok = false;
        } else if constexpr (requires { L::abs(a); }) { // signed reps only (numeric_limits<Rep>::is_signed)
            put(o, 0, L::abs(a).count());
        } else {
            o.ok = false;
        }
        break;
    case S_PREINC: {
        D d       = a;
        D const x = ++d;
        put(o, 0, x.count());
        put(o, 1, d.count());
        break;
    }
    case S_POSTINC: {
        D d       = a;
        D const x = d++;
        put(o, 0, x.count());
        put(o, 1, d.count());
        break;
    }
    case S_PREDEC: {
        D d       = a;
        D const x = --d;
        put(o, 0, x.count());
        put(o, 1, d.count());
        break;
    }
    case S_POSTDEC: {
        D d       = a;
        D const x = d--;
        put(o, 0, x.count());
        put(o, 1, d.count());
        break;
    }
    case S_TP_PREINC: {
        TP t{a};
        TP const x = ++t;
        put(o, 0, x.time_since_epoch().count());
        put(o, 1, t.time_since_epoch().count());
        break;
    }
    case S_TP_POSTINC: {
        TP t{a};
        TP const x = t++;
        put(o, 0, x.time_since_epoch().count());
        put(o, 1, t.time_since_epoch().count());
        break;
    }
    case S_TP_PREDEC: {
        TP t{a};
        TP const x = --t;
        put(o, 0, x.time_since_epoch().count());
        put(o, 1, t.time_since_epoch().count());
        break;
    }
    case S_TP_POSTDEC: {
        TP t{a};
        TP const x = t--;
        put(o, 0, x.time_since_epoch().count());
        put(o, 1, t.time_since_epoch().count());
        break;
    }
    case S_TP_EPOCH: {
        TP const t{a};
        put(o, 0, t.time_since_epoch().count());
        put(o, 1, TP{}.time_since_epoch().count());
        break;
    }
    case S_ZERO: put(o, 0, D::zero().count()); break;
    case S_MIN: put(o, 0, D::min().count()); break;
    case S_MAX: put(o, 0, D::max().count()); break;
    case S_TP_MIN: put(o, 0, TP::min().time_since_epoch().count()); break;
    case S_TP_MAX: put(o, 0, TP::max().time_since_epoch().count()); break;
    case S_ADD_ASSIGN: {
        D d      = a;
        D& x     = (d += b);
        o.i[1]   = (&x == &d) ? 0 : 1;
        put(o, 0, d.count());
        break;
    }
    case S_SUB_ASSIGN: {
        D d    = a;
        D& x   = (d -= b);
        o.i[1] = (&x == &d) ? 0 : 1;
        put(o, 0, d.count());
        break;
    }
    case S_MUL_ASSIGN: {
        D d    = a;
        D& x   = (d *= s);
        o.i[1] = (&x == &d) ? 0 : 1;
        put(o, 0, d.count());
        break;
    }
    case S_DIV_ASSIGN: {
        D d    = a;
        D& x   = (d /= s);
        o.i[1] = (&x == &d) ? 0 : 1;
        put(o, 0, d.count());
        break;
    }
    case S_MOD_ASSIGN_S:
        if constexpr (integral) {
            D d    = a;
            D& x   = (d %= s);
            o.i[1] = (&x == &d) ? 0 : 1;
            put(o, 0, d.count());
        } else {
            o.ok = false;
        }
        break;
    case S_MOD_ASSIGN_D:
        if constexpr (integral) {
            D d    = a;
            D& x   = (d %= b);
            o.i[1] = (&x == &d) ? 0 : 1;
            put(o, 0, d.count());
        } else {
            o.ok = false;
        }
        break;
    case S_MUL:
        if constexpr (requires(D x, R y) { x * y; }) {
            put(o, 0, (a * s).count());
        } else {
            o.ok = false;
        }
        break;
    case S_MUL_REV:
        if constexpr (requires(D x, R y) { y * x; }) {
            put(o, 0, (s * a).count());
        } else {
            o.ok = false;
        }
        break;
    case S_DIV_S:
        if constexpr (requires(D x, R y) { x / y; }) {
            put(o, 0, (a / s).count());
        } else {
            o.ok = false;
        }
        break;
    case S_MOD_S:
        if constexpr (integral) {
            if constexpr (requires(D x, R y) { x % y; }) {
                put(o, 0, (a % s).count());
            } else {
                o.ok = false;
            }
        } else {
            o.ok = false;
        }
        break;
    case S_TP_ADD_ASSIGN: {
        TP t{a};
        TP& x  = (t += b);
        o.i[1] = (&x == &t) ? 0 : 1;
        put(o, 0, t.time_since_epoch().count());
        break;
    }
    case S_TP_SUB_ASSIGN: {
        TP t{a};
        TP& x  = (t -= b);
        o.i[1] = (&x == &t) ? 0 : 1;
        put(o, 0, t.time_since_epoch().count());
        break;
    }
    default: o.ok = false; break;
    }
    return o;
}

using OpFn = Out (*)(int, V, V);

/// compile-time facts of one pair in one library
struct Facts {
    i64 cd_num{0}, cd_den{0};
    Rep cd_rep{Rep::i64};
    Rep cast_rep{Rep::i64};    // common_type_t<To::rep, From::rep, intmax_t> (the type duration_cast computes in)
    Rep div_rep{Rep::i64};     // type of From / To
    bool implicit_ok{false};   // From implicitly convertible to To
    bool constructible{false}; // To constructible from From
    bool has_tp_cast{false};
    bool tp_implicit_ok{false};   // time_point<Clock,From> implicitly convertible to time_point<Clock,To>
    bool tp_constructible{false}; // ... constructible
    bool tp_common_ok{false};     // common_type<time_point<From>, time_point<To>> is time_point<Clock, CD>
    bool arith_types_ok{false};   // From + To, From - To (and From % To for integer reps) have type CD
    bool cast_types_ok{false};    // duration_cast/floor/ceil<To> return To; time_point forms return time_point<Clock,To>
};

template <typename L, typename FR, typename TR, int FI, int TI>
Facts make_facts()
{
    using FD  = typename L::template dur<FR, P<FI>>;
    using TD  = typename L::template dur<TR, P<TI>>;
    using CD  = typename L::template common<FD, TD>;
    using FTP = typename L::template tp<FD>;
    using TTP = typename L::template tp<TD>;
    Facts f;
    f.cd_num           = CD::period::num;
    f.cd_den           = CD::period::den;
    f.cd_rep           = rep_kind<typename CD::rep>();
    f.cast_rep         = rep_kind<typename L::template common<typename L::template common<TR, FR>, std::intmax_t>>();
    f.div_rep          = rep_kind<std::remove_cv_t<decltype(std::declval<FD>() / std::declval<TD>())>>();
    f.implicit_ok      = std::is_convertible_v<FD, TD>;
    f.constructible    = std::is_constructible_v<TD, FD>;
    f.has_tp_cast      = L::template has_tp_cast<TD, FTP>;
    f.tp_implicit_ok   = std::is_convertible_v<FTP, TTP>;
    f.tp_constructible = std::is_constructible_v<TTP, FTP>;
    if constexpr (requires { typename L::template common<FTP, TTP>; }) {
        f.tp_common_ok = std::is_same_v<typename L::template common<FTP, TTP>, typename L::template tp<CD>>;
    }
    f.arith_types_ok = std::is_same_v<std::remove_cv_t<decltype(L::template add<CalendarSafe<FI>::value>(std::declval<FD>(), std::declval<TD>()))>, CD>
                    && std::is_same_v<std::remove_cv_t<decltype(std::declval<FD>() - std::declval<TD>())>, CD>;
    if constexpr (std::is_integral_v<FR> && std::is_integral_v<TR>) {
        f.arith_types_ok = f.arith_types_ok && std::is_same_v<std::remove_cv_t<decltype(std::declval<FD>() % std::declval<TD>())>, CD>;
    }
    f.cast_types_ok = std::is_same_v<std::remove_cv_t<decltype(L::template cast<TD>(std::declval<FD>()))>, TD>
                   && std::is_same_v<std::remove_cv_t<decltype(L::template floor<TD>(std::declval<FD>()))>, TD>
                   && std::is_same_v<std::remove_cv_t<decltype(L::template ceil<TD>(std::declval<FD>()))>, TD>
                   && std::is_same_v<std::remove_cv_t<decltype(L::template floor<TD>(std::declval<FTP>()))>, TTP>
                   && std::is_same_v<std::remove_cv_t<decltype(L::template ceil<TD>(std::declval<FTP>()))>, TTP>;
    return f;
}

struct PairEntry {
    Rep fr, tr;
    int fi, ti;
    OpFn etl, stdf;
    Facts ef, sf;
    bool formable; // etl::common_type of the pair can be computed at all (see PairOk)
};

// etl::common_type<duration,duration> computes lcm(den1, den2) with etl::lcm, which in the
// pinned tree multiplies before dividing: for (nano, ratio<5,7>) the common period
// ratio<1,7000000000> is representable, but instantiating that duration evaluates
// lcm(7e9, 7e9) -> "overflow in constant expression", a hard compile error.  Whether the
// constant expression is valid is detected here without instantiating anything, so that the
// pair is reported (violation class lcm_overflow) instead of breaking the build, and is
// covered automatically once lcm is repaired.
template <i64 A, i64 B>
inline constexpr bool etl_lcm_ok = requires { typename std::integral_constant<i64, etl::lcm(A, B)>; };
template <int FI, int TI>
struct PairOk {
    static constexpr i64 fd   = P<FI>::info.den;
    static constexpr i64 td   = P<TI>::info.den;
    static constexpr i64 l    = fd / cx_gcd(fd, td) * td;
    static constexpr bool value = etl_lcm_ok<fd, td> && etl_lcm_ok<l, l>;
};
/// Is the pair inside the standard's domain at all?  ratio_divide<From,To>, the common period
/// gcd(num)/lcm(den) and the two conversion factors into it must be representable in intmax_t,
/// otherwise the program is ill-formed for std::chrono as well and nothing is instantiated.
template <int FI, int TI>
struct PairValid {
    static constexpr i128 mx = std::numeric_limits<i64>::max();
    static constexpr i128 fn = P<FI>::info.num, fd = P<FI>::info.den, tn = P<TI>::info.num, td = P<TI>::info.den;
    static constexpr i128 g1 = cx_gcd(i64(fn), i64(tn)), g2 = cx_gcd(i64(fd), i64(td));
    static constexpr i128 N = (fn / g1) * (td / g2), D = (fd / g2) * (tn / g1);
    static constexpr i128 cd_den = fd / g2 * td;
    static constexpr i128 fF = (fn / g1) * (cd_den / fd), fT = (tn / g1) * (cd_den / td);
    static constexpr bool value = N <= mx && D <= mx && cd_den <= mx && fF <= mx && fT <= mx;
};
inline Out no_op(int, V, V)
{
    Out o;
    o.ok = false;
    return o;
}
struct SelfEntry {
    Rep r;
    int pi;
    OpFn etl, stdf;
};

template <typename FR, typename TR, int FI, int TI>
PairEntry make_pair_entry()
{
    if constexpr (PairOk<FI, TI>::value) {
        return PairEntry{rep_kind<FR>(), rep_kind<TR>(), FI, TI, &pair_op<EtlL, FR, TR, FI, TI>, &pair_op<StdL, FR, TR, FI, TI>,
            make_facts<EtlL, FR, TR, FI, TI>(), make_facts<StdL, FR, TR, FI, TI>(), true};
    } else {
        return PairEntry{rep_kind<FR>(), rep_kind<TR>(), FI, TI, &no_op, &pair_op<StdL, FR, TR, FI, TI>, Facts{},
            make_facts<StdL, FR, TR, FI, TI>(), false};
    }
}
template <typename R, int I>
SelfEntry make_self_entry()
{
    return SelfEntry{rep_kind<R>(), I, &self_op<EtlL, R, I>, &self_op<StdL, R, I>};
}

// ---------------------------------------------------------------------------------------
// exact arithmetic
// ---------------------------------------------------------------------------------------

inline i128 iabs(i128 v) { return v < 0 ? -v : v; }
inline i128 gcd128(i128 a, i128 b)
{
    a = iabs(a);
    b = iabs(b);
    while (b != 0) {
        i128 const t = a % b;
        a            = b;
        b            = t;
    }
    return a;
}
inline i128 floor_div(i128 n, i128 d) // d > 0
{
    i128 q = n / d;
    if (n % d != 0 && n < 0) { --q; }
    return q;
}
inline i128 ceil_div(i128 n, i128 d) // d > 0
{
    i128 q = n / d;
    if (n % d != 0 && n > 0) { ++q; }
    return q;
}
inline i128 round_even_div(i128 n, i128 d) // d > 0
{
    i128 const lo  = floor_div(n, d);
    i128 const rem = n - lo * d; // 0 <= rem < d
    if (2 * rem < d) { return lo; }
    if (2 * rem > d) { return lo + 1; }
    return (lo % 2 != 0) ? lo + 1 : lo;
}
/// modular inverse of n modulo d (gcd(n,d) == 1, d > 1), in [0,d)
inline i128 inv_mod(i128 n, i128 d)
{
    i128 r0 = d, r1 = ((n % d) + d) % d, t0 = 0, t1 = 1;
    while (r1 != 0) {
        i128 const q = r0 / r1;
        i128 const r = r0 - q * r1;
        r0           = r1;
        r1           = r;
        i128 const t = t0 - q * t1;
        t0           = t1;
        t1           = t;
    }
    return ((t0 % d) + d) % d;
}

inline i128 rep_min(Rep r)
{
    switch (r) {
    case Rep::i8: return std::numeric_limits<i8>::min();
    case Rep::i16: return std::numeric_limits<i16>::min();
    case Rep::i32: return std::numeric_limits<i32>::min();
    case Rep::i64: return std::numeric_limits<i64>::min();
    default: return 0; // unsigned
    }
}
inline i128 rep_max(Rep r)
{
    switch (r) {
    case Rep::i8: return std::numeric_limits<i8>::max();
    case Rep::i16: return std::numeric_limits<i16>::max();
    case Rep::i32: return std::numeric_limits<i32>::max();
    case Rep::i64: return std::numeric_limits<i64>::max();
    case Rep::u32: return std::numeric_limits<u32>::max();
    case Rep::u64: return std::numeric_limits<u64>::max();
    default: return 0;
    }
}
inline bool fits(Rep r, i128 v) { return v >= rep_min(r) && v <= rep_max(r); }
/// x * f (f >= 1) without leaving __int128: false when the product is outside rep r
inline bool mul_fits(Rep r, i128 x, i128 f, i128& out)
{
    constexpr i128 p63 = i128(1) << 63;
    if (x < p63 && x > -p63 && f < p63) { // |x * f| < 2^126: no overflow of __int128
        out = x * f;
        return fits(r, out);
    }
    if (x > 0 ? x > rep_max(r) / f : x < rep_min(r) / f) { return false; }
    out = x * f;
    return true;
}
/// largest finite value of a floating rep
inline f80 fp_max(Rep r)
{
    return r == Rep::f32 ? f80(std::numeric_limits<float>::max())
         : r == Rep::f64 ? f80(std::numeric_limits<double>::max())
                         : std::numeric_limits<f80>::max();
}
/// std::common_type of two arithmetic reps (own table: integral promotion + usual arithmetic
/// conversions on LP64; compared with what the compiler says in check_facts)
inline Rep common_rep(Rep a, Rep b)
{
    if (is_fp(a) || is_fp(b)) {
        if (a == Rep::f80 || b == Rep::f80) { return Rep::f80; }
        if (a == Rep::f64 || b == Rep::f64) { return Rep::f64; }
        return Rep::f32;
    }
    if (a == b) { return a; } // common_type<T,T> is T: no promotion
    auto promote = [](Rep r) { return (r == Rep::i8 || r == Rep::i16) ? Rep::i32 : r; };
    a            = promote(a);
    b            = promote(b);
    if (a == b) { return a; }
    if (a == Rep::u64 || b == Rep::u64) { return Rep::u64; }
    if (a == Rep::i64 || b == Rep::i64) { return Rep::i64; } // i64 holds every u32 / i32
    return Rep::u32;                                          // {i32, u32}
}

/// everything the exact model needs to know about a pair
struct PairCtx {
    Rep fr, tr, cr;
    Rep castr;          // common_type<To::rep, From::rep, intmax_t>: what duration_cast computes in
    PeriodInfo fp, tp;
    i128 N, D;          // conversion factor From -> To, reduced
    i128 cd_num, cd_den; // common period (own gcd/lcm)
    i128 fF, fT;        // From/To period expressed in common-period ticks
};

inline PairCtx make_ctx(PairEntry const& e)
{
    PairCtx c;
    c.fr          = e.fr;
    c.tr          = e.tr;
    c.cr          = common_rep(e.fr, e.tr);
    c.castr       = common_rep(common_rep(e.tr, e.fr), Rep::i64);
    c.fp          = period_info(e.fi);
    c.tp          = period_info(e.ti);
    i128 const g1 = gcd128(c.fp.num, c.tp.num);
    i128 const g2 = gcd128(c.fp.den, c.tp.den);
    c.N           = (c.fp.num / g1) * (c.tp.den / g2);
    c.D           = (c.fp.den / g2) * (c.tp.num / g1);
    c.cd_num      = g1;
    c.cd_den      = i128(c.fp.den) / g2 * c.tp.den;
    c.fF          = (c.fp.num / c.cd_num) * (c.cd_den / c.fp.den);
    c.fT          = (c.tp.num / c.cd_num) * (c.cd_den / c.tp.den);
    return c;
}

/// Exact result of an integer pair operation (a, b: the counts as their reps see them).
/// Returns false when the case is outside the statement: the exact result, or an
/// intermediate value that the standard's definition (for floor/ceil/round: the canonical
/// cast-compare-adjust formulation) computes, is not representable in the type it is
/// computed in.
inline bool exact_pair(int op, PairCtx const& c, i128 a, i128 b, i128& out)
{
    // conversion of a count to the common duration: converting constructor == duration_cast
    // with D == 1; it multiplies in common_type<cr, rep, intmax_t>, which contains cr, so the
    // only condition is that the product is a value of cr
    auto to_cd = [&](i128 x, i128 f, i128& r) { return mul_fits(c.cr, x, f, r); };
    // duration_cast<To>: [time.duration.cast] - static_cast<To::rep>(a) when N == D == 1,
    // otherwise static_cast<CR>(a) [* N] [/ D] evaluated in CR = castr, then static_cast<To::rep>
    auto cast = [&](i128& t) {
        if (c.N == 1 && c.D == 1) {
            t = a;
            return fits(c.tr, t);
        }
        i128 n;
        if (!fits(c.castr, a) || !mul_fits(c.castr, a, c.N, n)) { return false; }
        t = n / c.D;
        return fits(c.tr, t);
    };
    auto cmp_ok = [&](i128 t) { // t (To) compared with a (From) through the common type
        i128 x, y;
        return to_cd(t, c.fT, x) && to_cd(a, c.fF, y);
    };
    i128 A = 0, B = 0;
    switch (op) {
    case P_CAST:
    case P_TP_CAST: return cast(out);
    case P_FLOOR:
    case P_TP_FLOOR: {
        i128 t;
        if (!cast(t) || !cmp_ok(t)) { return false; }
        out = floor_div(a * c.N, c.D);
        return fits(c.tr, out);
    }
    case P_CEIL:
    case P_TP_CEIL: {
        i128 t;
        if (!cast(t) || !cmp_ok(t)) { return false; }
        out = ceil_div(a * c.N, c.D);
        return fits(c.tr, out);
    }
    case P_ROUND:
    case P_TP_ROUND: {
        i128 t;
        if (!cast(t) || !cmp_ok(t)) { return false; }
        i128 const lo = floor_div(a * c.N, c.D);
        i128 const hi = lo + 1;
        if (!fits(c.tr, lo) || !fits(c.tr, hi)) { return false; }
        i128 L, H, X;
        if (!to_cd(lo, c.fT, L) || !to_cd(hi, c.fT, H) || !to_cd(a, c.fF, X)) { return false; }
        if (!fits(c.cr, X - L) || !fits(c.cr, H - X)) { return false; }
        out = round_even_div(a * c.N, c.D);
        return true;
    }
    case P_TO_COMMON:
    case P_TP_TO_COMMON: return to_cd(a, c.fF, out);
    case P_IMPLICIT:
    case P_TP_CONVERT:
    case P_ASSIGN:
        if (c.D != 1) { return false; }
        return cast(out);
    default: break;
    }
    if (!to_cd(a, c.fF, A) || !to_cd(b, c.fT, B)) { return false; }
    switch (op) {
    case P_ADD:
    case P_TP_PLUS_D:
    case P_D_PLUS_TP: out = A + B; return fits(c.cr, out);
    case P_SUB:
    case P_TP_MINUS_D:
    case P_TP_MINUS_TP: out = A - B; return fits(c.cr, out);
    case P_DIV:
        if (B == 0) { return false; }
        out = A / B;
        return fits(c.cr, out);
    case P_MOD:
        if (B == 0 || !fits(c.cr, A / B)) { return false; }
        out = A % B;
        return true;
    case P_EQ:
    case P_TP_EQ: out = (A == B); return true;
    case P_NE:
    case P_TP_NE: out = (A != B); return true;
    case P_LT:
    case P_TP_LT: out = (A < B); return true;
    case P_LE:
    case P_TP_LE: out = (A <= B); return true;
    case P_GT:
    case P_TP_GT: out = (A > B); return true;
    case P_GE:
    case P_TP_GE: out = (A >= B); return true;
    default: break;
    }
    return false;
}

/// Exact result of an integer self operation: out[0], out[1].
inline bool exact_self(int op, Rep r, i128 a, i128 b, i128 out[2])
{
    out[0] = out[1] = 0;
    switch (op) {
    case S_POS: out[0] = a; return true;
    case S_NEG: out[0] = -a; return fits(r, out[0]);
    case S_ABS: out[0] = iabs(a); return fits(r, out[0]);
    case S_PREINC:
    case S_TP_PREINC: out[0] = out[1] = a + 1; return fits(r, a + 1);
    case S_POSTINC:
    case S_TP_POSTINC: out[0] = a, out[1] = a + 1; return fits(r, a + 1);
    case S_PREDEC:
    case S_TP_PREDEC: out[0] = out[1] = a - 1; return fits(r, a - 1);
    case S_POSTDEC:
    case S_TP_POSTDEC: out[0] = a, out[1] = a - 1; return fits(r, a - 1);
    case S_TP_EPOCH: out[0] = a; return true;
    case S_ZERO: return true;
    case S_MIN:
    case S_TP_MIN: out[0] = rep_min(r); return true;
    case S_MAX:
    case S_TP_MAX: out[0] = rep_max(r); return true;
    case S_ADD_ASSIGN:
    case S_TP_ADD_ASSIGN: out[0] = a + b; return fits(r, out[0]);
    case S_SUB_ASSIGN:
    case S_TP_SUB_ASSIGN: out[0] = a - b; return fits(r, out[0]);
    case S_MUL_ASSIGN:
    case S_MUL:
    case S_MUL_REV: out[0] = a * b; return fits(r, out[0]);
    case S_DIV_ASSIGN:
    case S_DIV_S:
        if (b == 0) { return false; }
        out[0] = a / b;
        return fits(r, out[0]);
    case S_MOD_ASSIGN_S:
    case S_MOD_ASSIGN_D:
    case S_MOD_S:
        if (b == 0 || !fits(r, a / b)) { return false; }
        out[0] = a % b;
        return true;
    default: break;
    }
    return false;
}

// ---------------------------------------------------------------------------------------
// value sets (deterministic, duplicate-free, simplest first)
// ---------------------------------------------------------------------------------------

inline void finish_set(std::vector<i128>& v, Rep r)
{
    std::vector<i128> o;
    for (i128 x : v) {
        if (fits(r, x)) { o.push_back(x); }
    }
    std::sort(o.begin(), o.end(), [](i128 x, i128 y) {
        i128 const ax = iabs(x), ay = iabs(y);
        if (ax != ay) { return ax < ay; }
        return x > y;
    });
    o.erase(std::unique(o.begin(), o.end()), o.end());
    v.swap(o);
}

/// `full`: +-2^k + d for k in {30,31,62,63} and, for the reps of round 2, their own width
/// (int8_t: 7, 8; int16_t: 15, 16; uint32_t: 32; uint64_t: 32, 64), d in -2..2 (whatever fits
/// the rep survives finish_set).  Reduced list (quick tier, second operand): the values the
/// property names - +-(2^31-1), +-2^31, +-2^62, the extremes of int64 - and the extremes of rep r.
inline void add_boundaries(std::vector<i128>& v, Rep r, bool full = true)
{
    auto p = [](int k) { return i128(1) << k; };
    if (!full) {
        for (i128 x : {p(31) - 1, p(31), p(62), p(63) - 1}) {
            v.push_back(x);
            v.push_back(-x);
        }
        v.push_back(-p(63));
        v.push_back(rep_max(r));
        v.push_back(rep_min(r));
        return;
    }
    std::vector<int> ks{30, 31, 62, 63};
    if (r == Rep::i8) { ks.insert(ks.end(), {7, 8}); }
    if (r == Rep::i16) { ks.insert(ks.end(), {15, 16}); }
    if (r == Rep::u32) { ks.push_back(32); }
    if (r == Rep::u64) { ks.insert(ks.end(), {32, 64}); }
    for (int k : ks) {
        for (int d = -2; d <= 2; ++d) {
            v.push_back(p(k) + d);
            v.push_back(-p(k) + d);
        }
    }
}

/// first operands: every count in [-range, range], the boundary values, and for this pair
/// (1) the exact ties / nearest-to-half residues of the From -> To conversion and their
/// neighbours, (2) the counts around the overflow boundaries of the prescribed computation:
/// max/min of the type duration_cast computes in divided by N, max/min of the common rep
/// divided by the From -> common factor, and the counts whose converted value is max/min of
/// To::rep - each with offsets -2..2 (the ones beyond the boundary are rejected by the model
/// and counted as skipped)
inline std::vector<i128> first_operands(PairCtx const& c, int range)
{
    std::vector<i128> v;
    for (int x = -range; x <= range; ++x) { v.push_back(x); }
    add_boundaries(v, c.fr);
    if (c.D > 1) {
        i128 const ninv = inv_mod(c.N, c.D);
        std::vector<i128> residues;
        if (c.D % 2 == 0) {
            residues.push_back(c.D / 2);
        } else {
            residues.push_back((c.D - 1) / 2);
            residues.push_back((c.D + 1) / 2);
        }
        for (i128 res : residues) {
            // c0 * N == res (mod D); res, ninv < D <= 2^63, so the product stays inside __int128
            i128 const c0 = (res * ninv) % c.D;
            for (int k = -3; k <= 2; ++k) {
                for (int d = -1; d <= 1; ++d) { v.push_back(c0 + k * c.D + d); }
            }
        }
    }
    auto around = [&](i128 x) {
        for (int d = -2; d <= 2; ++d) { v.push_back(x + d); }
    };
    if (!is_fp(c.castr) && c.N > 1) {
        around(rep_max(c.castr) / c.N);
        around(rep_min(c.castr) / c.N);
    }
    if (!is_fp(c.cr) && c.fF > 1) {
        around(rep_max(c.cr) / c.fF);
        around(rep_min(c.cr) / c.fF);
    }
    if (!is_fp(c.tr) && !(c.N == 1 && c.D == 1)) {
        // rep_max(tr) < 2^64 and D < 2^63: the product stays inside __int128
        around(rep_max(c.tr) * c.D / c.N);
        around(rep_min(c.tr) * c.D / c.N);
    }
    finish_set(v, c.fr);
    return v;
}

/// second operands: a small dense range, unit-conversion constants and the boundaries
/// (quick tier: range <= 4, fewer constants, the reduced boundary list); plus the largest
/// count (and its negative) that the To -> common conversion of this pair can take
inline std::vector<i128> second_operands(Rep r, int range, Rep cr = Rep::other, i128 fT = 1)
{
    bool const full = range > 4;
    std::vector<i128> v;
    for (int x = -range; x <= range; ++x) { v.push_back(x); }
    if (full) {
        for (i128 x : {59, 60, 61, 999, 1000, 1001, 2000, 86400, 30000, 1000000000}) {
            v.push_back(x);
            v.push_back(-x);
        }
    } else {
        for (i128 x : {60, 1000, 1001}) {
            v.push_back(x);
            v.push_back(-x);
        }
    }
    add_boundaries(v, r, full);
    if (cr != Rep::other && !is_fp(cr) && fT > 1) {
        v.push_back(rep_max(cr) / fT);
        v.push_back(rep_min(cr) / fT);
    }
    finish_set(v, r);
    return v;
}

// ---- floating operands ------------------------------------------------------------------

template <typename R>
f80 quant_as(f80 x)
{
    return static_cast<f80>(static_cast<R>(x));
}
/// x rounded to rep r (x is finite and inside the range of r)
inline f80 quant(Rep r, f80 x) { return r == Rep::f32 ? quant_as<float>(x) : r == Rep::f64 ? quant_as<double>(x) : x; }

template <typename R>
void push_specials(std::vector<f80>& v, bool full)
{
    using L       = std::numeric_limits<R>;
    R const sub   = L::denorm_min();
    R const norm  = L::min();
    R const big   = L::max();
    R const lsub  = norm - sub; // largest subnormal
    v.push_back(f80(L::quiet_NaN()));
    v.push_back(f80(L::infinity()));
    v.push_back(f80(-L::infinity()));
    v.push_back(f80(R(-0.0)));
    v.push_back(f80(sub));
    v.push_back(f80(-big));
    if (full) {
        for (R x : {R(-sub), lsub, R(-lsub), norm, R(-norm), big}) { v.push_back(f80(x)); }
    }
}
/// NaN, +-inf, -0.0, subnormals (smallest, largest), smallest normal, largest finite of rep r
inline void add_fp_specials(std::vector<f80>& v, Rep r, bool full)
{
    if (r == Rep::f32) {
        push_specials<float>(v, full);
    } else if (r == Rep::f64) {
        push_specials<double>(v, full);
    } else {
        push_specials<f80>(v, full);
    }
}
inline void finish_fp(std::vector<f80>& v) // order-preserving, duplicate-free by bit pattern (short lists only)
{
    std::vector<f80> o;
    for (f80 x : v) {
        bool dup = false;
        for (f80 y : o) {
            if (bits(x) == bits(y)) {
                dup = true;
                break;
            }
        }
        if (!dup) { o.push_back(x); }
    }
    v.swap(o);
}

/// floating first operands of rep r: the grid k/4, |k| <= 4*range; +- a list of constants that
/// includes values not exactly representable in the next narrower type (0.1 as float / double /
/// long double, 2^24+1, 2^53+1, 2^63+1, 2^64-1, 1e18+0.5), each rounded to r; the special values
inline std::vector<f80> fp_first_operands(Rep r, int range)
{
    std::vector<f80> v;
    f80 const sp[] = {0.1L, f80(0.1), f80(0.1f), 1e-9L, 1.0L / 3.0L, 1e9L + 0.5L, 16777217.0L, 2147483647.0L, 2147483648.0L,
        4294967296.0L, 9007199254740991.0L, 9007199254740992.0L, 9007199254740993.0L, 4611686018427387904.0L,
        9223372036854775808.0L, 9223372036854775809.0L, 18446744073709551615.0L, 18446744073709551616.0L, 1e18L,
        1e18L + 0.5L, 123456.789L, 1e30L, 1e-30L};
    v.push_back(f80(-0.0));
    for (f80 x : sp) {
        v.push_back(quant(r, x));
        v.push_back(quant(r, -x));
    }
    add_fp_specials(v, r, true);
    finish_fp(v); // the constants may collide after rounding; the grid below cannot collide with them
    std::vector<f80> g;
    for (int k = 0; k <= 4 * range; ++k) {
        g.push_back(k / 4.0L);
        if (k != 0) { g.push_back(-k / 4.0L); }
    }
    g.insert(g.end(), v.begin(), v.end());
    return g;
}
inline std::vector<f80> fp_second_operands(Rep r)
{
    std::vector<f80> v;
    for (int k = 0; k <= 12; ++k) {
        v.push_back(k / 4.0L);
        if (k != 0) { v.push_back(-k / 4.0L); }
    }
    f80 const sp[] = {7.5L, 60, 1000, 0.1L, 1e9L, 1.0L / 3.0L, 86400, 4611686018427387904.0L};
    for (f80 x : sp) {
        v.push_back(quant(r, x));
        v.push_back(quant(r, -x));
    }
    add_fp_specials(v, r, false);
    finish_fp(v);
    return v;
}

// ---------------------------------------------------------------------------------------
// classification (from the case, never from the observed result)
// ---------------------------------------------------------------------------------------

inline char const* dir_name(PairCtx const& c)
{
    if (c.N == 1 && c.D == 1) { return "same"; }
    if (c.D == 1) { return "finer"; }
    if (c.N == 1) { return "coarser"; }
    return "mixed";
}
inline char sign_char(i128 v) { return v < 0 ? '-' : v > 0 ? '+' : '0'; }
/// floating operands: n = NaN, I / i = +-infinity, otherwise the sign (subnormals count as their sign)
inline char sign_char(f80 v) { return v != v ? 'n' : std::isinf(v) ? (v > 0 ? 'I' : 'i') : v < 0 ? '-' : v > 0 ? '+' : '0'; }
inline char sign_of(V v, Rep r) { return is_fp(r) ? sign_char(v.f) : sign_char(ival(v, r)); }
inline std::string rep_class(Rep fr, Rep tr)
{
    if (!is_fp(fr) && !is_fp(tr)) {
        if (is_uns(fr) || is_uns(tr)) { return "uint"; }
        auto narrow = [](Rep r) { return r == Rep::i8 || r == Rep::i16; };
        return (narrow(fr) || narrow(tr)) ? "int_narrow" : "int";
    }
    if (is_fp(fr) && is_fp(tr)) { return fr == tr ? "fp" : "fp_mixed"; }
    return is_fp(tr) ? "int_to_fp" : "fp_to_int";
}

inline std::string pair_class(int op, PairCtx const& c, V a, V b)
{
    std::string s = rep_class(c.fr, c.tr);
    s += "/";
    if (op < P_FIRST_BINARY) {
        s += dir_name(c);
        if (op == P_TO_COMMON || op == P_IMPLICIT || op == P_TP_CONVERT || op == P_TP_TO_COMMON || op == P_ASSIGN) { return s; }
        s += "/";
        if (is_fp(c.fr)) {
            s += sign_char(a.f);
            return s;
        }
        i128 const n = ival(a, c.fr) * c.N; // |a| <= 2^64, N < 2^63
        if (n == 0) { return s + "zero"; }
        s += n < 0 ? "neg_" : "pos_";
        i128 const rem = iabs(n) % c.D;
        if (rem == 0) { return s + "exact"; }
        if (2 * rem == c.D) { return s + "tie"; }
        return s + (2 * rem < c.D ? "below_half" : "above_half");
    }
    s += (c.N == 1 && c.D == 1) ? "same_period" : "diff_period";
    if (op == P_DIV || op == P_MOD) { // the only binary operations whose rounding depends on the signs
        s += "/";
        s += sign_of(a, c.fr);
        s += sign_of(b, c.tr);
    } else if (is_fp(c.fr) || is_fp(c.tr)) { // special values form their own classes
        char const x = sign_of(a, c.fr), y = sign_of(b, c.tr);
        if (x == 'n' || y == 'n') {
            s += "/nan";
        } else if (x == 'I' || x == 'i' || y == 'I' || y == 'i') {
            s += "/inf";
        }
    }
    return s;
}

inline std::string self_class(int op, Rep r, V a, V b)
{
    std::string s = is_fp(r) ? "fp/" : is_uns(r) ? "uint/" : "int/";
    if (op == S_ZERO || op == S_MIN || op == S_MAX || op == S_TP_MIN || op == S_TP_MAX) { return s + "constant"; }
    s += sign_of(a, r);
    if (op >= S_FIRST_BINARY) { s += sign_of(b, r); }
    return s;
}

inline std::string dur_name(Rep r, PeriodInfo const& p) { return mc::cat("duration<", rep_name(r), ",", p.name, ">"); }

inline std::string pair_case(int op, PairCtx const& c, V a, V b)
{
    std::string s = mc::cat("From=", dur_name(c.fr, c.fp), "(", show_v(a, c.fr), ") To=", dur_name(c.tr, c.tp));
    if (op >= P_FIRST_BINARY) { s += mc::cat("(", show_v(b, c.tr), ")"); }
    return s;
}

// ---------------------------------------------------------------------------------------
// drivers
// ---------------------------------------------------------------------------------------

struct Tally {
    std::uint64_t evaluations{0}, nontrivial{0}, skipped{0}, ties{0};
};

/// Records a violation; the case and detail strings are only built for the first witness of a
/// (property, subject, class) - unrepaired trees produce millions of repeats.
template <typename CaseF, typename DetailF>
void report(mc::Reporter& r, char const* prop, std::string const& subject, std::string const& cls, CaseF&& mk_case, DetailF&& mk_detail)
{
    if (r.viols.find(std::make_tuple(std::string(prop), subject, cls)) != r.viols.end()) {
        r.violation(prop, subject, cls, std::string(), std::string());
    } else {
        r.violation(prop, subject, cls, mk_case(), mk_detail());
    }
}

/// guard + sanitizer bookkeeping around one call pair (std first, then tetl inside a guard);
/// returns false when the tetl call trapped (already reported)
template <typename ClassF, typename CaseF>
bool run_both(mc::Reporter& r, OpFn etl, OpFn stdf, int op, V a, V b, char const* subject, ClassF&& mk_class, CaseF&& mk_case,
    Out& e, Out& s)
{
    s                 = stdf(op, a, b);
    auto const before = mc::san_hits();
    mc::Trap const t  = mc::guarded([&] { e = etl(op, a, b); });
    if (t != mc::Trap::none) {
        r.violation(t == mc::Trap::assert_fired || t == mc::Trap::exception_raised ? "C05" : "C02", subject,
            t == mc::Trap::assert_fired || t == mc::Trap::exception_raised ? "handler-on-valid-call" : mk_class(), mk_case(),
            mc::describe_trap(t));
        return false;
    }
    if (mc::san_hits() != before) {
        report(r, "C02", subject, mk_class(), mk_case,
            [] { return std::string("sanitizer report during a call whose exact result is representable"); });
    }
    return true;
}

inline void check_facts(mc::Reporter& r, PairEntry const& e, PairCtx const& c)
{
    std::string const kase = mc::cat("From=", dur_name(c.fr, c.fp), " To=", dur_name(c.tr, c.tp));
    r.count("evaluations", 9);
    if (e.sf.cd_num != i64(c.cd_num) || e.sf.cd_den != i64(c.cd_den) || e.sf.cd_rep != c.cr || e.sf.cast_rep != c.castr
        || e.sf.div_rep != c.cr || !e.sf.arith_types_ok || !e.sf.cast_types_ok) {
        // (sf.tp_common_ok is not required: libstdc++ maps common_type<TP, TP> to TP itself, which differs from
        // time_point<Clock, common_type_t<D, D>> when D's period argument is not in lowest terms)
        r.violation("C12", "harness:oracle-disagreement", "common_type", kase,
            mc::cat("std period ", e.sf.cd_num, "/", e.sf.cd_den, " rep ", rep_name(e.sf.cd_rep), " cast rep ", rep_name(e.sf.cast_rep),
                " div rep ", rep_name(e.sf.div_rep), "; model ", dec(c.cd_num), "/", dec(c.cd_den), " rep ", rep_name(c.cr), " cast rep ",
                rep_name(c.castr)));
        return;
    }
    if (e.ef.cd_num != e.sf.cd_num || e.ef.cd_den != e.sf.cd_den) {
        r.violation("C12", "common_type<duration,duration>", "period", kase,
            mc::cat("etl ratio<", e.ef.cd_num, ",", e.ef.cd_den, "> std ratio<", e.sf.cd_num, ",", e.sf.cd_den, ">"));
    }
    if (e.ef.cd_rep != e.sf.cd_rep) {
        r.violation("C12", "common_type<duration,duration>", "rep", kase,
            mc::cat("etl ", rep_name(e.ef.cd_rep), " std ", rep_name(e.sf.cd_rep)));
    }
    if (e.ef.cast_rep != e.sf.cast_rep) {
        r.violation("C12", "common_type<Rep1,Rep2,intmax_t>", mc::cat("rep/", rep_class(c.fr, c.tr)), kase,
            mc::cat("etl ", rep_name(e.ef.cast_rep), " std ", rep_name(e.sf.cast_rep)));
    }
    if (e.ef.div_rep != e.sf.div_rep) {
        r.violation("C12", "operator/(duration,duration)", mc::cat("return_type/", rep_class(c.fr, c.tr)), kase,
            mc::cat("etl ", rep_name(e.ef.div_rep), " std ", rep_name(e.sf.div_rep)));
    }
    if (!e.ef.arith_types_ok) {
        r.violation("C12", "operator+(duration,duration)", mc::cat("return_type/", rep_class(c.fr, c.tr)), kase,
            "the type of From + To, From - To or From % To is not common_type_t<From,To>");
    }
    if (!e.ef.cast_types_ok) {
        r.violation("C12", "chrono::duration_cast", mc::cat("return_type/", rep_class(c.fr, c.tr)), kase,
            "duration_cast/floor/ceil<To>(duration) does not return To, or floor/ceil<To>(time_point) not time_point<Clock,To>");
    }
    if (e.ef.implicit_ok != e.sf.implicit_ok || e.ef.constructible != e.sf.constructible) {
        r.violation("C12", "duration::duration(duration<Rep2,Period2>)", mc::cat("constraint/", rep_class(c.fr, c.tr), "/", dir_name(c)),
            kase,
            mc::cat("implicitly convertible: etl ", e.ef.implicit_ok, " std ", e.sf.implicit_ok, "; constructible: etl ",
                e.ef.constructible, " std ", e.sf.constructible));
    }
    if (e.ef.tp_implicit_ok != e.sf.tp_implicit_ok || e.ef.tp_constructible != e.sf.tp_constructible) {
        r.violation("C12", "time_point::time_point(time_point<Clock,Duration2>)",
            mc::cat("constraint/", rep_class(c.fr, c.tr), "/", dir_name(c)), kase,
            mc::cat("implicitly convertible: etl ", e.ef.tp_implicit_ok, " std ", e.sf.tp_implicit_ok, "; constructible: etl ",
                e.ef.tp_constructible, " std ", e.sf.tp_constructible));
    }
    if (!e.ef.tp_common_ok) {
        r.violation("C12", "common_type<time_point,time_point>", "type", kase,
            "etl::common_type of the two time_points is not time_point<Clock, common_type_t<From,To>>");
    }
    if (!e.ef.has_tp_cast) { r.count("api_gap_time_point_cast_uncompilable"); }
}

struct Ranges {
    int a{200};          // first operand: every count in [-a, a] (floating: k/4, |k| <= 4a)
    int b{3};            // second operand: [-b, b]; b <= 4 selects the reduced constant / boundary lists
    int unary_full{0};   // integer From: additionally every count in [-unary_full, unary_full] for the unary operations only
};

/// all operations of one (rep configuration, From, To) over the operand sets
inline void run_pair(mc::Reporter& r, PairEntry const& e, Ranges const& rg)
{
    PairCtx const c    = make_ctx(e);
    bool const any_fp  = is_fp(e.fr) || is_fp(e.tr);
    bool const same_pd = (c.N == 1 && c.D == 1);
    if (!e.formable) {
        r.count("evaluations");
        r.count("pairs_uncompilable");
        r.violation("C12", "common_type<duration,duration>", "lcm_overflow",
            mc::cat("From=", dur_name(c.fr, c.fp), " To=", dur_name(c.tr, c.tp)),
            mc::cat("common period ratio<", dec(c.cd_num), ",", dec(c.cd_den),
                "> is representable (std::chrono computes it), but etl::common_type evaluates etl::lcm(den,den) = (m*n)/gcd, "
                "which overflows intmax_t in a constant expression: every mixed operation of this pair fails to compile"));
        return;
    }
    check_facts(r, e, c);

    // operand lists as V; as[0, n_binary) take part in the binary operations, the rest only in the unary ones
    std::vector<V> as, bs;
    if (is_fp(e.fr)) {
        for (f80 x : fp_first_operands(e.fr, rg.a)) { as.push_back(V{0, x}); }
    } else {
        for (i128 x : first_operands(c, rg.a)) { as.push_back(V{i64(x), 0}); }
    }
    std::size_t const n_binary = as.size();
    if (!is_fp(e.fr) && rg.unary_full > rg.a) {
        std::vector<i128> extra;
        for (int x = rg.a + 1; x <= rg.unary_full; ++x) {
            extra.push_back(x);
            extra.push_back(-x);
        }
        std::vector<i128> const have = first_operands(c, rg.a); // sorted by (|x|, sign): not binary-searchable by value
        std::set<i128> const seen(have.begin(), have.end());
        for (i128 x : extra) {
            if (fits(e.fr, x) && seen.find(x) == seen.end()) { as.push_back(V{i64(x), 0}); }
        }
    }
    if (is_fp(e.tr)) {
        for (f80 x : fp_second_operands(e.tr)) { bs.push_back(V{0, x}); }
    } else {
        for (i128 x : second_operands(e.tr, rg.b, c.cr, c.fT)) { bs.push_back(V{i64(x), 0}); }
    }

    // Floating validity.  All arithmetic on floating reps is defined under IEC 60559 (NaN and
    // infinities included); what is excluded: (1) conversion of a floating value to an integer
    // count unless the value is finite and - with a relative margin of 2^-20 and an absolute one
    // of 2, covering the rounding of the computation and the +-1 of floor/ceil/round - inside the
    // target range; (2) finite operands whose prescribed intermediate (count * N in the type
    // duration_cast computes in, count * factor in the common rep) or result exceeds 0.999 * max
    // of the floating type it is computed in / converted to (overflow to infinity: the exact
    // result or a prescribed intermediate is not representable); (3) division by a zero count,
    // operator% (not defined for floating reps).
    f80 const cf     = f80(c.N) / f80(c.D);
    auto in_fp_range = [](Rep r, f80 x) { return !std::isfinite(x) || std::fabs(x) <= fp_max(r) * 0.999L; };
    auto int_target  = [&](Rep r, f80 x) { // x (estimate of the value converted to integer rep r)
        if (!std::isfinite(x)) { return false; }
        f80 const hi = f80(rep_max(r)) * (1.0L - 0x1p-20L) - 2.0L;
        f80 const lo = is_uns(r) ? 0.0L : -hi;
        return x >= lo && x <= hi;
    };
    // the verdicts of the binary operations depend on (a, b) only: computed once per pair of operands (set_bin)
    struct BinVerdict {
        bool conv{false}, ordered{false}, sum{false}, div{false};
    } bin;
    auto set_bin = [&](V a, V b) {
        f80 const bv      = fval(b, e.tr);
        f80 const A       = fval(a, e.fr) * f80(c.fF), B = bv * f80(c.fT); // both operands in the common (floating) rep
        bool const finite = std::isfinite(A) && std::isfinite(B);
        bin.conv          = in_fp_range(c.cr, A) && in_fp_range(c.cr, B);
        bin.ordered       = !(A != A) && !(B != B);
        bin.sum           = !finite || std::fabs(A) + std::fabs(B) <= fp_max(c.cr) * 0.999L;
        bin.div           = (bv != bv) || ((bv != 0) && (!finite || in_fp_range(c.cr, A / B))); // no zero divisor
    };
    auto fp_valid = [&](int op, V a, V) {
        f80 const av = fval(a, e.fr);
        if (op < P_FIRST_BINARY) {
            if (op == P_IMPLICIT || op == P_ASSIGN) {
                if (!e.sf.implicit_ok) { return false; }
            } else if (op == P_TP_CONVERT) {
                if (!e.sf.tp_implicit_ok) { return false; }
            }
            if (op == P_TO_COMMON || op == P_TP_TO_COMMON) { return in_fp_range(c.cr, av * f80(c.fF)); } // common rep is floating
            // cast family and the implicit conversions (== duration_cast): computed in castr (floating)
            if (!same_pd && !(in_fp_range(c.castr, av * f80(c.N)) && in_fp_range(c.castr, av * cf))) { return false; }
            if (!is_fp(e.tr)) {
                // unsigned target: a negative operand has no representable floor
                if (is_uns(e.tr) && std::signbit(av) && av != 0) { return false; }
                if (!int_target(e.tr, av * cf)) { return false; }
            } else if (!in_fp_range(e.tr, av * cf)) {
                return false;
            }
            bool const compares = op == P_FLOOR || op == P_CEIL || op == P_ROUND || op == P_TP_FLOOR || op == P_TP_CEIL || op == P_TP_ROUND;
            if (compares) { // the result and the argument are compared / subtracted in the common (floating) rep
                return in_fp_range(c.cr, av * f80(c.fF)) && in_fp_range(c.cr, (std::fabs(av * cf) + 1) * f80(c.fT));
            }
            return true;
        }
        if (op == P_MOD || !bin.conv) { return false; }
        switch (op) {
        case P_ADD:
        case P_SUB:
        case P_TP_PLUS_D:
        case P_D_PLUS_TP:
        case P_TP_MINUS_D:
        case P_TP_MINUS_TP: return bin.sum;
        case P_DIV: return bin.div;
        case P_LE:
        case P_GE:
        case P_TP_LE:
        case P_TP_GE:
            // unordered operands: [time.duration.comparisons] defines operator<= as !(rhs < lhs) (true) and also
            // operator<=>, and the expression a <= b on std::chrono types resolves to the more constrained
            // operator<=> (false for NaN) with g++ 12 - which of the two a call reaches is a property of the
            // reference's overload set, not of the value
            return bin.ordered;
        default: return true;
        }
    };

    Tally t;
    std::uint64_t gaps[P_COUNT] = {};
    Out eo, so;
    auto one = [&](int op, V a, V b) {
        bool valid;
        i128 exact = 0;
        if (any_fp) {
            valid = fp_valid(op, a, b);
        } else {
            valid = exact_pair(op, c, ival(a, c.fr), ival(b, c.tr), exact);
        }
        if (!valid) {
            ++t.skipped;
            return;
        }
        char const* subject = pair_subject(op);
        auto mk_class       = [&] { return pair_class(op, c, a, b); };
        auto mk_case        = [&] { return pair_case(op, c, a, b); };
        if (!run_both(r, e.etl, e.stdf, op, a, b, subject, mk_class, mk_case, eo, so)) { return; }
        if (!so.ok) { // not defined for this rep combination in the reference either
            ++t.skipped;
            return;
        }
        if (!eo.ok) {
            ++gaps[op];
            return;
        }
        ++t.evaluations;
        bool const a_nz = is_fp(e.fr) ? a.f != 0 : a.i != 0;
        bool const b_nz = is_fp(e.tr) ? b.f != 0 : b.i != 0;
        if (op < P_FIRST_BINARY) {
            if (any_fp) {
                if (!same_pd && a_nz) { ++t.nontrivial; }
            } else if ((ival(a, c.fr) * c.N) % c.D != 0) {
                ++t.nontrivial;
                if (op == P_ROUND && 2 * (iabs(ival(a, c.fr) * c.N) % c.D) == c.D) { ++t.ties; }
            }
        } else if (!same_pd && a_nz && b_nz) {
            ++t.nontrivial;
        }
        if (op < P_FIRST_BINARY) {
            r.outcome(mc::hash_mix(std::uint64_t(op), hash_out(eo)));
        } else { // bounded: results outside [-4096,4096] share one bucket per sign
            i64 v;
            if (any_fp) {
                f80 const f = eo.f[0];
                v           = (f != f ? 5000 : f > 4096 ? 4097 : f < -4096 ? -4097 : i64(f * 4)) + eo.i[0];
            } else {
                v = eo.i[0] > 4096 ? 4097 : eo.i[0] < -4096 ? -4097 : eo.i[0];
            }
            r.outcome(mc::hash_mix(std::uint64_t(op), std::uint64_t(v)));
        }
        if (!any_fp && (std::uint64_t(so.i[0]) != std::uint64_t(exact) || so.i[1] != 0)) {
            r.violation("C12", "harness:oracle-disagreement", subject, mk_case(),
                mc::cat("std ", show_out(so), " exact model ", dec(exact), " etl ", show_out(eo)));
            return;
        }
        if (!same(eo, so)) {
            report(r, "C12", subject, mk_class(), mk_case, [&] {
                return mc::cat("etl ", show_out(eo), " std ", show_out(so), any_fp ? std::string() : " exact " + dec(exact));
            });
        }
    };

    for (std::size_t k = 0; k < as.size(); ++k) {
        V const a = as[k];
        if ((k & 63) == 0 && r.deadline_passed()) {
            r.not_exhaustive("deadline");
            break;
        }
        for (int op = 0; op < P_FIRST_BINARY; ++op) { one(op, a, V{}); }
        if (k >= n_binary) { continue; }
        for (V b : bs) {
            if (any_fp) { set_bin(a, b); }
            for (int op = P_FIRST_BINARY; op < P_COUNT; ++op) { one(op, a, b); }
        }
    }
    if (r.wants_sample()) {
        V const a = as.size() > 7 ? as[7] : as[0];
        Out const x = e.etl(P_ROUND, a, V{});
        Out const y = e.etl(P_FLOOR, a, V{});
        r.sample(mc::cat("round/floor ", pair_case(P_ROUND, c, a, V{}), " -> ", show_out(x), " / ", show_out(y)));
    }
    r.count("evaluations", t.evaluations);
    r.count("distinct_nontrivial", t.nontrivial);
    r.count("skipped_not_representable", t.skipped);
    r.count("pairs");
    r.count("round_exact_ties", t.ties);
    for (int op = 0; op < P_COUNT; ++op) {
        if (gaps[op] != 0) { r.count(mc::cat("api_gap:", pair_subject(op)).c_str(), gaps[op]); }
    }
}

inline void run_self(mc::Reporter& r, SelfEntry const& e, Ranges const& rg)
{
    PeriodInfo const p = period_info(e.pi);
    std::vector<V> as, bs;
    if (is_fp(e.r)) {
        for (f80 x : fp_first_operands(e.r, rg.a)) { as.push_back(V{0, x}); }
        for (f80 x : fp_second_operands(e.r)) { bs.push_back(V{0, x}); }
    } else {
        std::vector<i128> v;
        int const ra = rg.unary_full > rg.a ? rg.unary_full : rg.a;
        for (int x = -ra; x <= ra; ++x) { v.push_back(x); }
        add_boundaries(v, e.r);
        finish_set(v, e.r);
        for (i128 x : v) { as.push_back(V{i64(x), 0}); }
        for (i128 x : second_operands(e.r, rg.b)) { bs.push_back(V{i64(x), 0}); }
    }
    // floating: everything is defined under IEC 60559 except a zero divisor and %; finite
    // operands whose result leaves 0.999 * max of the rep (overflow) are outside the statement
    auto fp_valid = [&](int op, V a, V b) {
        if (op == S_MOD_ASSIGN_S || op == S_MOD_ASSIGN_D || op == S_MOD_S) { return false; }
        bool const finite = std::isfinite(a.f) && std::isfinite(b.f);
        f80 const lim     = fp_max(e.r) * 0.999L;
        switch (op) {
        case S_DIV_ASSIGN:
        case S_DIV_S:
            if (b.f != b.f) { return true; }
            if (!(b.f != 0)) { return false; }
            return !finite || std::fabs(a.f / b.f) <= lim;
        case S_MUL_ASSIGN:
        case S_MUL:
        case S_MUL_REV: return !finite || std::fabs(a.f * b.f) <= lim;
        case S_ADD_ASSIGN:
        case S_SUB_ASSIGN:
        case S_TP_ADD_ASSIGN:
        case S_TP_SUB_ASSIGN: return !finite || std::fabs(a.f) + std::fabs(b.f) <= lim;
        default: return true;
        }
    };
    Tally t;
    std::uint64_t gaps[S_COUNT] = {};
    Out eo, so;
    auto one = [&](int op, V a, V b) {
        bool valid;
        i128 exact[2] = {0, 0};
        if (is_fp(e.r)) {
            valid = fp_valid(op, a, b);
        } else {
            valid = exact_self(op, e.r, ival(a, e.r), ival(b, e.r), exact);
        }
        if (!valid) {
            ++t.skipped;
            return;
        }
        char const* subject = self_subject(op);
        auto mk_class       = [&] { return self_class(op, e.r, a, b); };
        auto mk_case        = [&] {
            std::string s = mc::cat(dur_name(e.r, p), "(", show_v(a, e.r), ")");
            if (op >= S_FIRST_BINARY) { s += mc::cat(" operand ", show_v(b, e.r)); }
            return s;
        };
        if (!run_both(r, e.etl, e.stdf, op, a, b, subject, mk_class, mk_case, eo, so)) { return; }
        if (!so.ok) {
            ++t.skipped;
            return;
        }
        if (!eo.ok) {
            ++gaps[op];
            return;
        }
        ++t.evaluations;
        if ((is_fp(e.r) ? a.f != 0 : a.i != 0) && (op < S_FIRST_BINARY || (is_fp(e.r) ? b.f != 0 : b.i != 0))) { ++t.nontrivial; }
        r.outcome(mc::hash_mix(std::uint64_t(100 + op), hash_out(eo)));
        if (!is_fp(e.r) && (std::uint64_t(so.i[0]) != std::uint64_t(exact[0]) || std::uint64_t(so.i[1]) != std::uint64_t(exact[1]))) {
            r.violation("C12", "harness:oracle-disagreement", subject, mk_case(),
                mc::cat("std ", show_out(so), " exact model {", dec(exact[0]), ",", dec(exact[1]), "} etl ", show_out(eo)));
            return;
        }
        if (!same(eo, so)) {
            report(r, "C12", subject, mk_class(), mk_case, [&] { return mc::cat("etl ", show_out(eo), " std ", show_out(so)); });
        }
    };
    for (int op = S_ZERO; op < S_FIRST_BINARY; ++op) { one(op, V{}, V{}); }
    std::size_t k = 0;
    for (V a : as) {
        if ((k++ & 63) == 0 && r.deadline_passed()) {
            r.not_exhaustive("deadline");
            break;
        }
        for (int op = 0; op < S_ZERO; ++op) { one(op, a, V{}); }
        // integer reps: the binary operations run over [-rg.a, rg.a] and the boundaries only
        if (!is_fp(e.r) && rg.unary_full > rg.a) {
            i128 const x = iabs(ival(a, e.r));
            if (x > rg.a && x <= rg.unary_full) { continue; }
        }
        for (V b : bs) {
            for (int op = S_FIRST_BINARY; op < S_COUNT; ++op) { one(op, a, b); }
        }
    }
    r.count("evaluations", t.evaluations);
    r.count("distinct_nontrivial", t.nontrivial);
    r.count("skipped_not_representable", t.skipped);
    for (int op = 0; op < S_COUNT; ++op) {
        if (gaps[op] != 0) { r.count(mc::cat("api_gap:", self_subject(op)).c_str(), gaps[op]); }
    }
}

} // namespace c12
