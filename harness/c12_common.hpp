// Shared machinery of the C12 harness (c12_chrono.cpp): etl::chrono duration / time_point
// arithmetic, comparison, conversion and rounding casts against (1) std::chrono on the same
// inputs and (2) exact rational arithmetic in __int128.
//
// Structure: every operation is instantiated once for tetl and once for libstdc++ from ONE
// template (pair_op<L,...> / self_op<L,...>, L = EtlL or StdL), so that both sides execute
// literally the same expression.  The templates are reduced to two plain function pointers per
// (rep configuration, From period, To period); everything else - value sets, the pre-check
// "is the exact result and every intermediate the standard prescribes representable", the
// exact model, classification, reporting - is ordinary non-template code in this header.
//
// Carrier: an operand is a V {i64, double}; a result is an Out {2 x i64, 2 x double, ok}.
// `ok == false` means "this library has no such overload" (API gap, decided by a
// requires-expression), never a violation.
#pragma once

#include "mc.hpp"

#include <etl/chrono.hpp>
#include <etl/ratio.hpp>
#include <etl/type_traits.hpp>

#include <chrono>
#include <cstdint>
#include <cstring>
#include <limits>
#include <ratio>
#include <string>
#include <type_traits>
#include <vector>

namespace c12 {

using i128 = __int128;
using u128 = unsigned __int128;
using i64  = std::int64_t;
using i32  = std::int32_t;

// ---------------------------------------------------------------------------------------
// periods
// ---------------------------------------------------------------------------------------

struct PeriodInfo {
    char const* name;
    i64 num, den;
};

template <int I>
struct P;

#define C12_PERIOD(I, NAME, N, D)                                                                                      \
    template <>                                                                                                        \
    struct P<I> {                                                                                                      \
        using e = etl::ratio<N, D>;                                                                                    \
        using s = std::ratio<N, D>;                                                                                    \
        static constexpr PeriodInfo info{NAME, N, D};                                                                  \
    };
C12_PERIOD(0, "nano", 1, 1000000000)
C12_PERIOD(1, "micro", 1, 1000000)
C12_PERIOD(2, "milli", 1, 1000)
C12_PERIOD(3, "ratio<1>", 1, 1)
C12_PERIOD(4, "ratio<60>", 60, 1)
C12_PERIOD(5, "ratio<3600>", 3600, 1)
C12_PERIOD(6, "ratio<86400>", 86400, 1)
C12_PERIOD(7, "ratio<1,3>", 1, 3)
C12_PERIOD(8, "ratio<5,7>", 5, 7)
C12_PERIOD(9, "ratio<1001,30000>", 1001, 30000)
#undef C12_PERIOD

inline constexpr int n_periods = 10;

inline PeriodInfo period_info(int i)
{
    static PeriodInfo const t[n_periods] = {P<0>::info, P<1>::info, P<2>::info, P<3>::info, P<4>::info, P<5>::info,
        P<6>::info, P<7>::info, P<8>::info, P<9>::info};
    return t[i];
}

// ---------------------------------------------------------------------------------------
// carrier
// ---------------------------------------------------------------------------------------

enum class Rep : int { i32 = 0, i64 = 1, f64 = 2 };

template <typename R>
constexpr Rep rep_kind()
{
    if constexpr (std::is_same_v<R, i32>) {
        return Rep::i32;
    } else if constexpr (std::is_same_v<R, i64>) {
        return Rep::i64;
    } else {
        static_assert(std::is_same_v<R, double>);
        return Rep::f64;
    }
}
inline char const* rep_name(Rep r) { return r == Rep::i32 ? "i32" : r == Rep::i64 ? "i64" : "double"; }
inline bool is_fp(Rep r) { return r == Rep::f64; }

struct V {
    i64 i{0};
    double f{0};
};

struct Out {
    i64 i[2]{0, 0};
    double f[2]{0, 0};
    bool ok{true};
};

inline std::uint64_t bits(double d)
{
    std::uint64_t u;
    std::memcpy(&u, &d, sizeof u);
    return u;
}
inline bool same(Out const& a, Out const& b)
{
    return a.i[0] == b.i[0] && a.i[1] == b.i[1] && bits(a.f[0]) == bits(b.f[0]) && bits(a.f[1]) == bits(b.f[1]);
}
inline std::uint64_t hash_out(Out const& o)
{
    std::uint64_t h = mc::hash_mix(std::uint64_t(o.i[0]), std::uint64_t(o.i[1]));
    h               = mc::hash_mix(h, bits(o.f[0]));
    return mc::hash_mix(h, bits(o.f[1]));
}

template <typename R>
constexpr R get(V v)
{
    if constexpr (std::is_floating_point_v<R>) {
        return static_cast<R>(v.f);
    } else {
        return static_cast<R>(v.i);
    }
}
template <typename R>
constexpr void put(Out& o, int k, R x)
{
    if constexpr (std::is_floating_point_v<R>) {
        o.f[k] = static_cast<double>(x);
    } else {
        o.i[k] = static_cast<i64>(x);
    }
}

inline std::string dec(i128 v)
{
    if (v == 0) { return "0"; }
    bool const neg = v < 0;
    u128 u         = neg ? u128(0) - u128(v) : u128(v);
    std::string s;
    while (u != 0) {
        s.insert(s.begin(), char('0' + int(u % 10)));
        u /= 10;
    }
    if (neg) { s.insert(s.begin(), '-'); }
    return s;
}
inline std::string show_f(double d)
{
    char b[64];
    std::snprintf(b, sizeof b, "%.17g(0x%016llx)", d, static_cast<unsigned long long>(bits(d)));
    return b;
}
inline std::string show_v(V v, Rep r) { return is_fp(r) ? show_f(v.f) : dec(v.i); }
inline std::string show_out(Out const& o)
{
    if (!o.ok) { return "<no such overload>"; }
    std::string s = "{" + dec(o.i[0]);
    if (o.i[1] != 0) { s += "," + dec(o.i[1]); }
    if (bits(o.f[0]) != 0 || bits(o.f[1]) != 0) { s += ";" + show_f(o.f[0]) + "," + show_f(o.f[1]); }
    return s + "}";
}

// ---------------------------------------------------------------------------------------
// operations
// ---------------------------------------------------------------------------------------

// pair operations: a is a duration<FR,From> count, b a duration<TR,To> count
enum PairOp : int {
    P_CAST = 0,   // duration_cast<To>(a)
    P_FLOOR,      // floor<To>(a)
    P_CEIL,       // ceil<To>(a)
    P_ROUND,      // round<To>(a)               (To::rep integral)
    P_TO_COMMON,  // common_type_t<From,To>(a)  (converting constructor)
    P_IMPLICIT,   // To t = a;                  (only where std allows the implicit conversion)
    P_TP_CAST,    // time_point_cast<To>(time_point<Clock,From>(a))
    P_TP_FLOOR,
    P_TP_CEIL,
    P_TP_ROUND,
    P_FIRST_BINARY,
    P_ADD = P_FIRST_BINARY, // a + b
    P_SUB,
    P_DIV, // a / b -> common rep
    P_MOD, // a % b
    P_EQ,
    P_NE,
    P_LT,
    P_LE,
    P_GT,
    P_GE,
    P_TP_EQ, // time_point<Clock,From>(a) == time_point<Clock,To>(b)
    P_TP_NE,
    P_TP_LT,
    P_TP_LE,
    P_TP_GT,
    P_TP_GE,
    P_TP_PLUS_D,   // time_point<From>(a) + To(b)
    P_D_PLUS_TP,   // From(a) + time_point<To>(b)
    P_TP_MINUS_D,  // time_point<From>(a) - To(b)
    P_TP_MINUS_TP, // time_point<From>(a) - time_point<To>(b)
    P_COUNT
};

inline char const* pair_subject(int op)
{
    switch (op) {
    case P_CAST: return "chrono::duration_cast";
    case P_FLOOR: return "chrono::floor(duration)";
    case P_CEIL: return "chrono::ceil(duration)";
    case P_ROUND: return "chrono::round(duration)";
    case P_TO_COMMON: return "duration::duration(duration<Rep2,Period2>)";
    case P_IMPLICIT: return "duration::duration(duration<Rep2,Period2>)";
    case P_TP_CAST: return "chrono::time_point_cast";
    case P_TP_FLOOR: return "chrono::floor(time_point)";
    case P_TP_CEIL: return "chrono::ceil(time_point)";
    case P_TP_ROUND: return "chrono::round(time_point)";
    case P_ADD: return "operator+(duration,duration)";
    case P_SUB: return "operator-(duration,duration)";
    case P_DIV: return "operator/(duration,duration)";
    case P_MOD: return "operator%(duration,duration)";
    case P_EQ: return "operator==(duration,duration)";
    case P_NE: return "operator!=(duration,duration)";
    case P_LT: return "operator<(duration,duration)";
    case P_LE: return "operator<=(duration,duration)";
    case P_GT: return "operator>(duration,duration)";
    case P_GE: return "operator>=(duration,duration)";
    case P_TP_EQ: return "operator==(time_point,time_point)";
    case P_TP_NE: return "operator!=(time_point,time_point)";
    case P_TP_LT: return "operator<(time_point,time_point)";
    case P_TP_LE: return "operator<=(time_point,time_point)";
    case P_TP_GT: return "operator>(time_point,time_point)";
    case P_TP_GE: return "operator>=(time_point,time_point)";
    case P_TP_PLUS_D: return "operator+(time_point,duration)";
    case P_D_PLUS_TP: return "operator+(duration,time_point)";
    case P_TP_MINUS_D: return "operator-(time_point,duration)";
    case P_TP_MINUS_TP: return "operator-(time_point,time_point)";
    }
    return "?";
}

// self operations: one duration type duration<R,Period>; a, b counts (b also as scalar)
enum SelfOp : int {
    S_POS = 0, // +a
    S_NEG,     // -a
    S_ABS,     // abs(a)
    S_PREINC,  // ++d  -> {returned, object}
    S_POSTINC, // d++
    S_PREDEC,
    S_POSTDEC,
    S_TP_PREINC, // ++tp
    S_TP_POSTINC,
    S_TP_PREDEC,
    S_TP_POSTDEC,
    S_TP_EPOCH, // time_point(a).time_since_epoch()
    S_ZERO,     // constants (a ignored)
    S_MIN,
    S_MAX,
    S_TP_MIN,
    S_TP_MAX,
    S_FIRST_BINARY,
    S_ADD_ASSIGN = S_FIRST_BINARY, // d += duration(b)
    S_SUB_ASSIGN,
    S_MUL_ASSIGN,   // d *= b
    S_DIV_ASSIGN,   // d /= b
    S_MOD_ASSIGN_S, // d %= b           (integral)
    S_MOD_ASSIGN_D, // d %= duration(b) (integral)
    S_MUL,          // d * b   (non-member, if present)
    S_MUL_REV,      // b * d
    S_DIV_S,        // d / b
    S_MOD_S,        // d % b
    S_TP_ADD_ASSIGN,
    S_TP_SUB_ASSIGN,
    S_COUNT
};

inline char const* self_subject(int op)
{
    switch (op) {
    case S_POS: return "duration::operator+()";
    case S_NEG: return "duration::operator-()";
    case S_ABS: return "chrono::abs";
    case S_PREINC: return "duration::operator++()";
    case S_POSTINC: return "duration::operator++(int)";
    case S_PREDEC: return "duration::operator--()";
    case S_POSTDEC: return "duration::operator--(int)";
    case S_TP_PREINC: return "time_point::operator++()";
    case S_TP_POSTINC: return "time_point::operator++(int)";
    case S_TP_PREDEC: return "time_point::operator--()";
    case S_TP_POSTDEC: return "time_point::operator--(int)";
    case S_TP_EPOCH: return "time_point::time_since_epoch";
    case S_ZERO: return "duration::zero";
    case S_MIN: return "duration::min";
    case S_MAX: return "duration::max";
    case S_TP_MIN: return "time_point::min";
    case S_TP_MAX: return "time_point::max";
    case S_ADD_ASSIGN: return "duration::operator+=";
    case S_SUB_ASSIGN: return "duration::operator-=";
    case S_MUL_ASSIGN: return "duration::operator*=";
    case S_DIV_ASSIGN: return "duration::operator/=";
    case S_MOD_ASSIGN_S: return "duration::operator%=(rep)";
    case S_MOD_ASSIGN_D: return "duration::operator%=(duration)";
    case S_MUL: return "operator*(duration,rep)";
    case S_MUL_REV: return "operator*(rep,duration)";
    case S_DIV_S: return "operator/(duration,rep)";
    case S_MOD_S: return "operator%(duration,rep)";
    case S_TP_ADD_ASSIGN: return "time_point::operator+=";
    case S_TP_SUB_ASSIGN: return "time_point::operator-=";
    }
    return "?";
}

// ---------------------------------------------------------------------------------------
// the two libraries behind one interface
// ---------------------------------------------------------------------------------------

struct EtlL {
    struct clock {
        using rep                       = i64;
        using period                    = etl::nano;
        using duration                  = etl::chrono::duration<i64, etl::nano>;
        using time_point                = etl::chrono::time_point<clock>;
        static constexpr bool is_steady = false;
    };
    template <typename R, typename Pd>
    using dur = etl::chrono::duration<R, typename Pd::e>;
    template <typename D>
    using tp = etl::chrono::time_point<clock, D>;
    template <typename A, typename B>
    using common = etl::common_type_t<A, B>;

    template <typename To, typename X>
    static constexpr auto cast(X const& x)
    {
        return etl::chrono::duration_cast<To>(x);
    }
    template <typename To, typename X>
    static constexpr auto floor(X const& x)
    {
        return etl::chrono::floor<To>(x);
    }
    template <typename To, typename X>
    static constexpr auto ceil(X const& x)
    {
        return etl::chrono::ceil<To>(x);
    }
    template <typename To, typename X>
    static constexpr auto round(X const& x)
    {
        return etl::chrono::round<To>(x);
    }
    template <typename X>
    static constexpr auto abs(X const& x)
    {
        return etl::chrono::abs(x);
    }
    // time_point_cast is declared with return type ToDuration in the pinned tree and its body
    // does not compile; the declared return type tells (without instantiating the body)
    // whether the function is usable
    template <typename To, typename TP>
    static constexpr bool has_tp_cast
        = std::is_same_v<decltype(etl::chrono::time_point_cast<To>(std::declval<TP const&>())), tp<To>>;
    template <typename To, typename TP>
    static constexpr auto tp_cast(TP const& x)
    {
        return etl::chrono::time_point_cast<To>(x);
    }
};

struct StdL {
    struct clock {
        using rep                       = i64;
        using period                    = std::nano;
        using duration                  = std::chrono::duration<i64, std::nano>;
        using time_point                = std::chrono::time_point<clock>;
        static constexpr bool is_steady = false;
    };
    template <typename R, typename Pd>
    using dur = std::chrono::duration<R, typename Pd::s>;
    template <typename D>
    using tp = std::chrono::time_point<clock, D>;
    template <typename A, typename B>
    using common = std::common_type_t<A, B>;

    template <typename To, typename X>
    static constexpr auto cast(X const& x)
    {
        return std::chrono::duration_cast<To>(x);
    }
    template <typename To, typename X>
    static constexpr auto floor(X const& x)
    {
        return std::chrono::floor<To>(x);
    }
    template <typename To, typename X>
    static constexpr auto ceil(X const& x)
    {
        return std::chrono::ceil<To>(x);
    }
    template <typename To, typename X>
    static constexpr auto round(X const& x)
    {
        return std::chrono::round<To>(x);
    }
    template <typename X>
    static constexpr auto abs(X const& x)
    {
        return std::chrono::abs(x);
    }
    template <typename To, typename TP>
    static constexpr bool has_tp_cast = true;
    template <typename To, typename TP>
    static constexpr auto tp_cast(TP const& x)
    {
        return std::chrono::time_point_cast<To>(x);
    }
};

/// One pair operation on library L.  Returns ok == false when L has no such overload.
template <typename L, typename FR, typename TR, int FI, int TI>
Out pair_op(int op, V va, V vb)
{
    using FD  = typename L::template dur<FR, P<FI>>;
    using TD  = typename L::template dur<TR, P<TI>>;
    using CD  = typename L::template common<FD, TD>;
    using FTP = typename L::template tp<FD>;
    using TTP = typename L::template tp<TD>;

    constexpr bool to_int   = std::is_integral_v<TR>;
    constexpr bool both_int = std::is_integral_v<TR> && std::is_integral_v<FR>;

    Out o;
    FD const a{get<FR>(va)};
    TD const b{get<TR>(vb)};
    switch (op) {
    case P_CAST: put(o, 0, L::template cast<TD>(a).count()); break;
    case P_FLOOR: put(o, 0, L::template floor<TD>(a).count()); break;
    case P_CEIL: put(o, 0, L::template ceil<TD>(a).count()); break;
    case P_ROUND:
        if constexpr (to_int) {
            put(o, 0, L::template round<TD>(a).count());
        } else {
            o.ok = false;
        }
        break;
    case P_TO_COMMON: {
        CD const c(a);
        put(o, 0, c.count());
        break;
    }
    case P_IMPLICIT:
        if constexpr (std::is_convertible_v<FD, TD>) {
            TD const t = a;
            put(o, 0, t.count());
        } else {
            o.ok = false;
        }
        break;
    case P_TP_CAST:
        if constexpr (L::template has_tp_cast<TD, FTP>) {
            auto const t = L::template tp_cast<TD>(FTP{a});
            put(o, 0, t.time_since_epoch().count());
        } else {
            o.ok = false;
        }
        break;
    case P_TP_FLOOR: {
        auto const t = L::template floor<TD>(FTP{a});
        put(o, 0, t.time_since_epoch().count());
        break;
    }
    case P_TP_CEIL: {
        auto const t = L::template ceil<TD>(FTP{a});
        put(o, 0, t.time_since_epoch().count());
        break;
    }
    case P_TP_ROUND:
        if constexpr (to_int) {
            auto const t = L::template round<TD>(FTP{a});
            put(o, 0, t.time_since_epoch().count());
        } else {
            o.ok = false;
        }
        break;
    case P_ADD: {
        auto const c = a + b;
        static_assert(std::is_same_v<std::remove_cv_t<decltype(c)>, CD>);
        put(o, 0, c.count());
        break;
    }
    case P_SUB: {
        auto const c = a - b;
        static_assert(std::is_same_v<std::remove_cv_t<decltype(c)>, CD>);
        put(o, 0, c.count());
        break;
    }
    case P_DIV: {
        auto const q = a / b;
        static_assert(std::is_same_v<std::remove_cv_t<decltype(q)>, std::common_type_t<FR, TR>>);
        put(o, 0, q);
        break;
    }
    case P_MOD:
        if constexpr (both_int) {
            auto const c = a % b;
            static_assert(std::is_same_v<std::remove_cv_t<decltype(c)>, CD>);
            put(o, 0, c.count());
        } else {
            o.ok = false;
        }
        break;
    case P_EQ: o.i[0] = (a == b) ? 1 : 0; break;
    case P_NE: o.i[0] = (a != b) ? 1 : 0; break;
    case P_LT: o.i[0] = (a < b) ? 1 : 0; break;
    case P_LE: o.i[0] = (a <= b) ? 1 : 0; break;
    case P_GT: o.i[0] = (a > b) ? 1 : 0; break;
    case P_GE: o.i[0] = (a >= b) ? 1 : 0; break;
    case P_TP_EQ: o.i[0] = (FTP{a} == TTP{b}) ? 1 : 0; break;
    case P_TP_NE: o.i[0] = (FTP{a} != TTP{b}) ? 1 : 0; break;
    case P_TP_LT: o.i[0] = (FTP{a} < TTP{b}) ? 1 : 0; break;
    case P_TP_LE: o.i[0] = (FTP{a} <= TTP{b}) ? 1 : 0; break;
    case P_TP_GT: o.i[0] = (FTP{a} > TTP{b}) ? 1 : 0; break;
    case P_TP_GE: o.i[0] = (FTP{a} >= TTP{b}) ? 1 : 0; break;
    case P_TP_PLUS_D:
        if constexpr (requires(FTP x, TD y) { x + y; }) {
            auto const t = FTP{a} + b;
            put(o, 0, t.time_since_epoch().count());
        } else {
            o.ok = false;
        }
        break;
    case P_D_PLUS_TP:
        if constexpr (requires(FD x, TTP y) { x + y; }) {
            auto const t = a + TTP{b};
            put(o, 0, t.time_since_epoch().count());
        } else {
            o.ok = false;
        }
        break;
    case P_TP_MINUS_D:
        if constexpr (requires(FTP x, TD y) { x - y; }) {
            auto const t = FTP{a} - b;
            put(o, 0, t.time_since_epoch().count());
        } else {
            o.ok = false;
        }
        break;
    case P_TP_MINUS_TP:
        if constexpr (requires(FTP x, TTP y) { x - y; }) {
            auto const d = FTP{a} - TTP{b};
            put(o, 0, d.count());
        } else {
            o.ok = false;
        }
        break;
    default: o.ok = false; break;
    }
    return o;
}

/// One self operation on library L (single duration type duration<R, P<I>>).
template <typename L, typename R, int I>
Out self_op(int op, V va, V vb)
{
    using D  = typename L::template dur<R, P<I>>;
    using TP = typename L::template tp<D>;

    constexpr bool integral = std::is_integral_v<R>;

    Out o;
    D const a{get<R>(va)};
    D const b{get<R>(vb)};
    R const s = get<R>(vb);
    switch (op) {
    case S_POS: put(o, 0, (+a).count()); break;
    case S_NEG: put(o, 0, (-a).count()); break;
    case S_ABS: put(o, 0, L::abs(a).count()); break;
    case S_PREINC: {
        D d       = a;
        D const x = ++d;
        put(o, 0, x.count());
        put(o, 1, d.count());
        break;
    }
    case S_POSTINC: {
        D d       = a;
        D const x = d++;
        put(o, 0, x.count());
        put(o, 1, d.count());
        break;
    }
    case S_PREDEC: {
        D d       = a;
        D const x = --d;
        put(o, 0, x.count());
        put(o, 1, d.count());
        break;
    }
    case S_POSTDEC: {
        D d       = a;
        D const x = d--;
        put(o, 0, x.count());
        put(o, 1, d.count());
        break;
    }
    case S_TP_PREINC: {
        TP t{a};
        TP const x = ++t;
        put(o, 0, x.time_since_epoch().count());
        put(o, 1, t.time_since_epoch().count());
        break;
    }
    case S_TP_POSTINC: {
        TP t{a};
        TP const x = t++;
        put(o, 0, x.time_since_epoch().count());
        put(o, 1, t.time_since_epoch().count());
        break;
    }
    case S_TP_PREDEC: {
        TP t{a};
        TP const x = --t;
        put(o, 0, x.time_since_epoch().count());
        put(o, 1, t.time_since_epoch().count());
        break;
    }
    case S_TP_POSTDEC: {
        TP t{a};
        TP const x = t--;
        put(o, 0, x.time_since_epoch().count());
        put(o, 1, t.time_since_epoch().count());
        break;
    }
    case S_TP_EPOCH: {
        TP const t{a};
        put(o, 0, t.time_since_epoch().count());
        put(o, 1, TP{}.time_since_epoch().count());
        break;
    }
    case S_ZERO: put(o, 0, D::zero().count()); break;
    case S_MIN: put(o, 0, D::min().count()); break;
    case S_MAX: put(o, 0, D::max().count()); break;
    case S_TP_MIN: put(o, 0, TP::min().time_since_epoch().count()); break;
    case S_TP_MAX: put(o, 0, TP::max().time_since_epoch().count()); break;
    case S_ADD_ASSIGN: {
        D d      = a;
        D& x     = (d += b);
        o.i[1]   = (&x == &d) ? 0 : 1;
        put(o, 0, d.count());
        break;
    }
    case S_SUB_ASSIGN: {
        D d    = a;
        D& x   = (d -= b);
        o.i[1] = (&x == &d) ? 0 : 1;
        put(o, 0, d.count());
        break;
    }
    case S_MUL_ASSIGN: {
        D d    = a;
        D& x   = (d *= s);
        o.i[1] = (&x == &d) ? 0 : 1;
        put(o, 0, d.count());
        break;
    }
    case S_DIV_ASSIGN: {
        D d    = a;
        D& x   = (d /= s);
        o.i[1] = (&x == &d) ? 0 : 1;
        put(o, 0, d.count());
        break;
    }
    case S_MOD_ASSIGN_S:
        if constexpr (integral) {
            D d    = a;
            D& x   = (d %= s);
            o.i[1] = (&x == &d) ? 0 : 1;
            put(o, 0, d.count());
        } else {
            o.ok = false;
        }
        break;
    case S_MOD_ASSIGN_D:
        if constexpr (integral) {
            D d    = a;
            D& x   = (d %= b);
            o.i[1] = (&x == &d) ? 0 : 1;
            put(o, 0, d.count());
        } else {
            o.ok = false;
        }
        break;
    case S_MUL:
        if constexpr (requires(D x, R y) { x * y; }) {
            put(o, 0, (a * s).count());
        } else {
            o.ok = false;
        }
        break;
    case S_MUL_REV:
        if constexpr (requires(D x, R y) { y * x; }) {
            put(o, 0, (s * a).count());
        } else {
            o.ok = false;
        }
        break;
    case S_DIV_S:
        if constexpr (requires(D x, R y) { x / y; }) {
            put(o, 0, (a / s).count());
        } else {
            o.ok = false;
        }
        break;
    case S_MOD_S:
        if constexpr (integral) {
            if constexpr (requires(D x, R y) { x % y; }) {
                put(o, 0, (a % s).count());
            } else {
                o.ok = false;
            }
        } else {
            o.ok = false;
        }
        break;
    case S_TP_ADD_ASSIGN: {
        TP t{a};
        TP& x  = (t += b);
        o.i[1] = (&x == &t) ? 0 : 1;
        put(o, 0, t.time_since_epoch().count());
        break;
    }
    case S_TP_SUB_ASSIGN: {
        TP t{a};
        TP& x  = (t -= b);
        o.i[1] = (&x == &t) ? 0 : 1;
        put(o, 0, t.time_since_epoch().count());
        break;
    }
    default: o.ok = false; break;
    }
    return o;
}

using OpFn = Out (*)(int, V, V);

/// compile-time facts of one pair in one library
struct Facts {
    i64 cd_num{0}, cd_den{0};
    Rep cd_rep{Rep::i64};
    bool implicit_ok{false};   // From implicitly convertible to To
    bool constructible{false}; // To constructible from From
    bool has_tp_cast{false};
};

template <typename L, typename FR, typename TR, int FI, int TI>
Facts make_facts()
{
    using FD  = typename L::template dur<FR, P<FI>>;
    using TD  = typename L::template dur<TR, P<TI>>;
    using CD  = typename L::template common<FD, TD>;
    using FTP = typename L::template tp<FD>;
    Facts f;
    f.cd_num        = CD::period::num;
    f.cd_den        = CD::period::den;
    f.cd_rep        = rep_kind<typename CD::rep>();
    f.implicit_ok   = std::is_convertible_v<FD, TD>;
    f.constructible = std::is_constructible_v<TD, FD>;
    f.has_tp_cast   = L::template has_tp_cast<TD, FTP>;
    return f;
}

struct PairEntry {
    Rep fr, tr;
    int fi, ti;
    OpFn etl, stdf;
    Facts ef, sf;
    bool formable; // etl::common_type of the pair can be computed at all (see PairOk)
};

// etl::common_type<duration,duration> computes lcm(den1, den2) with etl::lcm, which in the
// pinned tree multiplies before dividing: for (nano, ratio<5,7>) the common period
// ratio<1,7000000000> is representable, but instantiating that duration evaluates
// lcm(7e9, 7e9) -> "overflow in constant expression", a hard compile error.  Whether the
// constant expression is valid is detected here without instantiating anything, so that the
// pair is reported (violation class lcm_overflow) instead of breaking the build, and is
// covered automatically once lcm is repaired.
template <i64 A, i64 B>
inline constexpr bool etl_lcm_ok = requires { typename std::integral_constant<i64, etl::lcm(A, B)>; };
constexpr i64 cx_gcd(i64 a, i64 b) { return b == 0 ? a : cx_gcd(b, a % b); }
template <int FI, int TI>
struct PairOk {
    static constexpr i64 fd   = P<FI>::info.den;
    static constexpr i64 td   = P<TI>::info.den;
    static constexpr i64 l    = fd / cx_gcd(fd, td) * td;
    static constexpr bool value = etl_lcm_ok<fd, td> && etl_lcm_ok<l, l>;
};
inline Out no_op(int, V, V)
{
    Out o;
    o.ok = false;
    return o;
}
struct SelfEntry {
    Rep r;
    int pi;
    OpFn etl, stdf;
};

template <typename FR, typename TR, int FI, int TI>
PairEntry make_pair_entry()
{
    if constexpr (PairOk<FI, TI>::value) {
        return PairEntry{rep_kind<FR>(), rep_kind<TR>(), FI, TI, &pair_op<EtlL, FR, TR, FI, TI>, &pair_op<StdL, FR, TR, FI, TI>,
            make_facts<EtlL, FR, TR, FI, TI>(), make_facts<StdL, FR, TR, FI, TI>(), true};
    } else {
        return PairEntry{rep_kind<FR>(), rep_kind<TR>(), FI, TI, &no_op, &pair_op<StdL, FR, TR, FI, TI>, Facts{},
            make_facts<StdL, FR, TR, FI, TI>(), false};
    }
}
template <typename R, int I>
SelfEntry make_self_entry()
{
    return SelfEntry{rep_kind<R>(), I, &self_op<EtlL, R, I>, &self_op<StdL, R, I>};
}

// ---------------------------------------------------------------------------------------
// exact arithmetic
// ---------------------------------------------------------------------------------------

inline i128 iabs(i128 v) { return v < 0 ? -v : v; }
inline i128 gcd128(i128 a, i128 b)
{
    a = iabs(a);
    b = iabs(b);
    while (b != 0) {
        i128 const t = a % b;
        a            = b;
        b            = t;
    }
    return a;
}
inline i128 floor_div(i128 n, i128 d) // d > 0
{
    i128 q = n / d;
    if (n % d != 0 && n < 0) { --q; }
    return q;
}
inline i128 ceil_div(i128 n, i128 d) // d > 0
{
    i128 q = n / d;
    if (n % d != 0 && n > 0) { ++q; }
    return q;
}
inline i128 round_even_div(i128 n, i128 d) // d > 0
{
    i128 const lo  = floor_div(n, d);
    i128 const rem = n - lo * d; // 0 <= rem < d
    if (2 * rem < d) { return lo; }
    if (2 * rem > d) { return lo + 1; }
    return (lo % 2 != 0) ? lo + 1 : lo;
}
/// modular inverse of n modulo d (gcd(n,d) == 1, d > 1), in [0,d)
inline i128 inv_mod(i128 n, i128 d)
{
    i128 r0 = d, r1 = ((n % d) + d) % d, t0 = 0, t1 = 1;
    while (r1 != 0) {
        i128 const q = r0 / r1;
        i128 const r = r0 - q * r1;
        r0           = r1;
        r1           = r;
        i128 const t = t0 - q * t1;
        t0           = t1;
        t1           = t;
    }
    return ((t0 % d) + d) % d;
}

inline i128 rep_min(Rep r)
{
    return r == Rep::i32 ? i128(std::numeric_limits<i32>::min()) : i128(std::numeric_limits<i64>::min());
}
inline i128 rep_max(Rep r)
{
    return r == Rep::i32 ? i128(std::numeric_limits<i32>::max()) : i128(std::numeric_limits<i64>::max());
}
inline bool fits(Rep r, i128 v) { return v >= rep_min(r) && v <= rep_max(r); }
inline bool fits64(i128 v) { return fits(Rep::i64, v); }
inline Rep common_rep(Rep a, Rep b)
{
    if (is_fp(a) || is_fp(b)) { return Rep::f64; }
    return (a == Rep::i64 || b == Rep::i64) ? Rep::i64 : Rep::i32;
}

/// everything the exact model needs to know about a pair
struct PairCtx {
    Rep fr, tr, cr;
    PeriodInfo fp, tp;
    i128 N, D;          // conversion factor From -> To, reduced
    i128 cd_num, cd_den; // common period (own gcd/lcm)
    i128 fF, fT;        // From/To period expressed in common-period ticks
};

inline PairCtx make_ctx(PairEntry const& e)
{
    PairCtx c;
    c.fr         = e.fr;
    c.tr         = e.tr;
    c.cr         = common_rep(e.fr, e.tr);
    c.fp         = period_info(e.fi);
    c.tp         = period_info(e.ti);
    i128 const n = i128(c.fp.num) * c.tp.den;
    i128 const d = i128(c.fp.den) * c.tp.num;
    i128 const g = gcd128(n, d);
    c.N          = n / g;
    c.D          = d / g;
    c.cd_num     = gcd128(c.fp.num, c.tp.num);
    c.cd_den     = i128(c.fp.den) / gcd128(c.fp.den, c.tp.den) * c.tp.den;
    c.fF         = (c.fp.num / c.cd_num) * (c.cd_den / c.fp.den);
    c.fT         = (c.tp.num / c.cd_num) * (c.cd_den / c.tp.den);
    return c;
}

/// Exact result of an integer pair operation.  Returns false when the case is outside the
/// statement: the exact result, or an intermediate value that the standard's definition (for
/// floor/ceil/round: the canonical cast-compare-adjust formulation) computes, is not
/// representable in the type it is computed in.
inline bool exact_pair(int op, PairCtx const& c, i128 a, i128 b, i128& out)
{
    auto to_cd = [&](i128 x, i128 f, i128& r) { // conversion of a count to the common duration
        r = x * f;
        return fits(c.cr, r);
    };
    auto cast = [&](i128& t) { // duration_cast<To>: a * N / D in intmax_t, truncating
        if (!fits64(a * c.N)) { return false; }
        t = (a * c.N) / c.D;
        return fits(c.tr, t);
    };
    auto cmp_ok = [&](i128 t) { // t (To) compared with a (From) through the common type
        i128 x, y;
        return to_cd(t, c.fT, x) && to_cd(a, c.fF, y);
    };
    i128 A = 0, B = 0;
    switch (op) {
    case P_CAST:
    case P_TP_CAST: return cast(out);
    case P_FLOOR:
    case P_TP_FLOOR: {
        i128 t;
        if (!cast(t) || !cmp_ok(t)) { return false; }
        out = floor_div(a * c.N, c.D);
        return fits(c.tr, out);
    }
    case P_CEIL:
    case P_TP_CEIL: {
        i128 t;
        if (!cast(t) || !cmp_ok(t)) { return false; }
        out = ceil_div(a * c.N, c.D);
        return fits(c.tr, out);
    }
    case P_ROUND:
    case P_TP_ROUND: {
        i128 t;
        if (!cast(t) || !cmp_ok(t)) { return false; }
        i128 const lo = floor_div(a * c.N, c.D);
        i128 const hi = lo + 1;
        if (!fits(c.tr, lo) || !fits(c.tr, hi)) { return false; }
        i128 L, H, X;
        if (!to_cd(lo, c.fT, L) || !to_cd(hi, c.fT, H) || !to_cd(a, c.fF, X)) { return false; }
        if (!fits(c.cr, X - L) || !fits(c.cr, H - X)) { return false; }
        out = round_even_div(a * c.N, c.D);
        return true;
    }
    case P_TO_COMMON: return to_cd(a, c.fF, out);
    case P_IMPLICIT:
        if (c.D != 1) { return false; }
        out = a * c.N;
        return fits64(out) && fits(c.tr, out);
    default: break;
    }
    if (!to_cd(a, c.fF, A) || !to_cd(b, c.fT, B)) { return false; }
    switch (op) {
    case P_ADD:
    case P_TP_PLUS_D:
    case P_D_PLUS_TP: out = A + B; return fits(c.cr, out);
    case P_SUB:
    case P_TP_MINUS_D:
    case P_TP_MINUS_TP: out = A - B; return fits(c.cr, out);
    case P_DIV:
        if (B == 0) { return false; }
        out = A / B;
        return fits(c.cr, out);
    case P_MOD:
        if (B == 0 || !fits(c.cr, A / B)) { return false; }
        out = A % B;
        return true;
    case P_EQ:
    case P_TP_EQ: out = (A == B); return true;
    case P_NE:
    case P_TP_NE: out = (A != B); return true;
    case P_LT:
    case P_TP_LT: out = (A < B); return true;
    case P_LE:
    case P_TP_LE: out = (A <= B); return true;
    case P_GT:
    case P_TP_GT: out = (A > B); return true;
    case P_GE:
    case P_TP_GE: out = (A >= B); return true;
    default: break;
    }
    return false;
}

/// Exact result of an integer self operation: out[0], out[1].
inline bool exact_self(int op, Rep r, i128 a, i128 b, i128 out[2])
{
    out[0] = out[1] = 0;
    switch (op) {
    case S_POS: out[0] = a; return true;
    case S_NEG: out[0] = -a; return fits(r, out[0]);
    case S_ABS: out[0] = iabs(a); return fits(r, out[0]);
    case S_PREINC:
    case S_TP_PREINC: out[0] = out[1] = a + 1; return fits(r, a + 1);
    case S_POSTINC:
    case S_TP_POSTINC: out[0] = a, out[1] = a + 1; return fits(r, a + 1);
    case S_PREDEC:
    case S_TP_PREDEC: out[0] = out[1] = a - 1; return fits(r, a - 1);
    case S_POSTDEC:
    case S_TP_POSTDEC: out[0] = a, out[1] = a - 1; return fits(r, a - 1);
    case S_TP_EPOCH: out[0] = a; return true;
    case S_ZERO: return true;
    case S_MIN:
    case S_TP_MIN: out[0] = rep_min(r); return true;
    case S_MAX:
    case S_TP_MAX: out[0] = rep_max(r); return true;
    case S_ADD_ASSIGN:
    case S_TP_ADD_ASSIGN: out[0] = a + b; return fits(r, out[0]);
    case S_SUB_ASSIGN:
    case S_TP_SUB_ASSIGN: out[0] = a - b; return fits(r, out[0]);
    case S_MUL_ASSIGN:
    case S_MUL:
    case S_MUL_REV: out[0] = a * b; return fits(r, out[0]);
    case S_DIV_ASSIGN:
    case S_DIV_S:
        if (b == 0) { return false; }
        out[0] = a / b;
        return fits(r, out[0]);
    case S_MOD_ASSIGN_S:
    case S_MOD_ASSIGN_D:
    case S_MOD_S:
        if (b == 0 || !fits(r, a / b)) { return false; }
        out[0] = a % b;
        return true;
    default: break;
    }
    return false;
}

// ---------------------------------------------------------------------------------------
// value sets (deterministic, duplicate-free, simplest first)
// ---------------------------------------------------------------------------------------

inline void finish_set(std::vector<i128>& v, Rep r)
{
    std::vector<i128> o;
    for (i128 x : v) {
        if (fits(r, x)) { o.push_back(x); }
    }
    std::sort(o.begin(), o.end(), [](i128 x, i128 y) {
        i128 const ax = iabs(x), ay = iabs(y);
        if (ax != ay) { return ax < ay; }
        return x > y;
    });
    o.erase(std::unique(o.begin(), o.end()), o.end());
    v.swap(o);
}

inline void add_boundaries(std::vector<i128>& v, bool full = true)
{
    i128 const p31 = i128(1) << 31, p62 = i128(1) << 62, p63 = i128(1) << 63, p30 = i128(1) << 30;
    if (!full) { // the values the property names: +-(2^31-1), +-2^31, +-2^62, and the extremes of int64
        for (i128 x : {p31 - 1, p31, p62, p63 - 1}) {
            v.push_back(x);
            v.push_back(-x);
        }
        v.push_back(-p63);
        return;
    }
    for (i128 base : {p30, p31, p62, p63}) {
        for (int d = -2; d <= 2; ++d) {
            v.push_back(base + d);
            v.push_back(-base + d);
        }
    }
}

/// first operands: every count in [-range, range], the boundary values, and for this pair the
/// exact ties / nearest-to-half residues of the From -> To conversion and their neighbours
inline std::vector<i128> first_operands(PairCtx const& c, int range)
{
    std::vector<i128> v;
    for (int x = -range; x <= range; ++x) { v.push_back(x); }
    add_boundaries(v);
    if (c.D > 1) {
        i128 const ninv = inv_mod(c.N, c.D);
        std::vector<i128> residues;
        if (c.D % 2 == 0) {
            residues.push_back(c.D / 2);
        } else {
            residues.push_back((c.D - 1) / 2);
            residues.push_back((c.D + 1) / 2);
        }
        for (i128 res : residues) {
            i128 const c0 = (res * ninv) % c.D; // c0 * N == res (mod D)
            for (int k = -3; k <= 2; ++k) {
                for (int d = -1; d <= 1; ++d) { v.push_back(c0 + k * c.D + d); }
            }
        }
    }
    finish_set(v, c.fr);
    return v;
}

/// second operands: a small dense range, unit-conversion constants and the boundaries
/// (quick tier: range <= 4, fewer constants, the reduced boundary list)
inline std::vector<i128> second_operands(Rep r, int range)
{
    bool const full = range > 4;
    std::vector<i128> v;
    for (int x = -range; x <= range; ++x) { v.push_back(x); }
    if (full) {
        for (i128 x : {59, 60, 61, 999, 1000, 1001, 2000, 86400, 30000, 1000000000}) {
            v.push_back(x);
            v.push_back(-x);
        }
    } else {
        for (i128 x : {60, 1000, 1001}) {
            v.push_back(x);
            v.push_back(-x);
        }
    }
    add_boundaries(v, full);
    finish_set(v, r);
    return v;
}

inline std::vector<double> fp_first_operands(int range)
{
    std::vector<double> v;
    for (int k = 0; k <= 4 * range; ++k) {
        v.push_back(k / 4.0);
        if (k != 0) { v.push_back(-k / 4.0); }
    }
    double const sp[] = {0.1, 1e-9, 1.0 / 3.0, 1e9 + 0.5, 2147483647.0, 2147483648.0, 9007199254740991.0, 9007199254740992.0,
        4611686018427387904.0, 1e18, 123456.789};
    v.push_back(-0.0);
    for (double x : sp) {
        v.push_back(x);
        v.push_back(-x);
    }
    return v;
}
inline std::vector<double> fp_second_operands()
{
    std::vector<double> v;
    for (int k = 0; k <= 12; ++k) {
        v.push_back(k / 4.0);
        if (k != 0) { v.push_back(-k / 4.0); }
    }
    double const sp[] = {7.5, 60, 1000, 0.1, 1e9, 1.0 / 3.0, 86400, 4611686018427387904.0};
    for (double x : sp) {
        v.push_back(x);
        v.push_back(-x);
    }
    return v;
}

// ---------------------------------------------------------------------------------------
// classification (from the case, never from the observed result)
// ---------------------------------------------------------------------------------------

inline char const* dir_name(PairCtx const& c)
{
    if (c.N == 1 && c.D == 1) { return "same"; }
    if (c.D == 1) { return "finer"; }
    if (c.N == 1) { return "coarser"; }
    return "mixed";
}
inline char sign_char(i128 v) { return v < 0 ? '-' : v > 0 ? '+' : '0'; }
inline char sign_char(double v) { return v < 0 ? '-' : v > 0 ? '+' : '0'; }
inline std::string rep_class(Rep fr, Rep tr)
{
    if (!is_fp(fr) && !is_fp(tr)) { return "int"; }
    if (is_fp(fr) && is_fp(tr)) { return "fp"; }
    return is_fp(tr) ? "int_to_fp" : "fp_to_int";
}

inline std::string pair_class(int op, PairCtx const& c, V a, V b)
{
    std::string s = rep_class(c.fr, c.tr);
    s += "/";
    if (op < P_FIRST_BINARY) {
        s += dir_name(c);
        if (op == P_TO_COMMON || op == P_IMPLICIT) { return s; }
        s += "/";
        if (is_fp(c.fr)) {
            s += sign_char(a.f);
            return s;
        }
        i128 const n = i128(a.i) * c.N;
        if (n == 0) { return s + "zero"; }
        s += n < 0 ? "neg_" : "pos_";
        i128 const rem = iabs(n) % c.D;
        if (rem == 0) { return s + "exact"; }
        if (2 * rem == c.D) { return s + "tie"; }
        return s + (2 * rem < c.D ? "below_half" : "above_half");
    }
    s += (c.N == 1 && c.D == 1) ? "same_period" : "diff_period";
    if (op == P_DIV || op == P_MOD) { // the only binary operations whose rounding depends on the signs
        s += "/";
        s += is_fp(c.fr) ? sign_char(a.f) : sign_char(i128(a.i));
        s += is_fp(c.tr) ? sign_char(b.f) : sign_char(i128(b.i));
    }
    return s;
}

inline std::string self_class(int op, Rep r, V a, V b)
{
    std::string s = is_fp(r) ? "fp/" : "int/";
    if (op == S_ZERO || op == S_MIN || op == S_MAX || op == S_TP_MIN || op == S_TP_MAX) { return s + "constant"; }
    s += is_fp(r) ? sign_char(a.f) : sign_char(i128(a.i));
    if (op >= S_FIRST_BINARY) { s += is_fp(r) ? sign_char(b.f) : sign_char(i128(b.i)); }
    return s;
}

inline std::string dur_name(Rep r, PeriodInfo const& p) { return mc::cat("duration<", rep_name(r), ",", p.name, ">"); }

inline std::string pair_case(int op, PairCtx const& c, V a, V b)
{
    std::string s = mc::cat("From=", dur_name(c.fr, c.fp), "(", show_v(a, c.fr), ") To=", dur_name(c.tr, c.tp));
    if (op >= P_FIRST_BINARY) { s += mc::cat("(", show_v(b, c.tr), ")"); }
    return s;
}

// ---------------------------------------------------------------------------------------
// drivers
// ---------------------------------------------------------------------------------------

struct Tally {
    std::uint64_t evaluations{0}, nontrivial{0}, skipped{0}, ties{0};
};

/// Records a violation; the case and detail strings are only built for the first witness of a
/// (property, subject, class) - unrepaired trees produce millions of repeats.
template <typename CaseF, typename DetailF>
void report(mc::Reporter& r, char const* prop, std::string const& subject, std::string const& cls, CaseF&& mk_case, DetailF&& mk_detail)
{
    if (r.viols.find(std::make_tuple(std::string(prop), subject, cls)) != r.viols.end()) {
        r.violation(prop, subject, cls, std::string(), std::string());
    } else {
        r.violation(prop, subject, cls, mk_case(), mk_detail());
    }
}

/// guard + sanitizer bookkeeping around one call pair (std first, then tetl inside a guard);
/// returns false when the tetl call trapped (already reported)
template <typename ClassF, typename CaseF>
bool run_both(mc::Reporter& r, OpFn etl, OpFn stdf, int op, V a, V b, char const* subject, ClassF&& mk_class, CaseF&& mk_case,
    Out& e, Out& s)
{
    s                 = stdf(op, a, b);
    auto const before = mc::san_hits();
    mc::Trap const t  = mc::guarded([&] { e = etl(op, a, b); });
    if (t != mc::Trap::none) {
        r.violation(t == mc::Trap::assert_fired || t == mc::Trap::exception_raised ? "C05" : "C02", subject,
            t == mc::Trap::assert_fired || t == mc::Trap::exception_raised ? "handler-on-valid-call" : mk_class(), mk_case(),
            mc::describe_trap(t));
        return false;
    }
    if (mc::san_hits() != before) {
        report(r, "C02", subject, mk_class(), mk_case,
            [] { return std::string("sanitizer report during a call whose exact result is representable"); });
    }
    return true;
}

inline void check_facts(mc::Reporter& r, PairEntry const& e, PairCtx const& c)
{
    std::string const kase = mc::cat("From=", dur_name(c.fr, c.fp), " To=", dur_name(c.tr, c.tp));
    r.count("evaluations", 3);
    if (e.sf.cd_num != i64(c.cd_num) || e.sf.cd_den != i64(c.cd_den) || e.sf.cd_rep != c.cr) {
        r.violation("C12", "harness:oracle-disagreement", "common_type", kase,
            mc::cat("std period ", e.sf.cd_num, "/", e.sf.cd_den, " model ", dec(c.cd_num), "/", dec(c.cd_den)));
        return;
    }
    if (e.ef.cd_num != e.sf.cd_num || e.ef.cd_den != e.sf.cd_den) {
        r.violation("C12", "common_type<duration,duration>", "period", kase,
            mc::cat("etl ratio<", e.ef.cd_num, ",", e.ef.cd_den, "> std ratio<", e.sf.cd_num, ",", e.sf.cd_den, ">"));
    }
    if (e.ef.cd_rep != e.sf.cd_rep) {
        r.violation("C12", "common_type<duration,duration>", "rep", kase,
            mc::cat("etl ", rep_name(e.ef.cd_rep), " std ", rep_name(e.sf.cd_rep)));
    }
    if (e.ef.implicit_ok != e.sf.implicit_ok || e.ef.constructible != e.sf.constructible) {
        r.violation("C12", "duration::duration(duration<Rep2,Period2>)", mc::cat("constraint/", rep_class(c.fr, c.tr), "/", dir_name(c)),
            kase,
            mc::cat("implicitly convertible: etl ", e.ef.implicit_ok, " std ", e.sf.implicit_ok, "; constructible: etl ",
                e.ef.constructible, " std ", e.sf.constructible));
    }
    if (!e.ef.has_tp_cast) { r.count("api_gap_time_point_cast_uncompilable"); }
}

/// all operations of one (rep configuration, From, To) over the operand sets
inline void run_pair(mc::Reporter& r, PairEntry const& e, int range_a, int range_b)
{
    PairCtx const c    = make_ctx(e);
    bool const any_fp  = is_fp(e.fr) || is_fp(e.tr);
    bool const same_pd = (c.N == 1 && c.D == 1);
    if (!e.formable) {
        r.count("evaluations");
        r.count("pairs_uncompilable");
        r.violation("C12", "common_type<duration,duration>", "lcm_overflow",
            mc::cat("From=", dur_name(c.fr, c.fp), " To=", dur_name(c.tr, c.tp)),
            mc::cat("common period ratio<", dec(c.cd_num), ",", dec(c.cd_den),
                "> is representable (std::chrono computes it), but etl::common_type evaluates etl::lcm(den,den) = (m*n)/gcd, "
                "which overflows intmax_t in a constant expression: every mixed operation of this pair fails to compile"));
        return;
    }
    check_facts(r, e, c);

    // operand lists as V
    std::vector<V> as, bs;
    if (is_fp(e.fr)) {
        for (double x : fp_first_operands(range_a)) { as.push_back(V{0, x}); }
    } else {
        for (i128 x : first_operands(c, range_a)) { as.push_back(V{i64(x), 0}); }
    }
    if (is_fp(e.tr)) {
        for (double x : fp_second_operands()) { bs.push_back(V{0, x}); }
    } else {
        for (i128 x : second_operands(e.tr, range_b)) { bs.push_back(V{i64(x), 0}); }
    }

    // fp validity: only "the converted value is far inside the integer range" where a
    // floating value is converted to an integer count
    long double const cf = (long double)(c.N) / (long double)(c.D);
    auto fp_valid        = [&](int op, V a, V b) {
        long double const av = is_fp(e.fr) ? (long double)a.f : (long double)a.i;
        long double const bv = is_fp(e.tr) ? (long double)b.f : (long double)b.i;
        long double const lim = 4.0e18L; // < 2^62
        if (op < P_FIRST_BINARY) {
            if (op == P_IMPLICIT) { return e.sf.implicit_ok; }
            if (op == P_TO_COMMON) { return true; } // common rep is double
            if (!is_fp(e.tr)) {
                long double const x = av * cf;
                return x > -lim && x < lim && (is_fp(e.fr) || fits64(i128(a.i) * c.N));
            }
            return true;
        }
        if (op == P_MOD) { return false; }
        if (op == P_DIV) { return bv != 0; }
        return true;
    };

    Tally t;
    std::uint64_t gaps[P_COUNT] = {};
    Out eo, so;
    auto one = [&](int op, V a, V b) {
        bool valid;
        i128 exact = 0;
        if (any_fp) {
            valid = fp_valid(op, a, b);
        } else {
            valid = exact_pair(op, c, a.i, b.i, exact);
        }
        if (!valid) {
            ++t.skipped;
            return;
        }
        char const* subject = pair_subject(op);
        auto mk_class       = [&] { return pair_class(op, c, a, b); };
        auto mk_case        = [&] { return pair_case(op, c, a, b); };
        if (!run_both(r, e.etl, e.stdf, op, a, b, subject, mk_class, mk_case, eo, so)) { return; }
        if (!so.ok) { // not defined for this rep combination in the reference either
            ++t.skipped;
            return;
        }
        if (!eo.ok) {
            ++gaps[op];
            return;
        }
        ++t.evaluations;
        if (op < P_FIRST_BINARY) {
            if (any_fp) {
                if (!same_pd && (is_fp(e.fr) ? a.f != 0 : a.i != 0)) { ++t.nontrivial; }
            } else if ((i128(a.i) * c.N) % c.D != 0) {
                ++t.nontrivial;
                if (op == P_ROUND && 2 * (iabs(i128(a.i) * c.N) % c.D) == c.D) { ++t.ties; }
            }
        } else if (!same_pd && (is_fp(e.fr) ? a.f != 0 : a.i != 0) && (is_fp(e.tr) ? b.f != 0 : b.i != 0)) {
            ++t.nontrivial;
        }
        if (op < P_FIRST_BINARY) {
            r.outcome(mc::hash_mix(std::uint64_t(op), hash_out(eo)));
        } else { // bounded: results outside [-4096,4096] share one bucket per sign
            i64 const v = any_fp ? i64(eo.f[0] > 4096 ? 4097 : eo.f[0] < -4096 ? -4097 : eo.f[0] * 4) + eo.i[0]
                                 : (eo.i[0] > 4096 ? 4097 : eo.i[0] < -4096 ? -4097 : eo.i[0]);
            r.outcome(mc::hash_mix(std::uint64_t(op), std::uint64_t(v)));
        }
        if (!any_fp && (so.i[0] != exact || so.i[1] != 0)) {
            r.violation("C12", "harness:oracle-disagreement", subject, mk_case(),
                mc::cat("std ", show_out(so), " exact model ", dec(exact), " etl ", show_out(eo)));
            return;
        }
        if (!same(eo, so)) {
            report(r, "C12", subject, mk_class(), mk_case, [&] {
                return mc::cat("etl ", show_out(eo), " std ", show_out(so), any_fp ? std::string() : " exact " + dec(exact));
            });
        }
    };

    for (V a : as) {
        if (r.deadline_passed()) {
            r.not_exhaustive("deadline");
            break;
        }
        for (int op = 0; op < P_FIRST_BINARY; ++op) { one(op, a, V{}); }
        for (V b : bs) {
            for (int op = P_FIRST_BINARY; op < P_COUNT; ++op) { one(op, a, b); }
        }
    }
    if (r.wants_sample()) {
        V const a = as.size() > 7 ? as[7] : as[0];
        Out const x = e.etl(P_ROUND, a, V{});
        Out const y = e.etl(P_FLOOR, a, V{});
        r.sample(mc::cat("round/floor ", pair_case(P_ROUND, c, a, V{}), " -> ", show_out(x), " / ", show_out(y)));
    }
    r.count("evaluations", t.evaluations);
    r.count("distinct_nontrivial", t.nontrivial);
    r.count("skipped_not_representable", t.skipped);
    r.count("pairs");
    r.count("round_exact_ties", t.ties);
    for (int op = 0; op < P_COUNT; ++op) {
        if (gaps[op] != 0) { r.count(mc::cat("api_gap:", pair_subject(op)).c_str(), gaps[op]); }
    }
}

inline void run_self(mc::Reporter& r, SelfEntry const& e, int range_a, int range_b)
{
    PeriodInfo const p = period_info(e.pi);
    std::vector<V> as, bs;
    if (is_fp(e.r)) {
        for (double x : fp_first_operands(range_a)) { as.push_back(V{0, x}); }
        for (double x : fp_second_operands()) { bs.push_back(V{0, x}); }
    } else {
        std::vector<i128> v;
        for (int x = -range_a; x <= range_a; ++x) { v.push_back(x); }
        add_boundaries(v);
        finish_set(v, e.r);
        for (i128 x : v) { as.push_back(V{i64(x), 0}); }
        for (i128 x : second_operands(e.r, range_b)) { bs.push_back(V{i64(x), 0}); }
    }
    auto fp_valid = [&](int op, V, V b) {
        if (op == S_MOD_ASSIGN_S || op == S_MOD_ASSIGN_D || op == S_MOD_S) { return false; }
        if (op == S_DIV_ASSIGN || op == S_DIV_S) { return b.f != 0; }
        return true;
    };
    Tally t;
    std::uint64_t gaps[S_COUNT] = {};
    Out eo, so;
    auto one = [&](int op, V a, V b) {
        bool valid;
        i128 exact[2] = {0, 0};
        if (is_fp(e.r)) {
            valid = fp_valid(op, a, b);
        } else {
            valid = exact_self(op, e.r, a.i, b.i, exact);
        }
        if (!valid) {
            ++t.skipped;
            return;
        }
        char const* subject = self_subject(op);
        auto mk_class       = [&] { return self_class(op, e.r, a, b); };
        auto mk_case        = [&] {
            std::string s = mc::cat(dur_name(e.r, p), "(", show_v(a, e.r), ")");
            if (op >= S_FIRST_BINARY) { s += mc::cat(" operand ", show_v(b, e.r)); }
            return s;
        };
        if (!run_both(r, e.etl, e.stdf, op, a, b, subject, mk_class, mk_case, eo, so)) { return; }
        if (!so.ok) {
            ++t.skipped;
            return;
        }
        if (!eo.ok) {
            ++gaps[op];
            return;
        }
        ++t.evaluations;
        if ((is_fp(e.r) ? a.f != 0 : a.i != 0) && (op < S_FIRST_BINARY || (is_fp(e.r) ? b.f != 0 : b.i != 0))) { ++t.nontrivial; }
        r.outcome(mc::hash_mix(std::uint64_t(100 + op), hash_out(eo)));
        if (!is_fp(e.r) && (so.i[0] != exact[0] || so.i[1] != exact[1])) {
            r.violation("C12", "harness:oracle-disagreement", subject, mk_case(),
                mc::cat("std ", show_out(so), " exact model {", dec(exact[0]), ",", dec(exact[1]), "} etl ", show_out(eo)));
            return;
        }
        if (!same(eo, so)) {
            report(r, "C12", subject, mk_class(), mk_case, [&] { return mc::cat("etl ", show_out(eo), " std ", show_out(so)); });
        }
    };
    for (int op = S_ZERO; op < S_FIRST_BINARY; ++op) { one(op, V{}, V{}); }
    for (V a : as) {
        if (r.deadline_passed()) {
            r.not_exhaustive("deadline");
            break;
        }
        for (int op = 0; op < S_ZERO; ++op) { one(op, a, V{}); }
        for (V b : bs) {
            for (int op = S_FIRST_BINARY; op < S_COUNT; ++op) { one(op, a, b); }
        }
    }
    r.count("evaluations", t.evaluations);
    r.count("distinct_nontrivial", t.nontrivial);
    r.count("skipped_not_representable", t.skipped);
    for (int op = 0; op < S_COUNT; ++op) {
        if (gaps[op] != 0) { r.count(mc::cat("api_gap:", self_subject(op)).c_str(), gaps[op]); }
    }
}

} // namespace c12
