// C15, numeric_limits, ratio and the small fixed-vocabulary facilities (engine E4).
//
// MC_PART 1: every numeric_limits member x every arithmetic type and its cv variants (floating
//            members by bit pattern, return types by is_same) + the primary template.
// MC_PART 2: ratio<N,D> normalisation over a grid of (N,D); SI prefixes; ratio_add / subtract /
//            multiply / divide / equal / not_equal / less / less_equal / greater / greater_equal
//            over all ordered pairs of a ratio grid, restricted to pairs whose naive
//            cross-multiplication fits intmax_t (both libraries are then well-formed; the
//            near-overflow pairs that only std must accept are probes in c15_probe.cpp).
// MC_PART 3: <cstdint>/<cstddef> typedefs, byte, integral_constant family, conditional,
//            enable_if, conjunction/disjunction/negation, aligned_storage/aligned_union, meta.
#include "c15_common.hpp"

#ifndef MC_PART
    #define MC_PART 1
#endif

namespace c15 {

#if MC_PART == 1
// ------------------------------------------------------------------------------- limits
struct Bytes16 {
    unsigned char b[16];
};
template <typename V>
constexpr long long enc_lo(V v)
{
    if constexpr (std::is_same_v<V, float>) {
        return static_cast<long long>(std::bit_cast<std::uint32_t>(v));
    } else if constexpr (std::is_same_v<V, double>) {
        return static_cast<long long>(std::bit_cast<std::uint64_t>(v));
    } else if constexpr (std::is_same_v<V, long double>) {
        auto const raw       = std::bit_cast<Bytes16>(v);
        unsigned long long r = 0;
        for (int i = 7; i >= 0; --i) { r = (r << 8) | raw.b[i]; }
        return static_cast<long long>(r);
    } else {
        return static_cast<long long>(v); // integral: value-preserving or modulo 2^64 (a bijection on 64-bit types)
    }
}
template <typename V>
constexpr unsigned long long enc_hi(V v)
{
    if constexpr (std::is_same_v<V, long double>) {
        auto const raw = std::bit_cast<Bytes16>(v);
        return static_cast<unsigned long long>(raw.b[8]) | (static_cast<unsigned long long>(raw.b[9]) << 8);
    } else {
        return 0;
    }
}

template <typename T>
inline constexpr bool arith = std::is_arithmetic_v<T>;

#define C15_LIM_DATA(MEMBER) C15_LIM_DATA_OK(MEMBER, true)
#define C15_LIM_DATA_OK(MEMBER, OK)                                                                                    \
    struct lim_##MEMBER {                                                                                              \
        static constexpr char const* name = "numeric_limits";                                                          \
        static constexpr char const* form = "@<T>::" #MEMBER;                                                          \
        template <typename T>                                                                                          \
        static constexpr bool ok = (OK);                                                                               \
        template <typename T>                                                                                          \
        static constexpr bool gap = false;                                                                             \
        template <typename T>                                                                                          \
        static constexpr char const* cls()                                                                             \
        {                                                                                                              \
            return tname<T>::value;                                                                                    \
        }                                                                                                              \
        template <typename T>                                                                                          \
        static constexpr long long e()                                                                                 \
        {                                                                                                              \
            return static_cast<long long>(etl::numeric_limits<T>::MEMBER);                                             \
        }                                                                                                              \
        template <typename T>                                                                                          \
        static constexpr long long s()                                                                                 \
        {                                                                                                              \
            return static_cast<long long>(std::numeric_limits<T>::MEMBER);                                             \
        }                                                                                                              \
        template <typename T>                                                                                          \
        static constexpr ShowFn show = nullptr;                                                                        \
        template <typename T>                                                                                          \
        static constexpr bool nontrivial(long long sv)                                                                 \
        {                                                                                                              \
            return sv != 0;                                                                                            \
        }                                                                                                              \
    };

// member functions: value (bit pattern) in one column, return type in another
#define C15_LIM_FN(MEMBER)                                                                                             \
    struct lim_##MEMBER {                                                                                              \
        static constexpr char const* name = "numeric_limits";                                                          \
        static constexpr char const* form = "@<T>::" #MEMBER "()";                                                     \
        template <typename T>                                                                                          \
        static constexpr bool ok = arith<T>;                                                                           \
        template <typename T>                                                                                          \
        static constexpr bool gap = false;                                                                             \
        template <typename T>                                                                                          \
        static constexpr char const* cls()                                                                             \
        {                                                                                                              \
            return tname<T>::value;                                                                                    \
        }                                                                                                              \
        template <typename T>                                                                                          \
        static constexpr long long e()                                                                                 \
        {                                                                                                              \
            return enc_lo<std::remove_cv_t<T>>(etl::numeric_limits<T>::MEMBER());                                      \
        }                                                                                                              \
        template <typename T>                                                                                          \
        static constexpr long long s()                                                                                 \
        {                                                                                                              \
            return enc_lo<std::remove_cv_t<T>>(std::numeric_limits<T>::MEMBER());                                      \
        }                                                                                                              \
        template <typename T>                                                                                          \
        static constexpr unsigned long long e2()                                                                       \
        {                                                                                                              \
            return enc_hi<std::remove_cv_t<T>>(etl::numeric_limits<T>::MEMBER());                                      \
        }                                                                                                              \
        template <typename T>                                                                                          \
        static constexpr unsigned long long s2()                                                                       \
        {                                                                                                              \
            return enc_hi<std::remove_cv_t<T>>(std::numeric_limits<T>::MEMBER());                                      \
        }                                                                                                              \
        template <typename T>                                                                                          \
        static constexpr ShowFn show = nullptr;                                                                        \
        template <typename T>                                                                                          \
        static constexpr bool nontrivial(long long sv)                                                                 \
        {                                                                                                              \
            return sv != 0;                                                                                            \
        }                                                                                                              \
    };                                                                                                                 \
    struct lim_##MEMBER##_type {                                                                                       \
        static constexpr char const* name = "numeric_limits";                                                          \
        static constexpr char const* form = "decltype(@<T>::" #MEMBER "())";                                           \
        static constexpr bool constant_expected = true;                                                                \
        template <typename T>                                                                                          \
        static constexpr bool ok = arith<T>;                                                                           \
        template <typename T>                                                                                          \
        static constexpr bool gap = false;                                                                             \
        template <typename T>                                                                                          \
        static constexpr char const* cls()                                                                             \
        {                                                                                                              \
            return tname<T>::value;                                                                                    \
        }                                                                                                              \
        template <typename T>                                                                                          \
        static constexpr long long e()                                                                                 \
        {                                                                                                              \
            return std::is_same_v<decltype(etl::numeric_limits<T>::MEMBER()), decltype(std::numeric_limits<T>::MEMBER())> \
                    && noexcept(etl::numeric_limits<T>::MEMBER());                                                     \
        }                                                                                                              \
        template <typename T>                                                                                          \
        static constexpr long long s()                                                                                 \
        {                                                                                                              \
            return 1;                                                                                                  \
        }                                                                                                              \
        template <typename T>                                                                                          \
        static constexpr ShowFn show                                                                                   \
            = &show_two<decltype(etl::numeric_limits<T>::MEMBER()), decltype(std::numeric_limits<T>::MEMBER())>;       \
        template <typename T>                                                                                          \
        static constexpr bool nontrivial(long long)                                                                    \
        {                                                                                                              \
            return !std::is_same_v<T, int>;                                                                            \
        }                                                                                                              \
    };

C15_LIM_DATA(is_specialized)
C15_LIM_DATA(is_signed)
C15_LIM_DATA(is_integer)
C15_LIM_DATA(is_exact)
C15_LIM_DATA(has_infinity)
C15_LIM_DATA(has_quiet_NaN)
C15_LIM_DATA(has_signaling_NaN)
C15_LIM_DATA(has_denorm)
C15_LIM_DATA(has_denorm_loss)
C15_LIM_DATA(round_style)
C15_LIM_DATA(is_iec559)
C15_LIM_DATA(is_bounded)
C15_LIM_DATA(is_modulo)
C15_LIM_DATA(digits)
C15_LIM_DATA(digits10)
C15_LIM_DATA(max_digits10)
C15_LIM_DATA(radix)
C15_LIM_DATA(min_exponent)
C15_LIM_DATA(min_exponent10)
C15_LIM_DATA(max_exponent)
C15_LIM_DATA(max_exponent10)
C15_LIM_DATA_OK(traps, (!std::is_same_v<std::remove_cv_t<T>, bool>)) // LWG: what trapping means for bool is unsettled; libstdc++ uses integer promotion semantics
C15_LIM_DATA(tinyness_before)
C15_LIM_FN(min)
C15_LIM_FN(max)
C15_LIM_FN(lowest)
C15_LIM_FN(epsilon)
C15_LIM_FN(round_error)
C15_LIM_FN(infinity)
C15_LIM_FN(quiet_NaN)
C15_LIM_FN(signaling_NaN)
C15_LIM_FN(denorm_min)

// every arithmetic type in the zoo (cv variants included) + a few non-arithmetic types for the primary template
template <typename L>
struct only_arith;
template <>
struct only_arith<tl<>> {
    using type = tl<>;
};
template <typename H, typename... T>
struct only_arith<tl<H, T...>> {
    using rest = typename only_arith<tl<T...>>::type;
    using type = std::conditional_t<std::is_arithmetic_v<H>, tl_cat_t<tl<tl<H>>, rest>, rest>;
};
using lim_cases = tl_cat_t<typename only_arith<zoo_t>::type, tl<tl<int*>, tl<zoo::Scoped>, tl<zoo::Empty>, tl<zoo::Agg>, tl<std::nullptr_t>,
                                tl<zoo::UnscopedBool>, tl<zoo::UnionTriv>, tl<zoo::Scoped const>, tl<int zoo::Agg::*>>>;
// (__int128 is not in the list: libstdc++ 12 specialises numeric_limits for it only outside strict -std=c++2b mode,
//  the oracle's answer depends on the dialect flag and not on the standard)
#endif

#if MC_PART == 2
// ------------------------------------------------------------------------------- ratio
using imax = std::intmax_t;
inline constexpr imax IMAX = INTMAX_MAX;

template <imax N, imax D>
struct rat { };

template <std::size_t Cap>
struct fixed_str {
    char s[Cap]{};
};
constexpr std::size_t put_num(char* out, std::size_t pos, imax v)
{
    if (v == IMAX) {
        for (char const* p = "INTMAX_MAX"; *p != 0; ++p) { out[pos++] = *p; }
        return pos;
    }
    if (v == -IMAX) {
        for (char const* p = "-INTMAX_MAX"; *p != 0; ++p) { out[pos++] = *p; }
        return pos;
    }
    if (v < 0) {
        out[pos++] = '-';
        v          = -v;
    }
    char tmp[24]{};
    int n = 0;
    do {
        tmp[n++] = static_cast<char>('0' + v % 10);
        v /= 10;
    } while (v != 0);
    while (n > 0) { out[pos++] = tmp[--n]; }
    return pos;
}
template <imax N, imax D>
constexpr auto rat_name()
{
    fixed_str<64> r{};
    std::size_t pos = 0;
    for (char const* p = "ratio<"; *p != 0; ++p) { r.s[pos++] = *p; }
    pos          = put_num(r.s, pos, N);
    r.s[pos++]   = ',';
    pos          = put_num(r.s, pos, D);
    r.s[pos++]   = '>';
    r.s[pos]     = 0;
    return r;
}
template <imax N, imax D>
inline constexpr auto rat_name_v = rat_name<N, D>();
} // namespace c15
template <c15::imax N, c15::imax D>
struct c15::tname<c15::rat<N, D>> {
    static constexpr char const* value = c15::rat_name_v<N, D>.s;
};
namespace c15 {

constexpr imax cabs(imax v) { return v < 0 ? -v : v; }
constexpr bool fits(__int128 v) { return v >= -static_cast<__int128>(IMAX) && v <= static_cast<__int128>(IMAX); }

/// class of one ratio argument (root causes live in sign handling, reduction and magnitude)
template <typename R>
struct rat_cls;
template <imax N, imax D>
struct rat_cls<rat<N, D>> {
    static constexpr char const* value()
    {
        bool const huge = cabs(N) > (imax(1) << 31) || cabs(D) > (imax(1) << 31);
        if (N == 0) { return D < 0 ? "zero_neg_den" : "zero"; }
        if (D < 0) { return huge ? "neg_den+huge" : "neg_den"; }
        if (std::gcd(cabs(N), cabs(D)) != 1) { return huge ? "non_reduced+huge" : (N < 0 ? "non_reduced+negative" : "non_reduced"); }
        if (huge) { return N < 0 ? "huge+negative" : "huge"; }
        return N < 0 ? "negative" : "reduced";
    }
};

template <typename R>
struct to_etl;
template <imax N, imax D>
struct to_etl<rat<N, D>> {
    using type = etl::ratio<N, D>;
};
template <typename R>
struct to_std;
template <imax N, imax D>
struct to_std<rat<N, D>> {
    using type = std::ratio<N, D>;
};
template <typename R>
using E = typename to_etl<R>::type;
template <typename R>
using S = typename to_std<R>::type;

template <typename R>
struct rn;
template <imax N, imax D>
struct rn<rat<N, D>> {
    static constexpr imax n = N, d = D;
};

// the naive (textbook) cross-multiplications all fit: then etl's and std's formulas are both well-formed
template <typename A, typename B>
constexpr bool naive_fits()
{
    // work on the normalised operands, as both libraries do
    constexpr imax g1 = std::gcd(cabs(rn<A>::n), cabs(rn<A>::d));
    constexpr imax g2 = std::gcd(cabs(rn<B>::n), cabs(rn<B>::d));
    __int128 const n1 = rn<A>::n / g1, d1 = rn<A>::d / g1, n2 = rn<B>::n / g2, d2 = rn<B>::d / g2;
    return fits(n1 * d2) && fits(n2 * d1) && fits(d1 * d2) && fits(n1 * n2) && fits(n1 * d2 + n2 * d1) && fits(n1 * d2 - n2 * d1);
}

struct ratio_norm {
    static constexpr char const* name = "ratio";
    static constexpr char const* form = "@<N,D>::num,den";
    template <typename R>
    static constexpr bool ok = true;
    template <typename R>
    static constexpr bool gap = false;
    template <typename R>
    static constexpr char const* cls()
    {
        return rat_cls<R>::value();
    }
    template <typename R>
    static constexpr long long e()
    {
        return E<R>::num;
    }
    template <typename R>
    static constexpr long long s()
    {
        return S<R>::num;
    }
    template <typename R>
    static constexpr unsigned long long e2()
    {
        return static_cast<unsigned long long>(E<R>::den);
    }
    template <typename R>
    static constexpr unsigned long long s2()
    {
        return static_cast<unsigned long long>(S<R>::den);
    }
    template <typename R>
    static constexpr ShowFn show = nullptr;
    template <typename R>
    static constexpr bool nontrivial(long long)
    {
        return rn<R>::d != 1 && rn<R>::n != 0;
    }
};
struct ratio_type {
    static constexpr char const* name = "ratio";
    static constexpr char const* form = "@<N,D>::type";
    static constexpr bool constant_expected = true;
    template <typename R>
    static constexpr bool ok = true;
    template <typename R>
    static constexpr bool gap = false;
    template <typename R>
    static constexpr char const* cls()
    {
        return rat_cls<R>::value();
    }
    // ::type must be the ratio of the reduced terms
    template <typename R>
    static constexpr long long e()
    {
        return std::is_same_v<typename E<R>::type, etl::ratio<S<R>::type::num, S<R>::type::den>>;
    }
    template <typename R>
    static constexpr long long s()
    {
        return std::is_same_v<typename S<R>::type, std::ratio<S<R>::type::num, S<R>::type::den>>;
    }
    template <typename R>
    static constexpr ShowFn show = nullptr;
    template <typename R>
    static constexpr bool nontrivial(long long)
    {
        return rn<R>::d != 1 && rn<R>::n != 0;
    }
};

#define C15_RATIO_ARITH(OP, EXTRA_OK)                                                                                  \
    struct OP##_R {                                                                                                    \
        static constexpr char const* name = #OP;                                                                       \
        static constexpr char const* form = "@<R1,R2>::num,den";                                                       \
        template <typename A, typename B>                                                                              \
        static constexpr bool ok = naive_fits<A, B>() && (EXTRA_OK);                                                   \
        template <typename A, typename B>                                                                              \
        static constexpr bool gap = false;                                                                             \
        template <typename R>                                                                                          \
        static constexpr char const* cls()                                                                             \
        {                                                                                                              \
            return rat_cls<R>::value();                                                                                \
        }                                                                                                              \
        template <typename A, typename B>                                                                              \
        static constexpr long long e()                                                                                 \
        {                                                                                                              \
            return etl::OP<E<A>, E<B>>::num;                                                                           \
        }                                                                                                              \
        template <typename A, typename B>                                                                              \
        static constexpr long long s()                                                                                 \
        {                                                                                                              \
            return std::OP<S<A>, S<B>>::num;                                                                           \
        }                                                                                                              \
        template <typename A, typename B>                                                                              \
        static constexpr unsigned long long e2()                                                                       \
        {                                                                                                              \
            return static_cast<unsigned long long>(etl::OP<E<A>, E<B>>::den);                                          \
        }                                                                                                              \
        template <typename A, typename B>                                                                              \
        static constexpr unsigned long long s2()                                                                       \
        {                                                                                                              \
            return static_cast<unsigned long long>(std::OP<S<A>, S<B>>::den);                                          \
        }                                                                                                              \
        template <typename A, typename B>                                                                              \
        static constexpr ShowFn show = nullptr;                                                                        \
        template <typename A, typename B>                                                                              \
        static constexpr bool nontrivial(long long)                                                                    \
        {                                                                                                              \
            return rn<A>::n != 0 && rn<B>::n != 0;                                                                     \
        }                                                                                                              \
    };                                                                                                                 \
    struct OP##_Ty {                                                                                                   \
        static constexpr char const* name = #OP;                                                                       \
        static constexpr char const* form = "@<R1,R2> is ratio<num,den>";                                              \
        static constexpr bool constant_expected = true;                                                                \
        template <typename A, typename B>                                                                              \
        static constexpr bool ok = naive_fits<A, B>() && (EXTRA_OK);                                                   \
        template <typename A, typename B>                                                                              \
        static constexpr bool gap = false;                                                                             \
        template <typename R>                                                                                          \
        static constexpr char const* cls()                                                                             \
        {                                                                                                              \
            return rat_cls<R>::value();                                                                                \
        }                                                                                                              \
        template <typename A, typename B>                                                                              \
        static constexpr long long e()                                                                                 \
        {                                                                                                              \
            using X = etl::OP<E<A>, E<B>>;                                                                             \
            return std::is_same_v<X, etl::ratio<X::num, X::den>>;                                                      \
        }                                                                                                              \
        template <typename A, typename B>                                                                              \
        static constexpr long long s()                                                                                 \
        {                                                                                                              \
            using X = std::OP<S<A>, S<B>>;                                                                             \
            return std::is_same_v<X, std::ratio<X::num, X::den>>;                                                      \
        }                                                                                                              \
        template <typename A, typename B>                                                                              \
        static constexpr ShowFn show = nullptr;                                                                        \
        template <typename A, typename B>                                                                              \
        static constexpr bool nontrivial(long long)                                                                    \
        {                                                                                                              \
            return rn<A>::n != 0 && rn<B>::n != 0;                                                                     \
        }                                                                                                              \
    };

#define C15_RATIO_CMP(OP)                                                                                              \
    struct OP##_S {                                                                                                    \
        static constexpr char const* name = #OP;                                                                       \
        static constexpr char const* form = "@<R1,R2>::value";                                                         \
        template <typename A, typename B>                                                                              \
        static constexpr bool ok = naive_fits<A, B>();                                                                 \
        template <typename A, typename B>                                                                              \
        static constexpr bool gap = false;                                                                             \
        template <typename R>                                                                                          \
        static constexpr char const* cls()                                                                             \
        {                                                                                                              \
            return rat_cls<R>::value();                                                                                \
        }                                                                                                              \
        template <typename A, typename B>                                                                              \
        static constexpr long long e()                                                                                 \
        {                                                                                                              \
            return etl::OP<E<A>, E<B>>::value;                                                                         \
        }                                                                                                              \
        template <typename A, typename B>                                                                              \
        static constexpr long long s()                                                                                 \
        {                                                                                                              \
            return std::OP<S<A>, S<B>>::value;                                                                         \
        }                                                                                                              \
        template <typename A, typename B>                                                                              \
        static constexpr ShowFn show = nullptr;                                                                        \
        template <typename A, typename B>                                                                              \
        static constexpr bool nontrivial(long long sv)                                                                 \
        {                                                                                                              \
            return sv != 0;                                                                                            \
        }                                                                                                              \
    };                                                                                                                 \
    struct OP##_V {                                                                                                    \
        static constexpr char const* name = #OP;                                                                       \
        static constexpr char const* form = "@_v<R1,R2>";                                                              \
        template <typename A, typename B>                                                                              \
        static constexpr bool ok = naive_fits<A, B>();                                                                 \
        template <typename A, typename B>                                                                              \
        static constexpr bool gap = false;                                                                             \
        template <typename R>                                                                                          \
        static constexpr char const* cls()                                                                             \
        {                                                                                                              \
            return rat_cls<R>::value();                                                                                \
        }                                                                                                              \
        template <typename A, typename B>                                                                              \
        static constexpr long long e()                                                                                 \
        {                                                                                                              \
            return etl::OP##_v<E<A>, E<B>>;                                                                            \
        }                                                                                                              \
        template <typename A, typename B>                                                                              \
        static constexpr long long s()                                                                                 \
        {                                                                                                              \
            return std::OP##_v<S<A>, S<B>>;                                                                            \
        }                                                                                                              \
        template <typename A, typename B>                                                                              \
        static constexpr ShowFn show = nullptr;                                                                        \
        template <typename A, typename B>                                                                              \
        static constexpr bool nontrivial(long long sv)                                                                 \
        {                                                                                                              \
            return sv != 0;                                                                                            \
        }                                                                                                              \
    };

C15_RATIO_ARITH(ratio_add, true)
C15_RATIO_ARITH(ratio_subtract, true)
C15_RATIO_ARITH(ratio_multiply, true)
C15_RATIO_ARITH(ratio_divide, (rn<B>::n != 0))
C15_RATIO_CMP(ratio_equal)
C15_RATIO_CMP(ratio_not_equal)
C15_RATIO_CMP(ratio_less)
C15_RATIO_CMP(ratio_less_equal)
C15_RATIO_CMP(ratio_greater)
C15_RATIO_CMP(ratio_greater_equal)

inline constexpr imax B31 = imax(1) << 31;
inline constexpr imax B32 = imax(1) << 32;
inline constexpr imax B62 = imax(1) << 62;
// clang-format off
// (N, D) grid for the normalisation of ratio itself: every pair of these terms with D != 0
template <imax... V> struct vals { };
using norm_terms = vals<0, 1, -1, 2, -2, 3, 4, 6, -6, 10, -15, 1000, 1000000007, B31, -B32, B62, IMAX, -IMAX, IMAX - 1>;
template <typename Ns, typename Ds> struct norm_grid;
template <imax... D> struct norm_row_d { };
template <imax N, typename Ds> struct norm_row;
template <imax N, imax... D> struct norm_row<N, vals<D...>> {
    // D == 0 is ill-formed in both libraries: replaced by 1 (a duplicate of the (N,1) cell, harmless)
    using type = tl<tl<rat<N, (D == 0 ? 1 : D)>>...>;
};
template <imax... N, typename Ds> struct norm_grid<vals<N...>, Ds> {
    template <typename... L> struct catn;
    template <typename L> struct catn<L> { using type = L; };
    template <typename L0, typename L1, typename... L> struct catn<L0, L1, L...> { using type = typename catn<tl_cat_t<L0, L1>, L...>::type; };
    using type = typename catn<typename norm_row<N, Ds>::type...>::type;
};
using norm_cases = typename norm_grid<norm_terms, norm_terms>::type;

using si_cases = tl<tl<rat<1, 1000000000000000000>>, tl<rat<1, 1000000000000000>>, tl<rat<1, 1000000000000>>, tl<rat<1, 1000000000>>,
                    tl<rat<1, 1000000>>, tl<rat<1, 1000>>, tl<rat<1, 100>>, tl<rat<1, 10>>, tl<rat<10, 1>>, tl<rat<100, 1>>,
                    tl<rat<1000, 1>>, tl<rat<1000000, 1>>, tl<rat<1000000000, 1>>, tl<rat<1000000000000, 1>>,
                    tl<rat<1000000000000000, 1>>, tl<rat<1000000000000000000, 1>>>;

// operands of the binary operations: small, negative, non-reduced, negative denominators, near INTMAX
using op_core = tl<rat<0, 1>, rat<1, 1>, rat<-1, 1>, rat<1, 2>, rat<-2, 3>, rat<6, 4>, rat<4, -6>, rat<-3, -9>, rat<1, 1000>,
                   rat<B31, 1>, rat<1, B32>, rat<IMAX, 1>>;
using op_ext  = tl<rat<0, -5>, rat<7, 1>, rat<3, 7>, rat<-7, 3>, rat<1000000, 1>, rat<1, 1000000000>, rat<-B31, 3>,
                   rat<B62, 3>, rat<3, B62>, rat<-IMAX, 1>, rat<1, IMAX>, rat<IMAX, IMAX - 1>, rat<IMAX - 1, IMAX>,
                   rat<B31 + 1, B31 - 1>>;
// clang-format on
#if defined(C15_QUICK_ZOO)
using op_zoo = op_core;
#else
using op_zoo = tl_cat_t<op_core, op_ext>;
#endif
using op_cases = cross_t<op_zoo, op_zoo>;

// the named SI typedefs themselves
struct Named {
    char const* name;
    long long en, ed, sn, sd;
};
#define C15_SI(N) Named{#N, etl::N::num, etl::N::den, std::N::num, std::N::den}
inline constexpr Named si_named[] = {C15_SI(atto), C15_SI(femto), C15_SI(pico), C15_SI(nano), C15_SI(micro), C15_SI(milli),
    C15_SI(centi), C15_SI(deci), C15_SI(deca), C15_SI(hecto), C15_SI(kilo), C15_SI(mega), C15_SI(giga), C15_SI(tera), C15_SI(peta),
    C15_SI(exa)};
#endif

#if MC_PART == 3
// ------------------------------------------------------------------------------- misc
// hand-built cells: {facility, spelling, case, etl value, std / closed-form value}
struct Fixed {
    char const* subject;
    char const* kase;
    long long e, s;
};
#define C15_SAME(ETL, STD) Fixed{"typedef " #ETL, #ETL " is " #STD, std::is_same_v<ETL, STD>, 1}
inline constexpr Fixed typedef_cells[] = {
    C15_SAME(etl::int8_t, std::int8_t), C15_SAME(etl::int16_t, std::int16_t), C15_SAME(etl::int32_t, std::int32_t),
    C15_SAME(etl::int64_t, std::int64_t), C15_SAME(etl::uint8_t, std::uint8_t), C15_SAME(etl::uint16_t, std::uint16_t),
    C15_SAME(etl::uint32_t, std::uint32_t), C15_SAME(etl::uint64_t, std::uint64_t),
    C15_SAME(etl::int_least8_t, std::int_least8_t), C15_SAME(etl::int_least16_t, std::int_least16_t),
    C15_SAME(etl::int_least32_t, std::int_least32_t), C15_SAME(etl::int_least64_t, std::int_least64_t),
    C15_SAME(etl::uint_least8_t, std::uint_least8_t), C15_SAME(etl::uint_least16_t, std::uint_least16_t),
    C15_SAME(etl::uint_least32_t, std::uint_least32_t), C15_SAME(etl::uint_least64_t, std::uint_least64_t),
    C15_SAME(etl::intmax_t, std::intmax_t), C15_SAME(etl::uintmax_t, std::uintmax_t), C15_SAME(etl::intptr_t, std::intptr_t),
    C15_SAME(etl::uintptr_t, std::uintptr_t), C15_SAME(etl::size_t, std::size_t), C15_SAME(etl::ptrdiff_t, std::ptrdiff_t),
    C15_SAME(etl::nullptr_t, std::nullptr_t),
    // the fast types are only required to be at least as wide: compare width class and signedness
    Fixed{"typedef etl::int_fast8_t", "sizeof >= 1, signed integer", sizeof(etl::int_fast8_t) >= 1 && std::is_signed_v<etl::int_fast8_t> && std::is_integral_v<etl::int_fast8_t>, 1},
    Fixed{"typedef etl::int_fast16_t", "sizeof >= 2, signed integer", sizeof(etl::int_fast16_t) >= 2 && std::is_signed_v<etl::int_fast16_t> && std::is_integral_v<etl::int_fast16_t>, 1},
    Fixed{"typedef etl::int_fast32_t", "sizeof >= 4, signed integer", sizeof(etl::int_fast32_t) >= 4 && std::is_signed_v<etl::int_fast32_t> && std::is_integral_v<etl::int_fast32_t>, 1},
    Fixed{"typedef etl::int_fast64_t", "sizeof >= 8, signed integer", sizeof(etl::int_fast64_t) >= 8 && std::is_signed_v<etl::int_fast64_t> && std::is_integral_v<etl::int_fast64_t>, 1},
    Fixed{"typedef etl::uint_fast8_t", "sizeof >= 1, unsigned integer", sizeof(etl::uint_fast8_t) >= 1 && std::is_unsigned_v<etl::uint_fast8_t> && std::is_integral_v<etl::uint_fast8_t>, 1},
    Fixed{"typedef etl::uint_fast16_t", "sizeof >= 2, unsigned integer", sizeof(etl::uint_fast16_t) >= 2 && std::is_unsigned_v<etl::uint_fast16_t> && std::is_integral_v<etl::uint_fast16_t>, 1},
    Fixed{"typedef etl::uint_fast32_t", "sizeof >= 4, unsigned integer", sizeof(etl::uint_fast32_t) >= 4 && std::is_unsigned_v<etl::uint_fast32_t> && std::is_integral_v<etl::uint_fast32_t>, 1},
    Fixed{"typedef etl::uint_fast64_t", "sizeof >= 8, unsigned integer", sizeof(etl::uint_fast64_t) >= 8 && std::is_unsigned_v<etl::uint_fast64_t> && std::is_integral_v<etl::uint_fast64_t>, 1},
    Fixed{"etl::max_align_t", "alignof", alignof(etl::max_align_t), alignof(std::max_align_t)},
    Fixed{"etl::max_align_t", "is_trivial && is_standard_layout", std::is_trivial_v<etl::max_align_t> && std::is_standard_layout_v<etl::max_align_t>, 1},
    Fixed{"etl::byte", "is_enum", std::is_enum_v<etl::byte>, std::is_enum_v<std::byte>},
    Fixed{"etl::byte", "is scoped (not convertible to int)", !std::is_convertible_v<etl::byte, int>, !std::is_convertible_v<std::byte, int>},
    Fixed{"etl::byte", "underlying_type is unsigned char", std::is_same_v<std::underlying_type_t<etl::byte>, unsigned char>, std::is_same_v<std::underlying_type_t<std::byte>, unsigned char>},
    Fixed{"etl::byte", "sizeof", sizeof(etl::byte), sizeof(std::byte)},
    Fixed{"etl::float_round_style", "round_to_nearest", etl::round_to_nearest, std::round_to_nearest},
    Fixed{"etl::float_round_style", "round_indeterminate", etl::round_indeterminate, std::round_indeterminate},
    Fixed{"etl::float_round_style", "round_toward_zero", etl::round_toward_zero, std::round_toward_zero},
    Fixed{"etl::float_round_style", "round_toward_infinity", etl::round_toward_infinity, std::round_toward_infinity},
    Fixed{"etl::float_round_style", "round_toward_neg_infinity", etl::round_toward_neg_infinity, std::round_toward_neg_infinity},
    Fixed{"etl::float_denorm_style", "denorm_indeterminate", etl::denorm_indeterminate, std::denorm_indeterminate},
    Fixed{"etl::float_denorm_style", "denorm_absent", etl::denorm_absent, std::denorm_absent},
    Fixed{"etl::float_denorm_style", "denorm_present", etl::denorm_present, std::denorm_present},
};

// integral_constant family -----------------------------------------------------------
using IC5  = etl::integral_constant<int, 5>;
using SIC5 = std::integral_constant<int, 5>;
inline constexpr Fixed ic_cells[] = {
    Fixed{"integral_constant", "integral_constant<int,5>::value", IC5::value, SIC5::value},
    Fixed{"integral_constant", "integral_constant<int,5>{}() ", IC5{}(), SIC5{}()},
    Fixed{"integral_constant", "int(integral_constant<int,5>{})", int(IC5{}), int(SIC5{})},
    Fixed{"integral_constant", "value_type is int", std::is_same_v<IC5::value_type, int>, std::is_same_v<SIC5::value_type, int>},
    Fixed{"integral_constant", "type is itself", std::is_same_v<IC5::type, IC5>, std::is_same_v<SIC5::type, SIC5>},
    Fixed{"integral_constant", "noexcept conversion and call", noexcept(int(IC5{})) && noexcept(IC5{}()), noexcept(int(SIC5{})) && noexcept(SIC5{}())},
    Fixed{"integral_constant", "integral_constant<long long,-1>::value", etl::integral_constant<long long, -1>::value, std::integral_constant<long long, -1>::value},
    Fixed{"bool_constant", "bool_constant<true> is integral_constant<bool,true>", std::is_same_v<etl::bool_constant<true>, etl::integral_constant<bool, true>>, std::is_same_v<std::bool_constant<true>, std::integral_constant<bool, true>>},
    Fixed{"bool_constant", "true_type::value", etl::true_type::value, std::true_type::value},
    Fixed{"bool_constant", "false_type::value", etl::false_type::value, std::false_type::value},
    Fixed{"bool_constant", "true_type is bool_constant<true>", std::is_same_v<etl::true_type, etl::bool_constant<true>>, std::is_same_v<std::true_type, std::bool_constant<true>>},
    Fixed{"conditional", "conditional_t<true,int,char> is int", std::is_same_v<etl::conditional_t<true, int, char>, std::conditional_t<true, int, char>>, 1},
    Fixed{"conditional", "conditional_t<false,int,char> is char", std::is_same_v<etl::conditional_t<false, int, char>, std::conditional_t<false, int, char>>, 1},
    Fixed{"conditional", "conditional<true,void,int&>::type", std::is_same_v<etl::conditional<true, void, int&>::type, std::conditional<true, void, int&>::type>, 1},
    Fixed{"conditional", "conditional<false,void,int&>::type", std::is_same_v<etl::conditional<false, void, int&>::type, std::conditional<false, void, int&>::type>, 1},
    Fixed{"enable_if", "enable_if<true>::type is void", std::is_same_v<member_type_t<etl::enable_if<true>>, member_type_t<std::enable_if<true>>>, 1},
    Fixed{"enable_if", "enable_if<true,int&>::type is int&", std::is_same_v<member_type_t<etl::enable_if<true, int&>>, member_type_t<std::enable_if<true, int&>>>, 1},
    Fixed{"enable_if", "enable_if<false>::type absent", std::is_same_v<member_type_t<etl::enable_if<false>>, no_member_type>, std::is_same_v<member_type_t<std::enable_if<false>>, no_member_type>},
    Fixed{"enable_if", "enable_if<false,int>::type absent", std::is_same_v<member_type_t<etl::enable_if<false, int>>, no_member_type>, std::is_same_v<member_type_t<std::enable_if<false, int>>, no_member_type>},
    Fixed{"void_t", "void_t<> is void", std::is_same_v<etl::void_t<>, void>, std::is_same_v<std::void_t<>, void>},
    Fixed{"void_t", "void_t<int, char&, void> is void", std::is_same_v<etl::void_t<int, char&, void>, void>, std::is_same_v<std::void_t<int, char&, void>, void>},
    Fixed{"is_constant_evaluated", "in a constant expression", etl::is_constant_evaluated(), std::is_constant_evaluated()},
};

// conjunction / disjunction / negation over all sequences of length <= 3 of a 4-letter alphabet
using T1 = std::true_type;
using F0 = std::false_type;
using I2 = std::integral_constant<int, 2>;
using I0 = std::integral_constant<int, 0>;
template <typename B>
constexpr char const* bname()
{
    if constexpr (std::is_same_v<B, T1>) { return "true_type"; }
    if constexpr (std::is_same_v<B, F0>) { return "false_type"; }
    if constexpr (std::is_same_v<B, I2>) { return "integral_constant<int,2>"; }
    return "integral_constant<int,0>";
}
} // namespace c15
template <>
struct c15::tname<c15::T1> {
    static constexpr char const* value = "true_type";
};
template <>
struct c15::tname<c15::F0> {
    static constexpr char const* value = "false_type";
};
template <>
struct c15::tname<c15::I2> {
    static constexpr char const* value = "integral_constant<int,2>";
};
template <>
struct c15::tname<c15::I0> {
    static constexpr char const* value = "integral_constant<int,0>";
};
namespace c15 {
template <typename B>
constexpr char const* bcls()
{
    return std::is_same_v<typename B::value_type, bool> ? (B::value ? "true" : "false") : (B::value ? "nonbool_truthy" : "nonbool_zero");
}

#define C15_LOGIC(OP)                                                                                                  \
    struct OP##_LS {                                                                                                   \
        static constexpr char const* name = #OP;                                                                       \
        static constexpr char const* form = "@<B...>::value";                                                          \
        template <typename... B>                                                                                       \
        static constexpr bool ok = true;                                                                               \
        template <typename... B>                                                                                       \
        static constexpr bool gap = false;                                                                             \
        template <typename B>                                                                                          \
        static constexpr char const* cls()                                                                             \
        {                                                                                                              \
            return bcls<B>();                                                                                          \
        }                                                                                                              \
        template <typename... B>                                                                                       \
        static constexpr long long e()                                                                                 \
        {                                                                                                              \
            return static_cast<long long>(etl::OP<B...>::value);                                                       \
        }                                                                                                              \
        template <typename... B>                                                                                       \
        static constexpr long long s()                                                                                 \
        {                                                                                                              \
            return static_cast<long long>(std::OP<B...>::value);                                                       \
        }                                                                                                              \
        template <typename... B>                                                                                       \
        static constexpr ShowFn show = nullptr;                                                                        \
        template <typename... B>                                                                                       \
        static constexpr bool nontrivial(long long sv)                                                                 \
        {                                                                                                              \
            return sv != 0;                                                                                            \
        }                                                                                                              \
    };                                                                                                                 \
    struct OP##_LV {                                                                                                   \
        static constexpr char const* name = #OP;                                                                       \
        static constexpr char const* form = "@_v<B...>";                                                               \
        template <typename... B>                                                                                       \
        static constexpr bool ok = true;                                                                               \
        template <typename... B>                                                                                       \
        static constexpr bool gap = false;                                                                             \
        template <typename B>                                                                                          \
        static constexpr char const* cls()                                                                             \
        {                                                                                                              \
            return bcls<B>();                                                                                          \
        }                                                                                                              \
        template <typename... B>                                                                                       \
        static constexpr long long e()                                                                                 \
        {                                                                                                              \
            return static_cast<long long>(etl::OP##_v<B...>);                                                          \
        }                                                                                                              \
        template <typename... B>                                                                                       \
        static constexpr long long s()                                                                                 \
        {                                                                                                              \
            return static_cast<long long>(std::OP##_v<B...>);                                                          \
        }                                                                                                              \
        template <typename... B>                                                                                       \
        static constexpr ShowFn show = nullptr;                                                                        \
        template <typename... B>                                                                                       \
        static constexpr bool nontrivial(long long sv)                                                                 \
        {                                                                                                              \
            return sv != 0;                                                                                            \
        }                                                                                                              \
    };
C15_LOGIC(conjunction)
C15_LOGIC(disjunction)
C15_LOGIC(negation)

using alpha  = tl<T1, F0, I2, I0>;
using seq1   = wrap1_t<alpha>;
using seq2   = cross_t<alpha, alpha>;
template <typename L2, typename A>
struct extend;
template <typename... P, typename... A>
struct extend<tl<P...>, tl<A...>> {
    template <typename Pair>
    struct one;
    template <typename X, typename Y>
    struct one<tl<X, Y>> {
        using type = tl<tl<X, Y, A>...>;
    };
    template <typename... L>
    struct catn;
    template <typename L>
    struct catn<L> {
        using type = L;
    };
    template <typename L0, typename L1, typename... L>
    struct catn<L0, L1, L...> {
        using type = typename catn<tl_cat_t<L0, L1>, L...>::type;
    };
    using type = typename catn<typename one<P>::type...>::type;
};
using seq3      = typename extend<seq2, alpha>::type;
using seq_cases = tl_cat_t<seq1, tl_cat_t<seq2, seq3>>;

// aligned_storage / aligned_union --------------------------------------------------------
template <std::size_t Len, std::size_t Align>
constexpr Fixed as_cell_size()
{
    return Fixed{"aligned_storage<Len,Align>::type", "sizeof", sizeof(typename etl::aligned_storage<Len, Align>::type),
        sizeof(typename std::aligned_storage<Len, Align>::type)};
}
template <std::size_t Len, std::size_t Align>
constexpr Fixed as_cell_align()
{
    return Fixed{"aligned_storage<Len,Align>::type", "alignof", alignof(typename etl::aligned_storage<Len, Align>::type),
        alignof(typename std::aligned_storage<Len, Align>::type)};
}
template <std::size_t... Len>
constexpr auto as_cells(std::index_sequence<Len...>)
{
    return std::array<Fixed, sizeof...(Len) * 10>{as_cell_size<Len + 1, 1>()..., as_cell_align<Len + 1, 1>()..., as_cell_size<Len + 1, 2>()...,
        as_cell_align<Len + 1, 2>()..., as_cell_size<Len + 1, 4>()..., as_cell_align<Len + 1, 4>()..., as_cell_size<Len + 1, 8>()...,
        as_cell_align<Len + 1, 8>()..., as_cell_size<Len + 1, 16>()..., as_cell_align<Len + 1, 16>()...};
}
inline constexpr auto aligned_storage_cells = as_cells(std::make_index_sequence<40>{});

template <std::size_t Len, typename... Ts>
constexpr std::array<Fixed, 3> au_cells(char const* what)
{
    using E_ = etl::aligned_union<Len, Ts...>;
    using S_ = std::aligned_union<Len, Ts...>;
    return {Fixed{"aligned_union<Len,Ts...>::alignment_value", what, static_cast<long long>(E_::alignment_value), static_cast<long long>(S_::alignment_value)},
        Fixed{"aligned_union<Len,Ts...>::type alignof", what, alignof(typename E_::type), alignof(typename S_::type)},
        Fixed{"aligned_union<Len,Ts...>::type sizeof", what, sizeof(typename E_::type), sizeof(typename S_::type)}};
}
inline constexpr std::array<Fixed, 3> aligned_union_cells[] = {
    au_cells<0, char>("<0, char>"),
    au_cells<1, char>("<1, char>"),
    au_cells<3, char, short>("<3, char, short>"),
    au_cells<0, int, double>("<0, int, double>"),
    au_cells<0, double, int>("<0, double, int>"),
    au_cells<17, int>("<17, int>"),
    au_cells<5, long double, char>("<5, long double, char>"),
    au_cells<64, char, int, zoo::Agg>("<64, char, int, zoo::Agg>"),
    au_cells<0, char[7], short>("<0, char[7], short>"),
    au_cells<0, zoo::Padded, char[9]>("<0, zoo::Padded, char[9]>"),
    au_cells<2, int, int, int, long long>("<2, int, int, int, long long>"),
};

// etl/_meta (no std namesake): against the closed form ------------------------------------
namespace em = etl::meta;
using L3       = em::list<int, char, int>;
inline constexpr Fixed meta_cells[] = {
    Fixed{"meta::contains", "contains_v<int, list<int,char,int>>", em::contains_v<int, L3>, 1},
    Fixed{"meta::contains", "contains_v<long, list<int,char,int>>", em::contains_v<long, L3>, 0},
    Fixed{"meta::contains", "contains_v<int, list<>>", em::contains_v<int, em::list<>>, 0},
    Fixed{"meta::contains", "contains_v<int const, list<int>> (exact match only)", em::contains_v<int const, em::list<int>>, 0},
    Fixed{"meta::count", "count_v<int, list<int,char,int>>", static_cast<long long>(em::count_v<int, L3>), 2},
    Fixed{"meta::count", "count_v<char, list<int,char,int>>", static_cast<long long>(em::count_v<char, L3>), 1},
    Fixed{"meta::count", "count_v<long, list<int,char,int>>", static_cast<long long>(em::count_v<long, L3>), 0},
    Fixed{"meta::count", "count_v<int, list<>>", static_cast<long long>(em::count_v<int, em::list<>>), 0},
    Fixed{"meta::index_of", "index_of_v<int, list<int,char,int>>", static_cast<long long>(em::index_of_v<int, L3>), 0},
    Fixed{"meta::index_of", "index_of_v<char, list<int,char,int>>", static_cast<long long>(em::index_of_v<char, L3>), 1},
    Fixed{"meta::index_of", "index_of_v<long, list<int,char,long>>", static_cast<long long>(em::index_of_v<long, em::list<int, char, long>>), 2},
    Fixed{"meta::at", "at_t<0, list<int,char,long>>", std::is_same_v<em::at_t<0, em::list<int, char, long>>, int>, 1},
    Fixed{"meta::at", "at_t<1, list<int,char,long>>", std::is_same_v<em::at_t<1, em::list<int, char, long>>, char>, 1},
    Fixed{"meta::at", "at_t<2, list<int,char,long>>", std::is_same_v<em::at_t<2, em::list<int, char, long>>, long>, 1},
    Fixed{"meta::head", "head_t<list<int,char,long>>", std::is_same_v<em::head_t<em::list<int, char, long>>, int>, 1},
    Fixed{"meta::head", "head_t<list<void>>", std::is_same_v<em::head_t<em::list<void>>, void>, 1},
    Fixed{"meta::tail", "tail_t<list<int,char,long>>", std::is_same_v<em::tail_t<em::list<int, char, long>>, em::list<char, long>>, 1},
    Fixed{"meta::tail", "tail_t<list<int>>", std::is_same_v<em::tail_t<em::list<int>>, em::list<>>, 1},
    Fixed{"meta::push_back", "push_back_t<long, list<int,char>>", std::is_same_v<em::push_back_t<long, em::list<int, char>>, em::list<int, char, long>>, 1},
    Fixed{"meta::push_back", "push_back_t<long, list<>>", std::is_same_v<em::push_back_t<long, em::list<>>, em::list<long>>, 1},
    Fixed{"meta::push_front", "push_front_t<long, list<int,char>>", std::is_same_v<em::push_front_t<long, em::list<int, char>>, em::list<long, int, char>>, 1},
    Fixed{"meta::push_front", "push_front_t<long, list<>>", std::is_same_v<em::push_front_t<long, em::list<>>, em::list<long>>, 1},
};

// byte operations: constexpr table over every value (unary, shifts, to_integer) and a 16 x 16 lattice (binary)
struct ByteCell {
    char const* op;
    unsigned a, b;
    unsigned e, s;
};
constexpr unsigned lattice(unsigned i) { return (i * 17U) & 0xFFU; } // 0x00,0x11,...,0xFF
constexpr auto make_byte_cells()
{
    std::array<ByteCell, 256 * (2 + 9 * 2) + 16 * 16 * 3> out{};
    std::size_t n = 0;
    for (unsigned a = 0; a < 256; ++a) {
        auto const eb = static_cast<etl::byte>(a);
        auto const sb = static_cast<std::byte>(a);
        out[n++]      = ByteCell{"operator~", a, 0, static_cast<unsigned>(~eb), static_cast<unsigned>(~sb)};
        out[n++]      = ByteCell{"to_integer<int>", a, 0, static_cast<unsigned>(etl::to_integer<int>(eb)), static_cast<unsigned>(std::to_integer<int>(sb))};
        for (unsigned sh = 0; sh <= 8; ++sh) {
            out[n++] = ByteCell{"operator<<", a, sh, static_cast<unsigned>(eb << sh), static_cast<unsigned>(sb << sh)};
            out[n++] = ByteCell{"operator>>", a, sh, static_cast<unsigned>(eb >> sh), static_cast<unsigned>(sb >> sh)};
        }
    }
    for (unsigned i = 0; i < 16; ++i) {
        for (unsigned j = 0; j < 16; ++j) {
            unsigned const a = lattice(i), b = lattice(j) ^ (i & 1U ? 0x5AU : 0U);
            auto const ea = static_cast<etl::byte>(a), eb = static_cast<etl::byte>(b);
            auto const sa = static_cast<std::byte>(a), sb = static_cast<std::byte>(b);
            out[n++] = ByteCell{"operator|", a, b, static_cast<unsigned>(ea | eb), static_cast<unsigned>(sa | sb)};
            out[n++] = ByteCell{"operator&", a, b, static_cast<unsigned>(ea & eb), static_cast<unsigned>(sa & sb)};
            out[n++] = ByteCell{"operator^", a, b, static_cast<unsigned>(ea ^ eb), static_cast<unsigned>(sa ^ sb)};
        }
    }
    return out;
}
inline constexpr auto byte_cells = make_byte_cells();

inline void run_fixed(mc::Reporter& r, Fixed const* c, std::size_t n)
{
    for (std::size_t i = 0; i < n; ++i) {
        std::string const subject = c[i].subject;
        if (!r.want(subject)) { continue; }
        r.count("evaluations");
        r.count("distinct_nontrivial");
        r.outcome(mc::hash_mix(mc::hash_str(subject), std::uint64_t(c[i].s)));
        if (r.wants_sample() && i % 5 == 0) { r.sample(subject + ": " + c[i].kase + " -> etl " + std::to_string(c[i].e) + ", expected " + std::to_string(c[i].s)); }
        if (c[i].e != c[i].s) {
            r.violation("C15", subject, c[i].kase, subject + ": " + c[i].kase, "etl " + std::to_string(c[i].e) + " != expected " + std::to_string(c[i].s));
        }
    }
}
#endif

} // namespace c15

int main(int argc, char** argv)
{
    using namespace c15;
    mc::Main m(argc, argv);
#if MC_PART == 1
    m.job("limits-constants", {"quick", "thorough"}, [](mc::Reporter& r) {
        run_columns<lim_cases, lim_is_specialized, lim_is_signed, lim_is_integer, lim_is_exact, lim_has_infinity, lim_has_quiet_NaN,
            lim_has_signaling_NaN, lim_has_denorm, lim_has_denorm_loss, lim_round_style, lim_is_iec559, lim_is_bounded, lim_is_modulo,
            lim_digits, lim_digits10, lim_max_digits10, lim_radix, lim_min_exponent, lim_min_exponent10, lim_max_exponent,
            lim_max_exponent10, lim_traps, lim_tinyness_before>(r);
    });
    m.job("limits-functions", {"quick", "thorough"}, [](mc::Reporter& r) {
        run_columns<lim_cases, lim_min, lim_min_type, lim_max, lim_max_type, lim_lowest, lim_lowest_type, lim_epsilon,
            lim_epsilon_type, lim_round_error, lim_round_error_type, lim_infinity, lim_infinity_type, lim_quiet_NaN,
            lim_quiet_NaN_type, lim_signaling_NaN, lim_signaling_NaN_type, lim_denorm_min, lim_denorm_min_type>(r);
    });
#elif MC_PART == 2
    m.job("ratio-normalise", {"quick", "thorough"}, [](mc::Reporter& r) {
        run_columns<norm_cases, ratio_norm, ratio_type>(r);
        run_columns<si_cases, ratio_norm, ratio_type>(r);
        for (auto const& n : si_named) {
            std::string const subject = std::string("ratio typedef ") + n.name;
            if (!r.want(subject)) { continue; }
            r.count("evaluations");
            r.count("distinct_nontrivial");
            if (n.en != n.sn || n.ed != n.sd) {
                r.violation("C15", subject, "general", std::string("etl::") + n.name,
                    mc::cat("etl ", n.en, "/", n.ed, " != std ", n.sn, "/", n.sd));
            }
        }
    });
    m.job("ratio-arithmetic", {"quick", "thorough"}, [](mc::Reporter& r) {
        run_columns<op_cases, ratio_add_R, ratio_add_Ty, ratio_subtract_R, ratio_subtract_Ty, ratio_multiply_R, ratio_multiply_Ty,
            ratio_divide_R, ratio_divide_Ty>(r);
    });
    m.job("ratio-compare", {"quick", "thorough"}, [](mc::Reporter& r) {
        run_columns<op_cases, ratio_equal_S, ratio_equal_V, ratio_not_equal_S, ratio_not_equal_V, ratio_less_S, ratio_less_V,
            ratio_less_equal_S, ratio_less_equal_V, ratio_greater_S, ratio_greater_V, ratio_greater_equal_S, ratio_greater_equal_V>(r);
    });
#elif MC_PART == 3
    m.job("typedefs-constants", {"quick", "thorough"}, [](mc::Reporter& r) {
        run_fixed(r, typedef_cells, std::size(typedef_cells));
        run_fixed(r, ic_cells, std::size(ic_cells));
        run_fixed(r, meta_cells, std::size(meta_cells));
    });
    m.job("logic-traits", {"quick", "thorough"}, [](mc::Reporter& r) {
        run_columns<seq_cases, conjunction_LS, conjunction_LV, disjunction_LS, disjunction_LV>(r);
        run_columns<seq1, negation_LS, negation_LV>(r);
    });
    m.job("aligned-storage", {"quick", "thorough"}, [](mc::Reporter& r) {
        run_fixed(r, aligned_storage_cells.data(), aligned_storage_cells.size());
        for (auto const& a : aligned_union_cells) { run_fixed(r, a.data(), a.size()); }
    });
    m.job("byte", {"quick", "thorough"}, [](mc::Reporter& r) {
        for (auto const& c : byte_cells) {
            std::string const subject = std::string("byte ") + c.op;
            if (!r.want(subject)) { continue; }
            r.count("evaluations");
            if (c.a != 0 && c.a != 0xFF) { r.count("distinct_nontrivial"); }
            r.outcome(mc::hash_mix(mc::hash_str(subject), c.s));
            if (c.e != c.s) {
                r.violation("C15", subject, (c.b >= 8 && (c.op[8] == '<' || c.op[8] == '>')) ? "shift_ge_8" : "general",
                    mc::cat(c.op, " a=", c.a, " b=", c.b), mc::cat("etl ", c.e, " != std ", c.s));
            }
        }
    });
#endif
    return m.run();
}
