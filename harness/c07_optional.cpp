// C07 (and the optional part of C03; C02/C05 ride along): etl::optional<T> explored to a fixed
// point in lock-step with std::optional<twin<T>>; etl::optional<T&> against a pointer-or-null
// model (libstdc++ 12 has no optional<T&>).
//
// State  = (engaged flag, value or "moved-from", for trivially copyable T the object bytes).
// Unary  = every constructor form, every assignment form, emplace, reset, value_or/and_then/
//          or_else on rvalues (they move out of the object), self-assignments, self-swap,
//          the aliasing assignment o = *o, "move out" (leaves a moved-from engaged object).
// Binary = copy/move assignment, member and free swap, the six relational operators for
//          optional<T> x optional<T> and optional<T> x optional<U>, over all state pairs.
// Observers (every new state): has_value, operator bool, * on all four value categories, ->,
//          value_or, and_then on all four categories with a logging callable, or_else, all
//          declared comparisons with nullopt and with values of T and U in both orders.
#include "c07_common.hpp"

#include <etl/optional.hpp>

#include <optional>

using namespace c07;

namespace {

enum Kind : int {
    // constructors (the object is re-created in re-poisoned storage)
    c_value_init,
    c_nullopt,
    c_value_r,
    c_value_l,
    c_conv,
    c_in_place,
    c_opt_u_l,
    c_opt_u_r,
    c_make,
    c_make_in_place,
    c_copy,
    c_move,
    // assignments and modifiers
    a_nullopt,
    a_braces,
    a_value_r,
    a_value_l,
    a_conv,
    a_opt_u_l,
    a_opt_u_r,
    a_alias,
    m_emplace,
    m_reset,
    self_copy_assign,
    self_move_assign,
    self_swap_member,
    self_swap_free,
    move_out,
    value_or_r,
    and_then_r_byvalue,
    or_else_r,
    // binary
    b_copy_assign,
    b_move_assign,
    b_swap_member,
    b_swap_free,
    b_relational,
    b_relational_mixed,
    kind_count
};

char const* kind_subject(int k)
{
    static char const* names[] = {"optional::optional() value-init", "optional::optional(nullopt_t)", "optional::optional(U&&)",
        "optional::optional(T const&)", "optional::optional(U&&) converting", "optional::optional(in_place_t,args)",
        "optional::optional(optional<U> const&)", "optional::optional(optional<U>&&)", "make_optional(value)",
        "make_optional<T>(args)", "optional::optional(optional const&)", "optional::optional(optional&&)",
        "optional::operator=(nullopt_t)", "optional::operator=({})", "optional::operator=(T&&)", "optional::operator=(T const&)",
        "optional::operator=(U&&) converting", "optional::operator=(optional<U> const&)", "optional::operator=(optional<U>&&)",
        "optional::operator=(own value)", "optional::emplace", "optional::reset", "optional::operator=(optional const&) self",
        "optional::operator=(optional&&) self", "optional::swap(self)", "etl::swap(optional,self)", "optional::optional(optional&&) source",
        "optional::value_or(U&&) &&", "optional::and_then(F) && by-value", "optional::or_else(F) &&", "optional::operator=(optional const&)",
        "optional::operator=(optional&&)", "optional::swap", "etl::swap(optional,optional)", "optional relational operators",
        "optional<T> x optional<U> relational operators"};
    static_assert(sizeof(names) / sizeof(names[0]) == kind_count);
    return names[k];
}

template <typename R>
struct AndThen {
    int mode;
    std::string* log;
    template <typename X>
    R operator()(X&& x) const
    {
        *log += cat("f(", catname<X&&>(), ":", val(x), ")");
        if (mode == 0) { return R{}; }
        return R{val(x) + mode};
    }
};
template <typename R, typename TT>
struct AndThenByValue {
    std::string* log;
    R operator()(TT x) const
    {
        *log += cat("f(byvalue:", val(x), ")");
        return R{val(x) + 10};
    }
};
template <typename R, typename TT>
struct OrElse {
    int a;
    std::string* log;
    R operator()() const
    {
        *log += "g()";
        if (a < 0) { return R{}; }
        return R{make<TT>(a)};
    }
};

template <typename O>
std::string show_opt(O const& o)
{
    if (!o.has_value()) { return "empty"; }
    return cat("engaged(", val(*o), ")");
}

// =======================================================================================
// optional<T>
// =======================================================================================
template <typename T, typename U, int K>
struct OptionalSys {
    using V      = etl::optional<T>;
    using MT     = twin_t<T>;
    using M      = std::optional<MT>;
    using VU     = etl::optional<U>;
    using MU     = std::optional<U>;
    using State  = Box<V, M>;
    using Action = c07::Action;
    static constexpr bool tracked  = mc::is_tracked_v<T>;
    static constexpr bool copyable = std::is_copy_constructible_v<T>;

    std::string name() const { return cat("optional<", aname<T>(), ">"); }
    std::string family() const { return "optional"; }
    std::string show(Action const& a) const { return cat(kind_subject(a.k), "[", a.a, "]"); }
    std::string subject(Action const& a) const { return kind_subject(a.k); }

    static std::string st(M const& m)
    {
        if (!m.has_value()) { return "empty"; }
        return val(*m) < 0 ? "moved-from" : "engaged";
    }
    static std::string mshow(M const& m) { return m.has_value() ? cat("E", val(*m)) : std::string("N"); }

    void unary(State const& s, std::vector<Action>& out) const
    {
        out.push_back({c_value_init, 0, 0});
        out.push_back({c_nullopt, 0, 0});
        for (int k = 0; k < K; ++k) {
            out.push_back({c_value_r, k, 0});
            if constexpr (copyable) { out.push_back({c_value_l, k, 0}); }
            out.push_back({c_conv, k, 0});
            out.push_back({c_in_place, k, 0});
            out.push_back({c_make, k, 0});
            out.push_back({c_make_in_place, k, 0});
            out.push_back({a_value_r, k, 0});
            if constexpr (copyable) { out.push_back({a_value_l, k, 0}); }
            out.push_back({a_conv, k, 0});
            out.push_back({m_emplace, k, 0});
            out.push_back({value_or_r, k, 0});
        }
        for (int a = -1; a < K; ++a) {
            out.push_back({c_opt_u_l, a, 0});
            out.push_back({c_opt_u_r, a, 0});
            out.push_back({a_opt_u_l, a, 0});
            out.push_back({a_opt_u_r, a, 0});
            out.push_back({or_else_r, a, 0});
        }
        if constexpr (copyable) {
            out.push_back({c_copy, 0, 0});
            out.push_back({self_copy_assign, 0, 0});
            if (s.m.has_value()) { out.push_back({a_alias, 0, 0}); }
        }
        out.push_back({c_move, 0, 0});
        out.push_back({a_nullopt, 0, 0});
        out.push_back({a_braces, 0, 0});
        out.push_back({m_reset, 0, 0});
        out.push_back({self_move_assign, 0, 0});
        out.push_back({self_swap_member, 0, 0});
        out.push_back({self_swap_free, 0, 0});
        out.push_back({move_out, 0, 0});
        out.push_back({and_then_r_byvalue, 0, 0});
    }

    void binary(std::vector<Action>& out) const
    {
        if constexpr (copyable) { out.push_back({b_copy_assign, 0, 0}); }
        out.push_back({b_move_assign, 0, 0});
        out.push_back({b_swap_member, 0, 0});
        out.push_back({b_swap_free, 0, 0});
        out.push_back({b_relational, 0, 0});
        out.push_back({b_relational_mixed, 0, 0});
    }

    bool same(Cx& cx, std::string const& subj, std::string const& cls, V const& v, M const& m, char const* what) const
    {
        bool const he = v.has_value();
        if (he != m.has_value()) {
            cx.fail("C07", subj, cls, cat(what, ": has_value() tetl=", he, " std=", m.has_value()));
            return false;
        }
        if (he) {
            int const a = val(*v);
            int const b = val(*m);
            if (a != b) {
                cx.fail("C07", subj, cls, cat(what, ": value tetl=", a, " std=", b));
                return false;
            }
        }
        return true;
    }

    void lifetimes(Cx& cx, std::string const& subj, std::string const& cls, State const& s, char const* what) const
    {
        if constexpr (tracked) {
            drain_lifetimes(cx, subj, cls);
            check_live(cx, subj, cls, s.lo(), s.hi(), s.m.has_value() ? 1U : 0U, what);
        }
    }

    static VU make_vu(int a) { return a < 0 ? VU{} : VU{make<U>(a)}; }
    static MU make_mu(int a) { return a < 0 ? MU{} : MU{make<U>(a)}; }

    void apply(State& s, Action const& a, State* p, Cx& cx)
    {
        V& v            = *s.v;
        M& m            = s.m;
        auto const subj = subject(a);
        std::string cls = st(m);
        if (p != nullptr) { cls += "+" + st(p->m); }
        note_case(cx, name(), mshow(m), a, p != nullptr ? mshow(p->m) : std::string());
        bool check_other = false;
        switch (a.k) {
        case c_value_init: {
            cls = "general";
            v.~V();
            std::memset(s.buf, s.poison, sizeof s.buf);
            s.v = ::new (static_cast<void*>(s.buf)) V{};
            m   = M{};
            break;
        }
        case c_nullopt: {
            cls = "general";
            s.recreate(etl::nullopt);
            m = M{std::nullopt};
            break;
        }
        case c_value_r: {
            cls = "general";
            s.recreate(make<T>(a.a));
            m = M{make<MT>(a.a)};
            break;
        }
        case c_value_l: {
            if constexpr (copyable) {
                cls = "general";
                T const x(make<T>(a.a));
                s.recreate(x);
                MT const y(make<MT>(a.a));
                m = M{y};
                if (val(x) != a.a) { cx.fail("C07", subj, cls, "constructor changed its const source"); }
            }
            break;
        }
        case c_conv: {
            cls = "general";
            s.recreate(make<U>(a.a));
            m = M{make<U>(a.a)};
            break;
        }
        case c_in_place: {
            cls = "general";
            s.recreate(etl::in_place, a.a);
            m = M{std::in_place, a.a};
            break;
        }
        case c_opt_u_l: {
            cls = a.a < 0 ? "arg_empty" : "arg_engaged";
            VU const src = make_vu(a.a);
            MU const ms  = make_mu(a.a);
            s.recreate(src);
            m = M{ms};
            ceq(cx, "C07", subj, cls, "source has_value after copy", src.has_value(), ms.has_value());
            break;
        }
        case c_opt_u_r: {
            cls    = a.a < 0 ? "arg_empty" : "arg_engaged";
            VU src = make_vu(a.a);
            MU ms  = make_mu(a.a);
            s.recreate(std::move(src));
            m = M{std::move(ms)};
            ceq(cx, "C07", subj, cls, "source has_value after move", src.has_value(), ms.has_value());
            break;
        }
        case c_make: {
            cls = "general";
            static_assert(std::is_same_v<decltype(etl::make_optional(make<T>(0))), V>);
            static_assert(std::is_same_v<decltype(etl::optional(make<T>(0))), V>);
            s.recreate(etl::make_optional(make<T>(a.a)));
            m = std::make_optional(make<MT>(a.a));
            break;
        }
        case c_make_in_place: {
            cls = "general";
            s.recreate(etl::make_optional<T>(a.a));
            m = std::make_optional<MT>(a.a);
            break;
        }
        case c_copy: {
            if constexpr (copyable) {
                alignas(V) unsigned char tmp[sizeof(V)];
                std::memset(tmp, 0x5A, sizeof tmp);
                V* t = ::new (static_cast<void*>(tmp)) V(static_cast<V const&>(v));
                same(cx, subj, cls, *t, m, "copy");
                same(cx, subj, cls, v, m, "source after copy construction");
                // mutate the copy: the source must not follow
                t->reset();
                same(cx, subj, cls, v, m, "source after resetting its copy");
                t->~V();
                V* t2 = ::new (static_cast<void*>(tmp)) V(static_cast<V const&>(v));
                s.recreate(std::move(*t2)); // adopt a copy as the new state
                t2->~V();
                M m2(static_cast<M const&>(m));
                m = M(std::move(m2));
            }
            break;
        }
        case c_move: {
            alignas(V) unsigned char tmp[sizeof(V)];
            std::memset(tmp, 0x5A, sizeof tmp);
            V* t = ::new (static_cast<void*>(tmp)) V(std::move(v));
            M mt(std::move(m));
            same(cx, subj, cls, *t, mt, "moved-to object");
            same(cx, subj, cls, v, m, "moved-from source");
            // the moved-from source must stay assignable and destructible
            v = etl::nullopt;
            s.recreate(std::move(*t));
            t->~V();
            m = M(std::move(mt));
            break;
        }
        case a_nullopt: {
            V& ret = (v = etl::nullopt);
            if (&ret != &v) { cx.fail("C07", subj, cls, "operator= did not return *this"); }
            m = std::nullopt;
            break;
        }
        case a_braces: {
            v = {};
            m = {};
            break;
        }
        case a_value_r: {
            V& ret = (v = make<T>(a.a));
            if (&ret != &v) { cx.fail("C07", subj, cls, "operator= did not return *this"); }
            m = make<MT>(a.a);
            break;
        }
        case a_value_l: {
            if constexpr (copyable) {
                T const x(make<T>(a.a));
                v = x;
                MT const y(make<MT>(a.a));
                m = y;
                if (val(x) != a.a) { cx.fail("C07", subj, cls, "assignment changed its const source"); }
            }
            break;
        }
        case a_conv: {
            v = make<U>(a.a);
            m = make<U>(a.a);
            break;
        }
        case a_opt_u_l: {
            cls += a.a < 0 ? "+arg_empty" : "+arg_engaged";
            VU const src = make_vu(a.a);
            MU const ms  = make_mu(a.a);
            V& ret       = (v = src);
            if (&ret != &v) { cx.fail("C07", subj, cls, "operator= did not return *this"); }
            m = ms;
            break;
        }
        case a_opt_u_r: {
            cls += a.a < 0 ? "+arg_empty" : "+arg_engaged";
            VU src = make_vu(a.a);
            MU ms  = make_mu(a.a);
            v      = std::move(src);
            m      = std::move(ms);
            ceq(cx, "C07", subj, cls, "source has_value after move", src.has_value(), ms.has_value());
            break;
        }
        case a_alias: {
            if constexpr (copyable) {
                // o = *o : the argument refers to the contained value; std::optional assigns through
                v = *v;
                // model: unchanged (std: contained value copy-assigned from itself)
            }
            break;
        }
        case m_emplace: {
            T& ret = v.emplace(a.a);
            m.emplace(a.a);
            if (v.has_value() && &ret != &*v) { cx.fail("C07", subj, cls, "emplace did not return a reference to the contained value"); }
            break;
        }
        case m_reset: {
            v.reset();
            m.reset();
            break;
        }
        case self_copy_assign: {
            if constexpr (copyable) {
                V const& self = v;
                v             = self;
                // model unchanged: self copy-assignment must leave the value unchanged (C03)
            }
            break;
        }
        case self_move_assign: {
            V& self = v;
            v       = std::move(self);
            // only required to leave a valid object: bring the model to whatever tetl holds
            if constexpr (tracked) { drain_lifetimes(cx, subj, cls); }
            if (v.has_value()) {
                int const now = val(*v);
                m.emplace(now);
            } else {
                m.reset();
            }
            break;
        }
        case self_swap_member: {
            v.swap(v);
            break; // model unchanged
        }
        case self_swap_free: {
            using etl::swap;
            swap(v, v);
            break; // model unchanged
        }
        case move_out: {
            V t(std::move(v));
            M mt(std::move(m));
            same(cx, subj, cls, t, mt, "moved-to object");
            break; // v / m stay as the (moved-from) state
        }
        case value_or_r: {
            int const got  = val(std::move(v).value_or(make<T>(a.a)));
            int const want = val(std::move(m).value_or(make<MT>(a.a)));
            ceq(cx, "C07", subj, cls, "value_or(U&&) &&", got, want);
            break;
        }
        case and_then_r_byvalue: {
            std::string le, lm;
            auto re = std::move(v).and_then(AndThenByValue<etl::optional<int>, T>{&le});
            auto rm = std::move(m).and_then(AndThenByValue<std::optional<int>, MT>{&lm});
            ceq(cx, "C07", subj, cls, "callable invocations", le, lm);
            ceq(cx, "C07", subj, cls, "result", show_opt(re), show_opt(rm));
            break;
        }
        case or_else_r: {
            cls += a.a < 0 ? "+f_empty" : "+f_engaged";
            std::string le, lm;
            V re = std::move(v).or_else(OrElse<V, T>{a.a, &le});
            M rm = std::move(m).or_else(OrElse<M, MT>{a.a, &lm});
            ceq(cx, "C07", subj, cls, "callable invocations", le, lm);
            same(cx, subj, cls, re, rm, "result");
            break;
        }
        case b_copy_assign: {
            if constexpr (copyable) {
                V& ret = (v = static_cast<V const&>(*p->v));
                if (&ret != &v) { cx.fail("C07", subj, cls, "operator= did not return *this"); }
                m           = static_cast<M const&>(p->m);
                check_other = true;
            }
            break;
        }
        case b_move_assign: {
            v           = std::move(*p->v);
            m           = std::move(p->m);
            check_other = true;
            break;
        }
        case b_swap_member: {
            v.swap(*p->v);
            m.swap(p->m);
            check_other = true;
            break;
        }
        case b_swap_free: {
            using etl::swap;
            swap(v, *p->v);
            using std::swap;
            swap(m, p->m);
            check_other = true;
            break;
        }
        case b_relational: {
            V const& x  = v;
            V const& y  = *p->v;
            M const& mx = m;
            M const& my = p->m;
            ceq(cx, "C07", subj, cls, "==", x == y, mx == my);
            ceq(cx, "C07", subj, cls, "!=", x != y, mx != my);
            ceq(cx, "C07", subj, cls, "<", x < y, mx < my);
            ceq(cx, "C07", subj, cls, "<=", x <= y, mx <= my);
            ceq(cx, "C07", subj, cls, ">", x > y, mx > my);
            ceq(cx, "C07", subj, cls, ">=", x >= y, mx >= my);
            break;
        }
        case b_relational_mixed: {
            V const& x  = v;
            M const& mx = m;
            int const pa = p->m.has_value() ? val(*p->m) : -7;
            VU const y   = p->m.has_value() ? VU{make<U>(pa)} : VU{};
            MU const my  = p->m.has_value() ? MU{make<U>(pa)} : MU{};
            ceq(cx, "C07", subj, cls, "opt<T> == opt<U>", x == y, mx == my);
            ceq(cx, "C07", subj, cls, "opt<T> != opt<U>", x != y, mx != my);
            ceq(cx, "C07", subj, cls, "opt<T> < opt<U>", x < y, mx < my);
            ceq(cx, "C07", subj, cls, "opt<T> <= opt<U>", x <= y, mx <= my);
            ceq(cx, "C07", subj, cls, "opt<T> > opt<U>", x > y, mx > my);
            ceq(cx, "C07", subj, cls, "opt<T> >= opt<U>", x >= y, mx >= my);
            ceq(cx, "C07", subj, cls, "opt<U> == opt<T>", y == x, my == mx);
            ceq(cx, "C07", subj, cls, "opt<U> != opt<T>", y != x, my != mx);
            ceq(cx, "C07", subj, cls, "opt<U> < opt<T>", y < x, my < mx);
            ceq(cx, "C07", subj, cls, "opt<U> <= opt<T>", y <= x, my <= mx);
            ceq(cx, "C07", subj, cls, "opt<U> > opt<T>", y > x, my > mx);
            ceq(cx, "C07", subj, cls, "opt<U> >= opt<T>", y >= x, my >= mx);
            break;
        }
        default: break;
        }
        same(cx, subj, cls, *s.v, s.m, "after the operation");
        lifetimes(cx, subj, cls, s, "after the operation");
        if (check_other && p != nullptr) {
            same(cx, subj, cls, *p->v, p->m, "other operand after the operation");
            lifetimes(cx, subj, cls, *p, "other operand");
        }
    }

    void observe(State const& s, Cx& cx) const
    {
        auto const subj = std::string("optional::<observers>");
        V& v            = *s.v;
        V const& cv     = *s.v;
        M& m            = const_cast<M&>(s.m);
        M const& cm     = s.m;
        std::string const cls = st(cm);
        ceq(cx, "C07", subj, cls, "has_value()", cv.has_value(), cm.has_value());
        ceq(cx, "C07", subj, cls, "operator bool", static_cast<bool>(cv), static_cast<bool>(cm));
        if (cv.has_value() != cm.has_value()) { return; }
        if (cm.has_value()) {
            ceq(cx, "C07", "optional::operator*", cls, "*o &", val(*v), val(*m));
            ceq(cx, "C07", "optional::operator*", cls, "*o const&", val(*cv), val(*cm));
            ceq(cx, "C07", "optional::operator*", cls, "*o &&", val(*std::move(v)), val(*std::move(m)));
            ceq(cx, "C07", "optional::operator*", cls, "*o const&&", val(*std::move(cv)), val(*std::move(cm)));
            static_assert(std::is_same_v<decltype(*v), T&> && std::is_same_v<decltype(*cv), T const&>);
            static_assert(std::is_same_v<decltype(*std::move(v)), T&&> && std::is_same_v<decltype(*std::move(cv)), T const&&>);
            T* pe        = v.operator->();
            T const* pce = cv.operator->();
            ceq(cx, "C07", "optional::operator->", cls, "-> refers to the contained value", pe == &*v && pce == &*cv, true);
        } else {
            // tetl documents: "The pointer is null if the optional is empty" (std: undefined)
            T const* pce = cv.operator->();
            ceq(cx, "C07", "optional::operator->", cls, "-> on an empty optional is null (tetl's own contract)", pce == nullptr, true);
        }
        for (int k = 0; k < K; ++k) {
            if constexpr (copyable) {
                int const got  = val(cv.value_or(make<T>(k)));
                int const want = val(cm.value_or(make<MT>(k)));
                ceq(cx, "C07", "optional::value_or(U&&) const&", cls, "value_or", got, want);
                int const got2  = val(cv.value_or(make<U>(k)));
                int const want2 = val(cm.value_or(make<U>(k)));
                ceq(cx, "C07", "optional::value_or(U&&) const&", cls, "value_or(converting)", got2, want2);
            }
            // comparisons with a value of T and of U, both operand orders
            auto cmp_value = [&](auto const& xe, auto const& xm, char const* tn) {
                std::string const sj = "optional x value relational operators";
                ceq(cx, "C07", sj, cls, cat("opt == ", tn).c_str(), cv == xe, cm == xm);
                ceq(cx, "C07", sj, cls, cat("opt != ", tn).c_str(), cv != xe, cm != xm);
                ceq(cx, "C07", sj, cls, cat("opt < ", tn).c_str(), cv < xe, cm < xm);
                ceq(cx, "C07", sj, cls, cat("opt <= ", tn).c_str(), cv <= xe, cm <= xm);
                ceq(cx, "C07", sj, cls, cat("opt > ", tn).c_str(), cv > xe, cm > xm);
                ceq(cx, "C07", sj, cls, cat("opt >= ", tn).c_str(), cv >= xe, cm >= xm);
                ceq(cx, "C07", sj, cls, cat(tn, " == opt").c_str(), xe == cv, xm == cm);
                ceq(cx, "C07", sj, cls, cat(tn, " != opt").c_str(), xe != cv, xm != cm);
                ceq(cx, "C07", sj, cls, cat(tn, " < opt").c_str(), xe < cv, xm < cm);
                ceq(cx, "C07", sj, cls, cat(tn, " <= opt").c_str(), xe <= cv, xm <= cm);
                ceq(cx, "C07", sj, cls, cat(tn, " > opt").c_str(), xe > cv, xm > cm);
                ceq(cx, "C07", sj, cls, cat(tn, " >= opt").c_str(), xe >= cv, xm >= cm);
            };
            {
                T const xe(make<T>(k));
                MT const xm(make<MT>(k));
                cmp_value(xe, xm, "T");
            }
            {
                U const xu(make<U>(k));
                cmp_value(xu, xu, "U");
            }
        }
        {
            // the nullopt comparisons tetl declares (==, != by rewriting, <); >, <=, >= do not compile: API gap
            std::string const sj = "optional x nullopt relational operators";
            ceq(cx, "C07", sj, cls, "opt == nullopt", cv == etl::nullopt, cm == std::nullopt);
            ceq(cx, "C07", sj, cls, "nullopt == opt", etl::nullopt == cv, std::nullopt == cm);
            ceq(cx, "C07", sj, cls, "opt != nullopt", cv != etl::nullopt, cm != std::nullopt);
            ceq(cx, "C07", sj, cls, "nullopt != opt", etl::nullopt != cv, std::nullopt != cm);
            ceq(cx, "C07", sj, cls, "opt < nullopt", cv < etl::nullopt, cm < std::nullopt);
            ceq(cx, "C07", sj, cls, "nullopt < opt", etl::nullopt < cv, std::nullopt < cm);
        }
        // and_then on the four value categories with a callable that logs what it was given
        for (int mode = 0; mode <= 1; ++mode) {
            std::string const sj = "optional::and_then(F)";
            using RE             = etl::optional<int>;
            using RM             = std::optional<int>;
            {
                std::string le, lm;
                auto re = v.and_then(AndThen<RE>{mode, &le});
                auto rm = m.and_then(AndThen<RM>{mode, &lm});
                ceq(cx, "C07", sj, cls + "/&", "invocations", le, lm);
                ceq(cx, "C07", sj, cls + "/&", "result", show_opt(re), show_opt(rm));
            }
            {
                std::string le, lm;
                auto re = cv.and_then(AndThen<RE>{mode, &le});
                auto rm = cm.and_then(AndThen<RM>{mode, &lm});
                ceq(cx, "C07", sj, cls + "/const&", "invocations", le, lm);
                ceq(cx, "C07", sj, cls + "/const&", "result", show_opt(re), show_opt(rm));
            }
            {
                std::string le, lm;
                auto re = std::move(v).and_then(AndThen<RE>{mode, &le}); // the callable takes a reference: nothing is moved
                auto rm = std::move(m).and_then(AndThen<RM>{mode, &lm});
                ceq(cx, "C07", sj, cls + "/&&", "invocations", le, lm);
                ceq(cx, "C07", sj, cls + "/&&", "result", show_opt(re), show_opt(rm));
            }
            {
                std::string le, lm;
                auto re = std::move(cv).and_then(AndThen<RE>{mode, &le});
                auto rm = std::move(cm).and_then(AndThen<RM>{mode, &lm});
                ceq(cx, "C07", sj, cls + "/const&&", "invocations", le, lm);
                ceq(cx, "C07", sj, cls + "/const&&", "result", show_opt(re), show_opt(rm));
            }
        }
        if constexpr (copyable) {
            for (int a = -1; a < K; ++a) {
                std::string le, lm;
                V re = cv.or_else(OrElse<V, T>{a, &le});
                M rm = cm.or_else(OrElse<M, MT>{a, &lm});
                std::string const c2 = cls + (a < 0 ? "+f_empty" : "+f_engaged");
                ceq(cx, "C07", "optional::or_else(F) const&", c2, "invocations", le, lm);
                same(cx, "optional::or_else(F) const&", c2, re, rm, "result");
            }
        }
        same(cx, subj, cls, cv, cm, "after the observers");
        if constexpr (tracked) { drain_lifetimes(cx, subj, cls); }
    }

    std::string key(State const& s) const
    {
        std::string k = s.m.has_value() ? cat("E", val(*s.m)) : std::string("N");
        k += '|';
        k += obs(s);
        if constexpr (State::keyed_bytes) {
            k += '|';
            k += s.bytes();
        }
        return k;
    }
    std::string obs(State const& s) const { return s.v->has_value() ? cat("E", val(**s.v)) : std::string("N"); }

    void retire(State& s, Cx& cx) const
    {
        if (s.dead) { return; }
        s.v->~V();
        s.dead = true;
        if constexpr (tracked) {
            drain_lifetimes(cx, "optional::~optional", st(s.m));
            auto const live = registry().live_in(s.lo(), s.hi());
            if (live != 0) {
                cx.fail("C03", "optional::~optional", st(s.m) + "/leak", cat(live, " object(s) still alive after the owner was destroyed"));
                registry().forget_range(s.lo(), s.hi());
            }
        }
    }
};

// =======================================================================================
// optional<T&>  (T = int or int const): model = index of the referenced cell or -1
// =======================================================================================
int g_cells[4] = {0, 1, 2, 3};

enum RKind : int {
    r_value_init,
    r_nullopt,
    r_bind,          // optional(U&&) from an lvalue
    r_from_opt_val,  // optional<T const&>(optional<int> const&)   binds to the value inside the source
    r_from_opt_ref,  // optional<T const&>(optional<int&> const&)  binds to the source's referent
    r_copy,
    r_move,
    r_a_nullopt,
    r_a_bind,
    r_emplace,
    r_reset,
    r_write,         // *o = x writes through
    r_self_assign,
    r_self_swap,
    rb_copy_assign,
    rb_move_assign,
    rb_swap,
    rb_swap_free,
    rb_relational,
    rkind_count
};

char const* rkind_subject(int k)
{
    static char const* names[] = {"optional<T&>::optional() value-init", "optional<T&>::optional(nullopt_t)", "optional<T&>::optional(U&&)",
        "optional<T&>::optional(optional<U> const&)", "optional<T&>::optional(optional<U&> const&)", "optional<T&>::optional(optional const&)",
        "optional<T&>::optional(optional&&)", "optional<T&>::operator=(nullopt_t)", "optional<T&>::operator=(U&&)", "optional<T&>::emplace",
        "optional<T&>::reset", "optional<T&>::operator* write-through", "optional<T&>::operator=(optional const&) self",
        "optional<T&>::swap(self)", "optional<T&>::operator=(optional const&)", "optional<T&>::operator=(optional&&)", "optional<T&>::swap",
        "etl::swap(optional<T&>,optional<T&>)", "optional<T&> relational operators"};
    static_assert(sizeof(names) / sizeof(names[0]) == rkind_count);
    return names[k];
}

struct RefModel {
    int cell{-1}; // -1: empty
};

template <typename T, int K>
struct OptionalRefSys {
    using V      = etl::optional<T&>;
    using M      = RefModel;
    using State  = Box<V, M>;
    using Action = c07::Action;
    static constexpr bool is_const = std::is_const_v<T>;

    std::string name() const { return cat("optional<", is_const ? "int const&" : "int&", ">"); }
    std::string family() const { return "optional<T&>"; }
    std::string show(Action const& a) const { return cat(rkind_subject(a.k), "[", a.a, "]"); }
    std::string subject(Action const& a) const { return rkind_subject(a.k); }
    static std::string st(M const& m) { return m.cell < 0 ? "empty" : "engaged"; }

    void unary(State const& s, std::vector<Action>& out) const
    {
        out.push_back({r_value_init, 0, 0});
        out.push_back({r_nullopt, 0, 0});
        for (int k = 0; k < K; ++k) {
            out.push_back({r_bind, k, 0});
            out.push_back({r_a_bind, k, 0});
            out.push_back({r_emplace, k, 0});
        }
        for (int a = -1; a < K; ++a) {
            if constexpr (is_const) {
                out.push_back({r_from_opt_val, a, 0});
                out.push_back({r_from_opt_ref, a, 0});
            }
        }
        out.push_back({r_copy, 0, 0});
        out.push_back({r_move, 0, 0});
        out.push_back({r_a_nullopt, 0, 0});
        out.push_back({r_reset, 0, 0});
        out.push_back({r_self_assign, 0, 0});
        out.push_back({r_self_swap, 0, 0});
        if constexpr (!is_const) {
            if (s.m.cell >= 0) { out.push_back({r_write, 0, 0}); }
        }
    }
    void binary(std::vector<Action>& out) const
    {
        out.push_back({rb_copy_assign, 0, 0});
        out.push_back({rb_move_assign, 0, 0});
        out.push_back({rb_swap, 0, 0});
        out.push_back({rb_swap_free, 0, 0});
        out.push_back({rb_relational, 0, 0});
    }

    bool same(Cx& cx, std::string const& subj, std::string const& cls, V const& v, M const& m, char const* what) const
    {
        bool const he = v.has_value();
        if (he != (m.cell >= 0)) {
            cx.fail("C07", subj, cls, cat(what, ": has_value() tetl=", he, " model=", m.cell >= 0));
            return false;
        }
        if (he) {
            T* got = &*v;
            if (got != &g_cells[m.cell]) {
                cx.fail("C07", subj, cls, cat(what, ": refers to ", (got >= g_cells && got < g_cells + 4) ? cat("cell ", got - g_cells) : std::string("a foreign object"), ", model: cell ", m.cell));
                return false;
            }
        }
        return true;
    }

    void apply(State& s, Action const& a, State* p, Cx& cx)
    {
        V& v            = *s.v;
        M& m            = s.m;
        auto const subj = subject(a);
        std::string cls = st(m);
        if (p != nullptr) { cls += "+" + st(p->m); }
        note_case(cx, name(), cat(m.cell), a, p != nullptr ? cat(p->m.cell) : std::string());
        bool check_other = false;
        switch (a.k) {
        case r_value_init: {
            cls = "general";
            v.~V();
            std::memset(s.buf, s.poison, sizeof s.buf);
            s.v    = ::new (static_cast<void*>(s.buf)) V{};
            m.cell = -1;
            break;
        }
        case r_nullopt: {
            cls = "general";
            s.recreate(etl::nullopt);
            m.cell = -1;
            break;
        }
        case r_bind: {
            cls = "general";
            s.recreate(g_cells[a.a]);
            m.cell = a.a;
            break;
        }
        case r_from_opt_val: {
            if constexpr (is_const) {
                // p2988: engaged source -> refers to the value inside the source; empty source -> empty
                cls = a.a < 0 ? "arg_empty" : "arg_engaged";
                etl::optional<int> const src = a.a < 0 ? etl::optional<int>{} : etl::optional<int>{a.a};
                V t(src);
                bool const he = t.has_value();
                ceq(cx, "C07", subj, cls, "has_value()", he, a.a >= 0);
                if (he && a.a >= 0) { ceq(cx, "C07", subj, cls, "refers to the value inside the source", &*t == &*src, true); }
                // the referent dies with src: continue from the equivalent binding to a cell
                if (a.a < 0) {
                    s.recreate(etl::nullopt);
                } else {
                    s.recreate(g_cells[a.a]);
                }
                m.cell = a.a;
            }
            break;
        }
        case r_from_opt_ref: {
            if constexpr (is_const) {
                cls = a.a < 0 ? "arg_empty" : "arg_engaged";
                etl::optional<int&> const src = a.a < 0 ? etl::optional<int&>{} : etl::optional<int&>{g_cells[a.a]};
                s.recreate(src);
                m.cell = a.a;
            }
            break;
        }
        case r_copy: {
            V t(static_cast<V const&>(v));
            same(cx, subj, cls, t, m, "copy");
            t.reset();
            same(cx, subj, cls, v, m, "source after resetting its copy");
            V t2(static_cast<V const&>(v));
            s.recreate(t2);
            break;
        }
        case r_move: {
            V t(std::move(v));
            same(cx, subj, cls, t, m, "moved-to object");
            v = etl::nullopt;
            s.recreate(std::move(t));
            break;
        }
        case r_a_nullopt: {
            V& ret = (v = etl::nullopt);
            if (&ret != &v) { cx.fail("C07", subj, cls, "operator= did not return *this"); }
            m.cell = -1;
            break;
        }
        case r_a_bind: {
            int const before = g_cells[a.a];
            V& ret           = (v = g_cells[a.a]); // rebinds, never assigns through
            if (&ret != &v) { cx.fail("C07", subj, cls, "operator= did not return *this"); }
            m.cell = a.a;
            ceq(cx, "C07", subj, cls, "referent value unchanged by rebinding", g_cells[a.a], before);
            break;
        }
        case r_emplace: {
            v.emplace(g_cells[a.a]);
            m.cell = a.a;
            break;
        }
        case r_reset: {
            v.reset();
            m.cell = -1;
            break;
        }
        case r_write: {
            if constexpr (!is_const) {
                *v = 9;
                ceq(cx, "C07", subj, cls, "write through reaches the referent", g_cells[m.cell], 9);
                g_cells[m.cell] = m.cell;
            }
            break;
        }
        case r_self_assign: {
            V const& self = v;
            v             = self;
            break;
        }
        case r_self_swap: {
            v.swap(v);
            break;
        }
        case rb_copy_assign: {
            V& ret = (v = static_cast<V const&>(*p->v));
            if (&ret != &v) { cx.fail("C07", subj, cls, "operator= did not return *this"); }
            m           = p->m;
            check_other = true;
            break;
        }
        case rb_move_assign: {
            v           = std::move(*p->v);
            m           = p->m;
            check_other = true; // p2988: the source keeps its binding
            break;
        }
        case rb_swap: {
            v.swap(*p->v);
            std::swap(m, p->m);
            check_other = true;
            break;
        }
        case rb_swap_free: {
            using etl::swap;
            swap(v, *p->v);
            std::swap(m, p->m);
            check_other = true;
            break;
        }
        case rb_relational: {
            V const& x = v;
            V const& y = *p->v;
            std::optional<int> const mx = m.cell < 0 ? std::optional<int>{} : std::optional<int>{g_cells[m.cell]};
            std::optional<int> const my = p->m.cell < 0 ? std::optional<int>{} : std::optional<int>{g_cells[p->m.cell]};
            ceq(cx, "C07", subj, cls, "==", x == y, mx == my);
            ceq(cx, "C07", subj, cls, "!=", x != y, mx != my);
            ceq(cx, "C07", subj, cls, "<", x < y, mx < my);
            ceq(cx, "C07", subj, cls, "<=", x <= y, mx <= my);
            ceq(cx, "C07", subj, cls, ">", x > y, mx > my);
            ceq(cx, "C07", subj, cls, ">=", x >= y, mx >= my);
            // mixed with optional<int> holding the same value
            etl::optional<int> const yv = my.has_value() ? etl::optional<int>{*my} : etl::optional<int>{};
            ceq(cx, "C07", subj, cls, "opt<T&> == opt<int>", x == yv, mx == my);
            ceq(cx, "C07", subj, cls, "opt<T&> < opt<int>", x < yv, mx < my);
            ceq(cx, "C07", subj, cls, "opt<int> < opt<T&>", yv < x, my < mx);
            ceq(cx, "C07", subj, cls, "opt<int> >= opt<T&>", yv >= x, my >= mx);
            break;
        }
        default: break;
        }
        same(cx, subj, cls, *s.v, s.m, "after the operation");
        if (check_other && p != nullptr) { same(cx, subj, cls, *p->v, p->m, "other operand after the operation"); }
        for (int i = 0; i < 4; ++i) {
            if (g_cells[i] != i) {
                cx.fail("C07", subj, cls, cat("cell ", i, " was modified to ", g_cells[i]));
                g_cells[i] = i;
            }
        }
    }

    void observe(State const& s, Cx& cx) const
    {
        auto const subj = std::string("optional<T&>::<observers>");
        V const& cv     = *s.v;
        M const& m      = s.m;
        std::string const cls = st(m);
        ceq(cx, "C07", subj, cls, "has_value()", cv.has_value(), m.cell >= 0);
        ceq(cx, "C07", subj, cls, "operator bool", static_cast<bool>(cv), m.cell >= 0);
        if (cv.has_value() != (m.cell >= 0)) { return; }
        T* ptr = cv.operator->();
        ceq(cx, "C07", subj, cls, "operator->", ptr == (m.cell < 0 ? nullptr : &g_cells[m.cell]), true);
        static_assert(std::is_same_v<decltype(*cv), T&>);
        if (m.cell >= 0) {
            ceq(cx, "C07", subj, cls, "*o", *cv, g_cells[m.cell]);
            std::optional<int> const mo{g_cells[m.cell]};
            for (int k = 0; k < K; ++k) {
                ceq(cx, "C07", subj, cls, "opt == value", cv == k, mo == k);
                ceq(cx, "C07", subj, cls, "opt < value", cv < k, mo < k);
                ceq(cx, "C07", subj, cls, "value < opt", k < cv, k < mo);
                ceq(cx, "C07", subj, cls, "opt >= value", cv >= k, mo >= k);
            }
        } else {
            std::optional<int> const mo{};
            for (int k = 0; k < K; ++k) {
                ceq(cx, "C07", subj, cls, "opt == value", cv == k, mo == k);
                ceq(cx, "C07", subj, cls, "opt < value", cv < k, mo < k);
                ceq(cx, "C07", subj, cls, "value < opt", k < cv, k < mo);
                ceq(cx, "C07", subj, cls, "opt >= value", cv >= k, mo >= k);
            }
        }
        ceq(cx, "C07", subj, cls, "opt == nullopt", cv == etl::nullopt, m.cell < 0);
        ceq(cx, "C07", subj, cls, "nullopt != opt", etl::nullopt != cv, m.cell >= 0);
        ceq(cx, "C07", subj, cls, "nullopt < opt", etl::nullopt < cv, m.cell >= 0);
    }

    std::string key(State const& s) const { return cat(s.m.cell, "|", obs(s)); }
    std::string obs(State const& s) const
    {
        if (!s.v->has_value()) { return "N"; }
        T* ptr = &**s.v;
        if (ptr >= g_cells && ptr < g_cells + 4) { return cat("cell", ptr - g_cells); }
        return "foreign";
    }
};

using TCM = mc::Tracked<mc::copy_move>;
using TMO = mc::Tracked<mc::move_only>;

} // namespace

int main(int argc, char** argv)
{
    mc::Main m(argc, argv);
    std::vector<std::string> const both{"quick", "thorough"};
    std::vector<std::string> const th{"thorough"};
#if !defined(MC_PART) || MC_PART == 1
    m.job("optional<int>/k3", both, [](mc::Reporter& r) { explore<OptionalSys<int, short, 3>>(r); });
    m.job("optional<int>/k4", th, [](mc::Reporter& r) { explore<OptionalSys<int, short, 4>>(r); });
    m.job("optional<int&>/k3", both, [](mc::Reporter& r) { explore<OptionalRefSys<int, 3>>(r); });
    m.job("optional<int const&>/k3", both, [](mc::Reporter& r) { explore<OptionalRefSys<int const, 3>>(r); });
#endif
#if !defined(MC_PART) || MC_PART == 2
    m.job("optional<Tracked>/k3", both, [](mc::Reporter& r) { explore<OptionalSys<TCM, int, 3>>(r); });
    m.job("optional<TrackedRule3>/k3", both, [](mc::Reporter& r) { explore<OptionalSys<mc::Tracked<mc::rule3>, int, 3>>(r); });
    m.job("optional<Tracked>/k4", th, [](mc::Reporter& r) { explore<OptionalSys<TCM, int, 4>>(r); });
#endif
#if !defined(MC_PART) || MC_PART == 3
    m.job("optional<TrackedMoveOnly>/k3", both, [](mc::Reporter& r) { explore<OptionalSys<TMO, int, 3>>(r); });
#endif
    return m.run();
}
